"""C20 — support helpers faithfully build and bind signatures.

For every signature of the universe (with annotations and defaults):
 (a) support.s / func_from_sig reproduce it from its string form, for every
     read_sig option combination, eager and postponed annotations;
 (b) the function made by support.f, really called, returns its arguments keyed
     by parameter name;
 (c) support.bind_callsig agrees with really calling a def with that signature
     (independent oracle) and with the Gallina model (correspondence);
 (d) sort_callsigs / make_up_callsigs against brute force and the model;
 (e) read_sig / func_code against the token-level model;
 (c') bind_callsig / sort_callsigs with the positional arguments held in a list, range, UserList,
     array or tuple subclass: the mapping of the real call (surplus in a tuple);
 (c'') calls whose argument VALUES are falsy (0, None, '', (), [], False, 0.0, objects with __bool__ False /
     __len__ 0), equal but distinct, or containers -- in the slots, in the surplus beyond the positional
     slots, as keyword values: bind_callsig / sort_callsigs vs the real call and vs the model (values interned);
 (a') two and three future features in every order (annotations first / in the middle / last / absent):
     postponed exactly when 'annotations' is named, s and f alike;
 (h) annotation / default / return annotation texts that are names of the caller's globals=
     namespace, including names the helpers use themselves (`modifiers`, `func`, ...).
"""
import inspect
import itertools
import re
import warnings
from concurrent.futures import ThreadPoolExecutor

from core import universe, random_sig, name_of, id_of_name, KINDS
import coqrun

from sigtools import support, specifiers, _util
from sigtools import _signatures as S

LEVEL = 'proof'
P = inspect.Parameter
FOREIGN = 'z'
EXTRA_PREFIX = '__make_up_callsigs__extra_'
OPT_NAMES = ('use_modifiers_annotate', 'use_modifiers_posoargs', 'use_modifiers_kwoargs')
KNOWN_RET_KEY = 'C20:func_from_sig-return-annotation'


# ---------------------------------------------------------------- names / values
def nid(name):
    if name.startswith(EXTRA_PREFIX):
        return 1000 + int(name[len(EXTRA_PREFIX):])
    return id_of_name(name)


def nname(i):
    if i >= 1000:
        return EXTRA_PREFIX + str(i - 1000)
    return name_of(i)


def enc_val(v):
    """a value passed / returned: ints stay, strings (make_up_callsigs) are names"""
    if isinstance(v, str):
        return nid(v)
    if isinstance(v, int) and not isinstance(v, bool):
        return v
    return 999999      # not a value any call passes (e.g. Parameter.empty leaking out)


# signature descriptions: list of (name_id, kind, default|None, ann|None)
def with_meta(ps, annmask, shift=0):
    out = []
    for i, p in enumerate(ps):
        nm, k, de = p[0], p[1], p[2]
        an = (20 + i) if (annmask >> i) & 1 and True else None
        out.append((nm, k, (1 + i + shift) if de is not None else None, an))
    return out


def has_po(ps):
    return any(p[1] == 'PO' for p in ps)


def show(ps, ret=None):
    out = []
    prev = None
    for nm, k, de, an in ps:
        if prev == 'PO' and k != 'PO':
            out.append('/')
        if k == 'KO' and prev not in ('VP', 'KO'):
            out.append('*')
        s = {'VP': '*', 'VK': '**'}.get(k, '') + nname(nm)
        if an is not None:
            s += ': %d' % an
            if de is not None:
                s += ' = %d' % de
        elif de is not None:
            s += '=%d' % de
        out.append(s)
        prev = k
    if prev == 'PO':
        out.append('/')
    r = '(' + ', '.join(out) + ')'
    if ret is not None:
        r += ' -> %d' % ret
    return r


def real_def(ps):
    """An independent real function: def with these parameters returning its
    arguments keyed by name (no sigtools code involved)."""
    body = ', '.join('%r: %s' % (nname(p[0]), nname(p[0])) for p in ps)
    src = 'def func%s:\n    return {%s}\n' % (show([(a, b, c, None) for a, b, c, d in ps]), body)
    ns = {}
    exec(src, ns)
    return ns['func']


def expected_sig(ps, ret=None):
    params = [S.UpgradedParameter(nname(nm), KINDS[k],
                                  default=P.empty if de is None else de,
                                  annotation=P.empty if an is None else an,
                                  upgraded_annotation=(S.EmptyAnnotation if an is None
                                                       else S._PreEvaluatedAnnotation(an)))
              for nm, k, de, an in ps]
    return S.UpgradedSignature(
        params, return_annotation=P.empty if ret is None else ret,
        upgraded_return_annotation=(S.EmptyAnnotation if ret is None
                                    else S._PreEvaluatedAnnotation(ret)))


def describe(sig):
    """(params, ret) of a signature object, in the description format"""
    out = []
    for p in sig.parameters.values():
        kind = {v: k for k, v in KINDS.items()}[p.kind]
        out.append((nid(p.name), kind, None if p.default is P.empty else p.default,
                    None if p.annotation is P.empty else p.annotation))
    return out, (None if sig.return_annotation is P.empty else sig.return_annotation)


def ko_canon(ps):
    return ([p for p in ps if p[1] != 'KO'], sorted((p for p in ps if p[1] == 'KO'), key=repr))


# ---------------------------------------------------------------- Coq encoding
def c_opt(v):
    return 'None' if v is None else '(Some %d)' % v


def c_param(p):
    return '(pp %d %s %s %s)' % (p[0], p[1], c_opt(p[2]), c_opt(p[3]))


def c_sig(ps):
    return '[' + '; '.join(c_param(p) for p in ps) + ']'


def c_nlist(l):
    return '[' + '; '.join(str(int(x)) for x in l) + ']'


def c_kvs(kvs):
    return '[' + '; '.join('(%d, %d)' % (k, v) for k, v in kvs) + ']'


def c_bval(v):
    if isinstance(v, tuple):
        return 'BTuple ' + c_nlist([enc_val(x) for x in v])
    if isinstance(v, dict):
        return 'BDict ' + c_kvs([(nid(k), enc_val(x)) for k, x in v.items()])
    return 'BV %d' % enc_val(v)


def c_asg(d):
    return '[' + '; '.join('(%d, %s)' % (nid(k), c_bval(v)) for k, v in d.items()) + ']'


ERR_PATTERNS = [
    (1, re.compile(r'^too many positional arguments$')),
    (2, re.compile(r"^'(.*)' is positional-only$")),
    (3, re.compile(r"^'(.*)' was specified twice$")),
    (4, re.compile(r"^unknown parameter '(.*)'$")),
    (5, re.compile(r"^omitted required parameter '(.*)'$")),
]


def enc_err(e):
    msg = str(e)
    for code, pat in ERR_PATTERNS:
        m = pat.match(msg)
        if m:
            return (code, nid(m.group(1)) if m.groups() else 0)
    return (9, 0)


PREAMBLE = ('From Sigtools.Model Require Import Base Bind Support.\n'
            'Import ListNotations.\nOpen Scope N_scope.\n')


# ---------------------------------------------------------------- (c) binder
def impl_bind(sig, args, kwargs):
    try:
        return ('ok', support.bind_callsig(sig, tuple(args), dict(kwargs)))
    except TypeError as e:
        return ('err', enc_err(e), str(e))


def real_call(fn, args, kwargs):
    try:
        return ('ok', fn(*args, **dict(kwargs)))
    except TypeError as e:
        return ('err', str(e))


# The positional arguments of a call shape held in something else than a tuple: CPython
# star-unpacks any of them and always collects the surplus in a tuple.  (Sequences that
# can be sliced, as bind_callsig slices its argument.)
class ArgsTuple(tuple):
    """a tuple subclass (e.g. a named tuple of arguments)"""


def _mk_range(vals):
    vals = list(vals)
    if vals and vals != list(range(vals[0], vals[0] + len(vals))):
        return list(vals)
    return range(vals[0], vals[0] + len(vals)) if vals else range(0)


def _mk_array(vals):
    import array
    return array.array('q', vals)


def _mk_userlist(vals):
    import collections
    return collections.UserList(vals)


CONTAINERS = {'list': list, 'range': _mk_range, 'userlist': _mk_userlist, 'array': _mk_array,
              'tuple-subclass': ArgsTuple}
CONTAINER_NAMES = sorted(CONTAINERS)


def decide_bind_container(ps, args, kwargs, cname, sig=None, fn=None, impl_tuple=None):
    """bind_callsig with the positional arguments held in a CONTAINERS[cname]: the answer
    must be the one of really calling def func<ps>(*args, **kwargs) (the surplus in a tuple,
    whatever was unpacked), which is also the answer for the same arguments in a tuple.
    Returns what|None."""
    sig = sig or expected_sig(ps)
    fn = fn or real_def(ps)
    held = CONTAINERS[cname](args)
    try:
        impl = ('ok', support.bind_callsig(sig, held, dict(kwargs)))
    except TypeError as e:
        impl = ('err', enc_err(e), str(e))
    except Exception as e:  # noqa: BLE001
        impl = ('err', (9, 0), '%s: %s' % (type(e).__name__, e))
    real = real_call(fn, CONTAINERS[cname](args), kwargs)
    if collision(ps, kwargs):
        return None
    call = '%r, %r' % (held, dict(kwargs))
    if impl[0] != real[0]:
        return ('bind_callsig(%s, %s) %s but really calling def func%s(*%r, **%r) %s'
                % (show(ps), call,
                   'returned %r' % (impl[1],) if impl[0] == 'ok' else 'raised (%s)' % impl[2],
                   show(ps), held, dict(kwargs),
                   'returned %r' % (real[1],) if real[0] == 'ok' else 'raised TypeError(%s)' % real[1]))
    if impl[0] == 'ok':
        if impl[1] != real[1] or any(type(impl[1][k]) is not type(real[1][k]) for k in real[1]):
            return ('bind_callsig(%s, %s) returned %r but the real call func(*%r, **%r) returned %r'
                    % (show(ps), call, impl[1], held, dict(kwargs), real[1]))
    if impl_tuple is not None and impl_tuple[:2] != impl[:2]:
        return ('bind_callsig(%s, %s) answers %r but %r for the same arguments in a tuple'
                % (show(ps), call, impl[1], impl_tuple[1]))
    return None


def decide_sort_container(ps, calls, cname, sig=None, fn=None, flags_out=None):
    """sort_callsigs on call shapes whose positional arguments are held in a container:
    the same partition, and every bound mapping equal to the real return value.
    (cname 'tuple': a plain tuple; flags_out receives, per call, whether it was listed as valid.)"""
    sig = sig or expected_sig(ps)
    fn = fn or real_def(ps)
    mk = tuple if cname == 'tuple' else CONTAINERS[cname]
    callsigs = [(mk(a), dict(k)) for a, k in calls]
    try:
        with warnings.catch_warnings():
            warnings.simplefilter('ignore')
            valid, invalid = support.sort_callsigs(sig, callsigs)
    except Exception as e:  # noqa: BLE001
        return 'sort_callsigs(%s, <%d calls, positional arguments in a %s>) raised %s: %s' % (
            show(ps), len(calls), cname, type(e).__name__, e)
    vi = ii = 0
    for (args, kwargs), cs in zip(calls, callsigs):
        real = real_call(fn, mk(args), kwargs)
        in_valid = vi < len(valid) and valid[vi][0] is cs[0] and valid[vi][1] is cs[1]
        if in_valid:
            bound = valid[vi][2]
            vi += 1
        elif ii < len(invalid) and invalid[ii][0] is cs[0] and invalid[ii][1] is cs[1]:
            ii += 1
        else:
            return 'sort_callsigs(%s, ...) lost or reordered the call (%r, %r)' % (show(ps), cs[0], cs[1])
        if flags_out is not None:
            flags_out.append(in_valid)
        if collision(ps, kwargs):
            continue
        if in_valid != (real[0] == 'ok') or (in_valid and (
                bound != real[1] or any(type(bound[k]) is not type(real[1][k]) for k in real[1]))):
            return 'sort_callsigs(%s, ...) put (%r, %r) in %s%s but the real call func(*%r, **%r) %s' % (
                show(ps), cs[0], cs[1], 'valid' if in_valid else 'invalid', ' with %r' % (bound,) if in_valid else '',
                cs[0], cs[1], 'returned %r' % (real[1],) if real[0] == 'ok' else 'raised TypeError')
    return None


def collision(ps, kwargs):
    po = {nname(p[0]) for p in ps if p[1] == 'PO'}
    return any(p[1] == 'VK' for p in ps) and any(k in po for k, _ in kwargs)


def decide_bind(ps, args, kwargs, sig=None, fn=None):
    """The property on the implementation: bind_callsig vs a real call.
    Returns (impl, real, what|None)."""
    sig = sig or expected_sig(ps)
    fn = fn or real_def(ps)
    impl = impl_bind(sig, args, kwargs)
    real = real_call(fn, args, kwargs)
    what = None
    if not collision(ps, kwargs):
        call = '(*%s, **%s)' % (list(args), dict(kwargs))
        if impl[0] != real[0]:
            what = ('bind_callsig(%s, %s) %s but really calling def func%s%s %s'
                    % (show(ps), call,
                       'returned %r' % (impl[1],) if impl[0] == 'ok' else 'raised TypeError(%s)' % impl[2],
                       show(ps), call,
                       'returned %r' % (real[1],) if real[0] == 'ok' else 'raised TypeError(%s)' % real[1]))
        elif impl[0] == 'ok' and impl[1] != real[1]:
            what = ('bind_callsig(%s, %s) returned %r but the real call returned %r'
                    % (show(ps), call, impl[1], real[1]))
    return impl, real, what


def gen_calls(ps, rng, cap):
    """value-level calls with distinguishable values"""
    names = [nname(p[0]) for p in ps] + [FOREIGN]
    npositional = sum(1 for p in ps if p[1] in ('PO', 'PK'))
    subsets = []
    if len(names) <= 5:
        for r in range(len(names) + 1):
            subsets.extend(itertools.combinations(names, r))
    else:
        subsets = [(), tuple(names), tuple(names[:-1])]
        subsets += [(n,) for n in names]
        seen = set(subsets)
        while len(subsets) < cap:
            ks = tuple(n for n in names if rng.random() < 0.4)
            if ks not in seen:
                seen.add(ks)
                subsets.append(ks)
    calls = []
    for n in range(npositional + 3):
        args = [101 + i for i in range(n)]
        for ks in subsets:
            ks = list(ks)
            if len(ks) > 1 and rng.random() < 0.3:
                rng.shuffle(ks)
            calls.append((args, [(k, 201 + j) for j, k in enumerate(ks)]))
    return calls


def coq_bind_shard(shard):
    """shard: list of (ps, [(args, kwargs, impl, real, sortflag)]).  Returns a
    dict relation -> list of (sig index, case index)."""
    lines = [PREAMBLE]
    terms = []
    for si, (ps, cases) in enumerate(shard):
        lines.append('Definition s%d : list param := %s.' % (si, c_sig(ps)))
        items = []
        for args, kwargs, impl, real, flag in cases:
            exp = ('inr %s' % c_asg(impl[1])) if impl[0] == 'ok' else 'inl (%d, %d)' % impl[1]
            rl = ('Some %s' % c_asg(real[1])) if real[0] == 'ok' else 'None'
            items.append('(%s, %s, (%s), (%s))' % (
                c_nlist(args), c_kvs([(nid(k), v) for k, v in kwargs]), exp, rl))
        lines.append('Definition c%d : list (list N * list (name * N) * ((N * N) + asg) * option asg) := [%s].'
                     % (si, ';\n '.join(items)))
        flags = '[' + '; '.join('true' if c[4] else 'false' for c in cases) + ']'
        lines.append('Definition f%d : list bool := %s.' % (si, flags))
        terms.append('bad_indices (fun c => match c with (a, k, e, r) => bres_matches (bind_callsig s%d a k) e end) c%d' % (si, si))
        terms.append('bad_indices (fun c => match c with (a, k, e, r) => opt_asg_matches (bindv s%d a k) r end) c%d' % (si, si))
        terms.append('bad_indices (fun c => match c with (a, k, e, r) => Bool.eqb (is_some (bindv s%d a k)) (accepts s%d (mkCall (length a) (map fst k))) end) c%d' % (si, si, si))
        terms.append('bad_indices (fun c => match c with (a, k, e, r) => bind_agrees s%d a k end) c%d' % (si, si))
        # sort_callsigs: the model's partition of this call list vs the implementation's
        terms.append('let cs := map (fun c => match c with (a, k, e, r) => (a, k) end) c%d in '
                     'let r := sort_callsigs s%d cs in '
                     'let fl := combine cs f%d in '
                     'list_eqb (fun x y => list_N_eqb (fst x) (fst y) && list_N_eqb (map fst (snd x)) (map fst (snd y))) '
                     '(map fst (fst r)) (map fst (filter (fun x => snd x) fl)) && '
                     'list_eqb (fun x y => list_N_eqb (fst x) (fst y) && list_N_eqb (map fst (snd x)) (map fst (snd y))) '
                     '(snd r) (map fst (filter (fun x => negb (snd x)) fl))' % (si, si, si))
    answers = coqrun.coq_eval('\n'.join(lines), terms, name='c20bind')
    out = {'bind_callsig': [], 'bindv-vs-real-call': [], 'bindv-vs-accepts': [], 'C20_bind-statement': [],
           'sort_callsigs': []}
    for si in range(len(shard)):
        a = answers[5 * si: 5 * si + 5]
        for rel, ans in zip(('bind_callsig', 'bindv-vs-real-call', 'bindv-vs-accepts', 'C20_bind-statement'), a):
            for ci in coqrun.parse_nat_list(ans):
                out[rel].append((si, ci))
        if not coqrun.parse_bool(a[4]):
            out['sort_callsigs'].append((si, 0))
    return out


def check_binder(ctx, rep, sigs):
    rng = ctx.rng('calls')
    groups = []
    ncalls = 0
    ncoll = 0
    kinds = {}
    nheld = {}
    for ps in sigs:
        sig = expected_sig(ps)
        fn = real_def(ps)
        calls = gen_calls(ps, rng, 20 if ctx.quick else 40)
        cases = []
        callsigs = [(tuple(a), dict(k)) for a, k in calls]
        with warnings.catch_warnings():
            warnings.simplefilter('ignore')
            valid, invalid = support.sort_callsigs(sig, callsigs)
        # (d) sort_callsigs partitions accordingly, order kept
        vi = ii = 0
        for (args, kwargs), cs in zip(calls, callsigs):
            impl, real, what = decide_bind(ps, args, kwargs, sig, fn)
            ncalls += 1
            coll = collision(ps, kwargs)
            ncoll += coll
            key = impl[1][0] if impl[0] == 'err' else 0
            kinds[key] = kinds.get(key, 0) + 1
            if what:
                rep.violation('C20:bind', what, {'kind': 'bind', 'sig': ps, 'args': args, 'kwargs': kwargs})
            # the same positional arguments held in a list and in one more kind of sequence
            for cname in ('list', CONTAINER_NAMES[ncalls % len(CONTAINER_NAMES)]):
                nheld[cname] = nheld.get(cname, 0) + 1
                w2 = decide_bind_container(ps, args, kwargs, cname, sig, fn, impl)
                if w2:
                    rep.violation('C20:bind', w2, {'kind': 'bind-container', 'sig': ps, 'args': args, 'kwargs': kwargs,
                                                   'container': cname})
            in_valid = vi < len(valid) and valid[vi][0] == cs[0] and valid[vi][1] == cs[1] and list(valid[vi][1]) == list(cs[1])
            if in_valid:
                bound = valid[vi][2]
                vi += 1
            else:
                in_invalid = ii < len(invalid) and invalid[ii] == cs and list(invalid[ii][1]) == list(cs[1])
                if in_invalid:
                    ii += 1
                else:
                    rep.violation('C20:sort', 'sort_callsigs(%s, ...) lost or reordered the call (*%s, **%s)'
                                  % (show(ps), args, dict(kwargs)),
                                  {'kind': 'sort', 'sig': ps, 'calls': calls})
                    break
            if not coll:
                if in_valid != (real[0] == 'ok') or (in_valid and bound != real[1]):
                    rep.violation('C20:sort', 'sort_callsigs(%s, ...) put (*%s, **%s) in %s%s but the real call %s'
                                  % (show(ps), args, dict(kwargs), 'valid' if in_valid else 'invalid',
                                     ' with %r' % (bound,) if in_valid else '',
                                     'returned %r' % (real[1],) if real[0] == 'ok' else 'raised TypeError'),
                                  {'kind': 'sort', 'sig': ps, 'calls': calls})
            cases.append((args, kwargs, impl, real, in_valid))
            if impl[0] == 'err' or kwargs or len(args) > 0:
                rep.distinct.add(('bind', tuple(ps), tuple(args), tuple(kwargs)))
        groups.append((ps, cases))
        for cname in ('list', CONTAINER_NAMES[len(groups) % len(CONTAINER_NAMES)]):
            w2 = decide_sort_container(ps, calls, cname, sig, fn)
            if w2:
                rep.violation('C20:sort', w2, {'kind': 'sort-container', 'sig': ps, 'calls': calls, 'container': cname})
    # correspondence with the model, sharded
    shards = []
    cur, n = [], 0
    for g in groups:
        cur.append(g)
        n += len(g[1])
        if n >= 500:
            shards.append(cur)
            cur, n = [], 0
    if cur:
        shards.append(cur)
    with ThreadPoolExecutor(14) as ex:
        results = list(ex.map(coq_bind_shard, shards))
    for shard, res in zip(shards, results):
        for rel, lst in res.items():
            for si, ci in lst:
                ps, cases = shard[si]
                args, kwargs, impl, real, flag = cases[ci]
                inp = {'sig': show(ps), 'args': args, 'kwargs': kwargs}
                if rel == 'bind_callsig':
                    rep.corr_break('bind_callsig model vs implementation', inp, 'differs', str(impl[:2]))
                elif rel == 'sort_callsigs':
                    rep.corr_break('sort_callsigs model vs implementation', {'sig': show(ps)}, 'differs', 'partition')
                elif rel == 'bindv-vs-real-call':
                    rep.corr_break('bindv (CPython binder model) vs a real call', inp, 'differs', str(real))
                elif rel == 'bindv-vs-accepts':
                    rep.corr_break('bindv succeeds iff accepts', inp, 'differs', '')
                else:
                    rep.corr_break('C20_bind statement evaluated in the model', inp, 'false', '')
    rep.coverage['bind_calls'] = ncalls
    rep.coverage['bind_calls_positional_arguments_held_in'] = nheld
    rep.coverage['bind_calls_po_keyword_with_varkwargs_excluded'] = ncoll
    rep.coverage['bind_error_kinds'] = {str(k): v for k, v in sorted(kinds.items())}
    rep.coverage['bind_coq_shards'] = len(shards)
    return ncalls


# ---------------------------------------------------------------- (c'') argument VALUES
# The binder must not look at the values it is given: a call is accepted, and its arguments
# mapped, by position and keyword only.  Calls whose argument values are falsy (0, None, '',
# (), [], False, 0.0, {}, an object with __bool__ False / __len__ 0 ...), equal to each other
# although distinct (0 == False == 0.0 == 0j), or containers themselves -- at every position:
# a parameter's slot, the surplus beyond the positional slots (with and without *args), a
# keyword's value, a **kwargs entry.  Decided by really calling the def; the model (whose
# values are interned numbers) is run on the same calls with every value interned.
class Falsy(object):
    def __bool__(self):
        return False

    def __repr__(self):
        return '<falsy object>'


class Empty(object):
    def __len__(self):
        return 0

    def __repr__(self):
        return '<object of length 0>'


# (factory, falsy?)  -- code of value i is 500 + i; ints are their own code
VALUE_TABLE = [
    (lambda: None, True), (lambda: '', True), (lambda: (), True), (lambda: [], True), (lambda: False, True),
    (lambda: 0.0, True), (lambda: {}, True), (lambda: frozenset(), True), (lambda: b'', True), (lambda: 0j, True),
    (lambda: range(0), True), (Falsy, True), (Empty, True), (lambda: -0.0, True),
    (lambda: 'x', False), (lambda: (0,), False), (lambda: True, False), (lambda: [None], False),
    (lambda: 0.5, False), (lambda: ((),), False), (lambda: {'a': 0}, False),
]
VALUE_KEYS = {}
for _i, (_mk, _falsy) in enumerate(VALUE_TABLE):
    _v = _mk()
    assert bool(_v) != _falsy
    VALUE_KEYS[(type(_v).__name__, repr(_v))] = 500 + _i
FALSY_CODES = [0] + [500 + i for i, (_mk, fa) in enumerate(VALUE_TABLE) if fa]
TRUTHY_CODES = [500 + i for i, (_mk, fa) in enumerate(VALUE_TABLE) if not fa]


def vcode(v):
    if type(v) is int:
        return v
    return VALUE_KEYS.get((type(v).__name__, repr(v)), 999999)


def vdecode(c):
    return VALUE_TABLE[c - 500][0]() if 500 <= c < 500 + len(VALUE_TABLE) else c


def conv_asg(ps, d):
    """a returned mapping with every value interned (type-aware: 0, False and 0.0 differ)"""
    kinds = {nname(p[0]): p[1] for p in ps}
    out = {}
    for k, v in d.items():
        kind = kinds.get(k)
        if kind == 'VP' and type(v) is tuple:
            out[k] = tuple(vcode(x) for x in v)
        elif kind == 'VK' and type(v) is dict:
            out[k] = {kk: vcode(x) for kk, x in v.items()}
        else:
            out[k] = vcode(v)
    return out


def decide_bind_values(ps, acodes, kcodes, sig=None, fn=None):
    """bind_callsig vs really calling the def, on a call given by value codes.
    Returns (impl, real, what|None) with the mappings interned (for the model)."""
    sig = sig or expected_sig(ps)
    fn = fn or real_def(ps)
    args = [vdecode(c) for c in acodes]
    kwargs = [(k, vdecode(c)) for k, c in kcodes]
    impl = impl_bind(sig, args, kwargs)
    real = real_call(fn, args, kwargs)
    impl_c = ('ok', conv_asg(ps, impl[1])) if impl[0] == 'ok' else impl
    real_c = ('ok', conv_asg(ps, real[1])) if real[0] == 'ok' else real
    what = None
    if not collision(ps, kwargs):
        call = '(*%r, **%r)' % (args, dict(kwargs))
        if impl[0] != real[0]:
            what = ('bind_callsig(%s, %s) %s but really calling def func%s%s %s'
                    % (show(ps), call,
                       'returned %r' % (impl[1],) if impl[0] == 'ok' else 'raised TypeError(%s)' % impl[2],
                       show(ps), call,
                       'returned %r' % (real[1],) if real[0] == 'ok' else 'raised TypeError(%s)' % real[1]))
        elif impl[0] == 'ok' and (impl[1] != real[1] or impl_c[1] != real_c[1]):
            what = ('bind_callsig(%s, %s) returned %r but the real call returned %r'
                    % (show(ps), call, impl[1], real[1]))
    return impl_c, real_c, what


def gen_value_calls(ps, rng, per_n):
    """calls as (argument codes, [(keyword, code)]): every positional count up to three beyond
    the positional slots; the surplus / the slots / the keyword values falsy, mixed, random"""
    pos = [p for p in ps if p[1] in ('PO', 'PK')]
    npos = len(pos)
    names = [nname(p[0]) for p in ps] + [FOREIGN]
    required_ko = [nname(p[0]) for p in ps if p[1] == 'KO' and p[2] is None]
    pool = FALSY_CODES + TRUTHY_CODES + [101, 102]

    def fa():
        return rng.choice(FALSY_CODES)
    calls = []
    for n in range(npos + 4):
        k = max(0, n - npos)        # surplus
        variants = []
        head = [101 + i for i in range(min(n, npos))]
        one = fa()
        variants.append(head + [one] * k)                                   # the same falsy value in every surplus place
        variants.append(head + [fa() for _ in range(k)])                    # different falsy values
        variants.append([fa() for _ in range(n)])                           # everything falsy
        variants.append([rng.choice(pool) for _ in range(n)])               # anything
        if k >= 2:
            variants.append(head + [fa() for _ in range(k - 1)] + [rng.choice(TRUTHY_CODES)])
            variants.append(head + [rng.choice(TRUTHY_CODES)] + [fa() for _ in range(k - 1)])
        if n and npos:
            v = list(head) + [fa() for _ in range(k)]
            v[rng.randrange(min(n, npos))] = fa()                           # one slot falsy
            variants.append(v)
        seen = set()
        variants = [v for v in variants if not (tuple(v) in seen or seen.add(tuple(v)))]
        if len(variants) > per_n:
            variants = variants[:2] + rng.sample(variants[2:], per_n - 2)
        for args in variants:
            free = [nm for nm in names[:-1] if nm not in [nname(p[0]) for p in pos[:n]]]
            kwsets = [[], list(required_ko)]
            kwsets.append([nm for nm in names if rng.random() < 0.4])
            kwsets.append([nm for nm in free if rng.random() < 0.7] + ([FOREIGN] if rng.random() < 0.3 else []))
            seen_k = set()
            for ks in kwsets:
                if tuple(ks) in seen_k:
                    continue
                seen_k.add(tuple(ks))
                mode = rng.randrange(3)
                calls.append((args, [(nm, fa() if mode == 0 else rng.choice(pool) if mode == 1 else 201 + j)
                                     for j, nm in enumerate(ks)]))
    return calls


def check_values(ctx, rep, sigs):
    rng = ctx.rng('values')
    groups = []
    ncalls = nsurplus = nsurplus_falsy = nfalsy_kw = 0
    used = {}
    for gi, ps in enumerate(sigs):
        sig = expected_sig(ps)
        fn = real_def(ps)
        calls = gen_value_calls(ps, rng, 3 if ctx.quick else 7)
        npos = sum(1 for p in ps if p[1] in ('PO', 'PK'))
        cases = []
        for acodes, kcodes in calls:
            impl_c, real_c, what = decide_bind_values(ps, acodes, kcodes, sig, fn)
            ncalls += 1
            if len(acodes) > npos:
                nsurplus += 1
                nsurplus_falsy += all(c in FALSY_CODES for c in acodes[npos:])
            nfalsy_kw += any(c in FALSY_CODES for _, c in kcodes)
            for c in acodes:
                used[c] = used.get(c, 0) + 1
            rdata = {'sig': ps, 'args': acodes, 'kwargs': kcodes}
            if what:
                rep.violation('C20:bind', what, dict(rdata, kind='bind-values'))
            cname = ('list', 'tuple-subclass', 'userlist')[ncalls % 3]
            w2 = decide_bind_container(ps, [vdecode(c) for c in acodes], [(k, vdecode(c)) for k, c in kcodes], cname, sig, fn)
            if w2:
                rep.violation('C20:bind', w2, dict(rdata, kind='bind-values-container', container=cname))
            cases.append([acodes, kcodes, impl_c, real_c, None])
            rep.distinct.add(('bind-values', tuple(ps), tuple(acodes), tuple(kcodes)))
        # sort_callsigs on the same calls: the same partition, the real mappings
        flags = []
        for cname in ('tuple', ('list', 'tuple-subclass', 'userlist')[gi % 3]):
            fl = []
            w3 = decide_sort_container(ps, [([vdecode(c) for c in a], [(k, vdecode(c)) for k, c in kw]) for a, kw in calls],
                                       cname, sig, fn, fl)
            if w3:
                rep.violation('C20:sort', w3, {'kind': 'sort-values', 'sig': ps, 'calls': calls, 'container': cname})
            if cname == 'tuple':
                flags = fl
        if len(flags) == len(cases):
            for c, f in zip(cases, flags):
                c[4] = f
        else:       # sort_callsigs failed as a whole (reported above): the model's partition is the reference
            for c in cases:
                c[4] = c[2][0] == 'ok'
        groups.append((ps, [tuple(c) for c in cases]))
    shards = []
    cur, n = [], 0
    for g in groups:
        cur.append(g)
        n += len(g[1])
        if n >= 500:
            shards.append(cur)
            cur, n = [], 0
    if cur:
        shards.append(cur)
    with ThreadPoolExecutor(14) as ex:
        results = list(ex.map(coq_bind_shard, shards))
    for shard, res in zip(shards, results):
        for rel, lst in res.items():
            for si, ci in lst:
                ps, cases = shard[si]
                acodes, kcodes, impl_c, real_c, flag = cases[ci]
                inp = {'sig': show(ps), 'args': [vdecode(c) for c in acodes], 'kwargs': [(k, vdecode(c)) for k, c in kcodes],
                       'values': 'interned'}
                if rel == 'bind_callsig':
                    rep.corr_break('bind_callsig model vs implementation (falsy / container argument values)', inp,
                                   'differs', str(impl_c[:2]))
                elif rel == 'sort_callsigs':
                    rep.corr_break('sort_callsigs model vs implementation (falsy / container argument values)',
                                   {'sig': show(ps)}, 'differs', 'partition')
                elif rel == 'bindv-vs-real-call':
                    rep.corr_break('bindv (CPython binder model) vs a real call (falsy / container argument values)', inp,
                                   'differs', str(real_c))
                elif rel == 'bindv-vs-accepts':
                    rep.corr_break('bindv succeeds iff accepts', inp, 'differs', '')
                else:
                    rep.corr_break('C20_bind statement evaluated in the model', inp, 'false', '')
    rep.coverage['value_calls'] = ncalls
    rep.coverage['value_calls_with_surplus_positionals'] = nsurplus
    rep.coverage['value_calls_with_all_surplus_falsy'] = nsurplus_falsy
    rep.coverage['value_calls_with_a_falsy_keyword_value'] = nfalsy_kw
    rep.coverage['value_calls_positional_values_used'] = {repr(vdecode(c)): v for c, v in sorted(used.items())}
    rep.coverage['value_coq_shards'] = len(shards)
    return ncalls


# ---------------------------------------------------------------- (d) make_up_callsigs
def brute_callsigs(ps, extra):
    named = [nname(p[0]) for k in ('PO', 'PK', 'KO') for p in ps if p[1] == k]
    names1 = named + [EXTRA_PREFIX + str(i) for i in range(extra)]
    names2 = names1 + [nname(p[0]) for p in ps if p[1] == 'VP'] + [nname(p[0]) for p in ps if p[1] == 'VK']
    want = set()
    for i in range(len(names1) + 1):
        for r in range(len(names2) + 1):
            for K in itertools.combinations(names2, r):
                want.add((tuple(names1[:i]), K))
    return want


def decide_makeup(ps, extra):
    sig = expected_sig(ps)
    with warnings.catch_warnings():
        warnings.simplefilter('ignore')
        got = support.make_up_callsigs(sig, extra=extra)
    have = set()
    for a, k in got:
        if any(k[x] != x for x in k):
            return got, 'make_up_callsigs(%s, extra=%d) has a keyword whose value is not its name: %r' % (show(ps), extra, k)
        have.add((tuple(a), tuple(k)))
    want = brute_callsigs(ps, extra)
    missing = want - have
    if missing:
        m = sorted(missing)[0]
        return got, ('make_up_callsigs(%s, extra=%d) lacks the call with positional prefix %r and keywords %r'
                     % (show(ps), extra, m[0], m[1]))
    return got, None


def check_makeup(ctx, rep, sigs):
    n = 0
    model_cases = []
    for idx, ps in enumerate(sigs):
        for extra in (0, 1, 2):
            if extra == 2 and len(ps) > 4:
                continue
            got, what = decide_makeup(ps, extra)
            n += len(got)
            rep.distinct.add(('makeup', tuple(ps), extra))
            if what:
                rep.violation('C20:makeup', what, {'kind': 'makeup', 'sig': ps, 'extra': extra})
            if len(got) <= 400 and len(model_cases) < (120 if ctx.quick else 600):
                model_cases.append((ps, extra, got))
    # model: exact list equality (order included)
    shards = [model_cases[i:i + 12] for i in range(0, len(model_cases), 12)]

    def run_shard(shard):
        lines = [PREAMBLE]
        terms = []
        for i, (ps, extra, got) in enumerate(shard):
            items = ['(%s, %s)' % (c_nlist([nid(x) for x in a]), c_kvs([(nid(k), nid(v)) for k, v in kw.items()]))
                     for a, kw in got]
            lines.append('Definition m%d : list (list name * list (name * N)) := [%s].' % (i, ';\n'.join(items)))
            terms.append('list_eqb (fun x y => list_N_eqb (fst x) (fst y) && list_N_eqb (map fst (snd x)) (map fst (snd y))'
                         ' && list_N_eqb (map snd (snd x)) (map snd (snd y))) (make_up_callsigs %s %d%%nat) m%d'
                         % (c_sig(ps), extra, i))
        return coqrun.coq_eval('\n'.join(lines), terms, name='c20makeup')
    with ThreadPoolExecutor(14) as ex:
        results = list(ex.map(run_shard, shards))
    for shard, res in zip(shards, results):
        for (ps, extra, got), ans in zip(shard, res):
            if not coqrun.parse_bool(ans):
                rep.corr_break('make_up_callsigs model vs implementation', {'sig': show(ps), 'extra': extra},
                               'differs', 'list of %d calls' % len(got))
    rep.coverage['makeup_calls_enumerated'] = n
    rep.coverage['makeup_lists_compared_with_model'] = len(model_cases)
    return n


# ---------------------------------------------------------------- (a) (b) round trips
def split_text(sig):
    st = str(sig)
    if ' -> ' in st:
        body, _, ret = st.rpartition(' -> ')
        return body[1:-1], ret
    return st[1:-1], _util.UNSET


def full_calls(ps):
    """a few calls for a function with these parameters"""
    pos = [p for p in ps if p[1] in ('PO', 'PK')]
    named = [p for p in ps if p[1] in ('PK', 'KO')]
    has_vp = any(p[1] == 'VP' for p in ps)
    has_vk = any(p[1] == 'VK' for p in ps)
    calls = []
    calls.append(([101 + i for i in range(len(pos))], [(nname(p[0]), 301 + i) for i, p in enumerate(ps) if p[1] == 'KO']))
    calls.append(([101 + i for i, p in enumerate(ps) if p[1] == 'PO'], [(nname(p[0]), 201 + i) for i, p in enumerate(named)]))
    calls.append(([101 + i for i in range(len(pos) + (2 if has_vp else 0))],
                  [(nname(p[0]), 301 + i) for i, p in enumerate(ps) if p[1] == 'KO'] + ([(FOREIGN, 401)] if has_vk else [])))
    calls.append(([101 + i for i, p in enumerate(ps) if p[1] == 'PO' or (p[1] == 'PK' and p[2] is None)],
                  [(nname(p[0]), 301 + i) for i, p in enumerate(ps) if p[1] == 'KO' and p[2] is None]))
    calls.append(([], []))
    calls.append(([101 + i for i in range(len(pos) + 1)], []))
    calls.append(([], [(FOREIGN, 401)]))
    return calls


def decide_roundtrip(ps, ret, opts, postponed, ff=None):
    """Returns a list of (key, what).  ff: the future_features given to f (default: ('annotations',)
    when postponed, none otherwise); postponed must say whether 'annotations' is among them."""
    if ff is None:
        ff = ('annotations',) if postponed else ()
    assert postponed == ('annotations' in ff)
    out = []
    exp = expected_sig(ps, ret)
    body, rtext = split_text(exp)
    o = dict(zip(OPT_NAMES, opts))
    tag = 's(%r%s%s%s)' % (body, '' if rtext is _util.UNSET else ', %r' % rtext,
                           ''.join(', %s=True' % k for k, v in o.items() if v),
                           ', future_features=%r' % (ff,) if ff else '')
    try:
        with warnings.catch_warnings():
            warnings.simplefilter('ignore')
            fn = support.f(body, rtext, future_features=ff, **o)
            got = specifiers.signature(fn)
            got_s = support.s(body, rtext, future_features=ff, **o) if len(ff) > 1 else got
            got_e = got.evaluated() if postponed else got
    except Exception as e:  # noqa: BLE001
        return [('C20:roundtrip', '%s raised %s: %s (expected the signature %s)' % (tag, type(e).__name__, e, exp))]
    gd, ed = describe(got_e), describe(exp)
    upto = opts[2]
    same = (got_e == exp) if not upto else (
        ko_canon(gd[0]) == ko_canon(ed[0]) and gd[1] == ed[1]
        and all(got_e.parameters[n] == exp.parameters[n] for n in exp.parameters)
        and got_e.upgraded_return_annotation == exp.upgraded_return_annotation)
    if not same or (ko_canon(gd[0]) != ko_canon(ed[0])) or gd[1] != ed[1]:
        out.append(('C20:roundtrip', '%s gave %s, expected %s%s' % (tag, got_e, exp,
                                                                    ' up to the order of keyword-only parameters' if upto else '')))
    elif postponed and not opts[0]:
        # postponed and native annotations: the raw annotation is the source text
        for p in got.parameters.values():
            want = exp.parameters[p.name].annotation
            if want is not P.empty and not (p.annotation == str(want)
                                            and isinstance(p.upgraded_annotation, S._PostponedAnnotation)):
                out.append(('C20:roundtrip', '%s: annotation of %s is %r (%r), expected the postponed text %r'
                            % (tag, p.name, p.annotation, p.upgraded_annotation, str(want))))
                break
        if ret is not None and not (got.return_annotation == str(ret)
                                    and isinstance(got.upgraded_return_annotation, S._PostponedAnnotation)):
            out.append(('C20:roundtrip', '%s: return annotation is %r, expected the postponed text %r'
                        % (tag, got.return_annotation, str(ret))))
        # ... and the function made by f carries the texts
        want_ann = {nname(p[0]): str(p[3]) for p in ps if p[3] is not None}
        if ret is not None:
            want_ann['return'] = str(ret)
        if not out and not any(opts) and dict(fn.__annotations__) != want_ann:
            out.append(('C20:roundtrip', 'f%s.__annotations__ is %r, expected the postponed texts %r'
                        % (tag[1:], fn.__annotations__, want_ann)))
    if not out and not postponed and not any(opts):
        # eager and native: the annotations are the evaluated objects, whatever other future features are named
        want_ann = {nname(p[0]): p[3] for p in ps if p[3] is not None}
        if ret is not None:
            want_ann['return'] = ret
        have = dict(fn.__annotations__)
        if have != want_ann or any(type(have[k]) is not type(want_ann[k]) for k in want_ann):
            out.append(('C20:roundtrip', 'f%s.__annotations__ is %r, expected the evaluated annotations %r'
                        % (tag[1:], fn.__annotations__, want_ann)))
    if got_s is not got and (got_s != got or describe(got_s) != describe(got)
                             or [type(x[3]) for x in describe(got_s)[0]] != [type(x[3]) for x in describe(got)[0]]
                             or type(got_s.return_annotation) is not type(got.return_annotation)):
        out.append(('C20:roundtrip', '%s gave %s but signature(f%s) is %s' % (tag, got_s, tag[1:], got)))
    # (b) really calling it
    ref = real_def(ps)
    for args, kwargs in full_calls(ps):
        r0 = real_call(ref, args, kwargs)
        try:
            with warnings.catch_warnings():
                warnings.simplefilter('ignore')
                r1 = ('ok', fn(*args, **dict(kwargs)))
        except TypeError as e:
            r1 = ('err', str(e))
        if r0[0] != r1[0] or (r0[0] == 'ok' and r0[1] != r1[1]):
            out.append(('C20:f-call', 'the function made by f%s called with (*%s, **%s) %s, a def with that signature %s'
                        % (tag[1:], args, dict(kwargs),
                           'returned %r' % (r1[1],) if r1[0] == 'ok' else 'raised TypeError(%s)' % r1[1],
                           'returns %r' % (r0[1],) if r0[0] == 'ok' else 'raises TypeError')))
            break
    return out


# Postponed evaluation is requested by naming 'annotations' among the future features; the
# other features named next to it (no-ops on this Python, all with their own compiler flag)
# and the ORDER in which they are named do not matter: two and three features in every order.
OTHER_FEATURES = ['generator_stop', 'division', 'unicode_literals', 'absolute_import', 'print_function',
                  'with_statement', 'nested_scopes', 'generators']


def feature_tuples(o1, o2):
    """every ordered choice of one, two and three of annotations / o1 / o2 (more than 'annotations' alone)"""
    three = ['annotations', o1, o2]
    out = [(o1,), (o2,)]
    for r in (2, 3):
        out.extend(itertools.permutations(three, r))
    return out


def check_future_features(ctx, rep, metas):
    rng = ctx.rng('future-features')
    pool = [m for m in metas if m[1] is not None or any(p[3] is not None for p in m[0])]
    both = [m for m in pool if m[1] is not None and any(p[3] is not None for p in m[0])]
    sample = rng.sample(both, min(len(both), 50 if ctx.quick else 300)) + rng.sample(pool, min(len(pool), 50 if ctx.quick else 300))
    n = 0
    count = {}
    for mi, (ps, ret) in enumerate(sample):
        combos = opt_combos(ps)
        if mi < 3:
            pairs = list(itertools.combinations(OTHER_FEATURES, 2))        # every pair of other features
        else:
            pairs = [tuple(rng.sample(OTHER_FEATURES, 2))]
        for o1, o2 in pairs:
            for ff in feature_tuples(o1, o2):
                postponed = 'annotations' in ff
                shape = '%d features, annotations %s' % (len(ff), 'absent' if not postponed else
                                                         ('first', 'second', 'third')[ff.index('annotations')])
                for opts in {combos[0], rng.choice(combos)}:
                    n += 1
                    count[shape] = count.get(shape, 0) + 1
                    rep.distinct.add(('rt-ff', tuple(ps), ret, opts, ff))
                    for key, what in decide_roundtrip(ps, ret, opts, postponed, ff):
                        rep.violation(key, what, {'kind': 'roundtrip', 'sig': ps, 'ret': ret, 'opts': list(opts),
                                                  'postponed': postponed, 'future_features': list(ff)})
    rep.coverage['roundtrip_future_feature_cases'] = n
    rep.coverage['roundtrip_future_feature_shapes'] = count
    return n


def decide_func_from_sig(ps, ret):
    exp = expected_sig(ps, ret)
    try:
        with warnings.catch_warnings():
            warnings.simplefilter('ignore')
            fn = support.func_from_sig(exp)
            got = specifiers.signature(fn)
    except Exception as e:  # noqa: BLE001
        return 'func_from_sig(%s) raised %s: %s' % (exp, type(e).__name__, e)
    if got != exp:
        return 'signature(func_from_sig(%s)) is %s' % (exp, got)
    calls = full_calls(ps)[:2]
    ref = real_def(ps)
    for args, kwargs in calls:
        r0 = real_call(ref, args, kwargs)
        try:
            r1 = ('ok', fn(*args, **dict(kwargs)))
        except TypeError as e:
            r1 = ('err', str(e))
        if r0[0] != r1[0] or (r0[0] == 'ok' and r0[1] != r1[1]):
            return 'func_from_sig(%s)(*%s, **%s) gave %r, a def with that signature gives %r' % (exp, args, dict(kwargs), r1[1], r0[1])
    return None


def opt_combos(ps):
    """native always; the modifiers spellings for signatures without
    positional-only parameters; for signatures with positional-only parameters
    also the spellings that do not use modifiers.kwoargs (they hold on the
    pinned tree; beyond the letter of the statement)."""
    if has_po(ps):
        return [o for o in itertools.product((False, True), repeat=3) if not o[2]]
    return list(itertools.product((False, True), repeat=3))


DEFERRED = []


def check_roundtrips(ctx, rep, metas):
    n = 0
    del DEFERRED[:]
    rep.violations_now = []
    optcount = {}
    for ps, ret in metas:
        for opts in opt_combos(ps):
            for postponed in (False, True):
                n += 1
                optcount[str(opts)] = optcount.get(str(opts), 0) + 1
                if any(opts) or postponed or any(p[3] is not None or p[2] is not None for p in ps):
                    rep.distinct.add(('rt', tuple(ps), ret, opts, postponed))
                for key, what in decide_roundtrip(ps, ret, opts, postponed):
                    rep.violation(key, what, {'kind': 'roundtrip', 'sig': ps, 'ret': ret, 'opts': list(opts),
                                              'postponed': postponed})
        n += 1
        what = decide_func_from_sig(ps, ret)
        if what:
            key = KNOWN_RET_KEY if ret is not None and decide_func_from_sig(ps, None) is None else 'C20:func_from_sig'
            (DEFERRED if key == KNOWN_RET_KEY else rep.violations_now).append(
                (key, what, {'kind': 'func_from_sig', 'sig': ps, 'ret': ret}))
    for key, what, data in rep.violations_now:
        rep.violation(key, what, data)
    rep.coverage['roundtrip_cases'] = n
    rep.coverage['roundtrip_option_combinations'] = optcount
    return n



# ---------------------------------------------------------------- (e) token-level model
def tokenize(text):
    """What the loop of read_sig sees: one (arg, annotation, default) per piece of
    split(','), classified.  Uses the module's own regular expressions (they are
    outside the model and exercised here)."""
    toks = []
    for piece in text.split(','):
        if not piece:
            toks.append('(mkTok AEmpty None None)')
            continue
        arg, ann, de = support.re_paramname.match(piece).groups()
        m = support.re_posoarg.match(arg)
        if m:
            a = 'AChev %d' % nid(m.group(1))
        elif arg == '/':
            a = 'ASlash'
        elif arg == '*':
            a = 'AStar'
        elif arg.startswith('**'):
            a = 'AVarKw %d' % nid(arg[2:])
        elif arg.startswith('*'):
            a = 'AVarPos %d' % nid(arg[1:])
        else:
            a = 'AName %d' % nid(arg)
        toks.append('(mkTok (%s) %s %s)' % (a, c_opt(int(ann) if ann else None), c_opt(int(de) if de else None)))
    return '[' + '; '.join(toks) + ']'


def parse_item(piece):
    piece = piece.strip()
    if piece == '/':
        return 'PSlash'
    if piece == '*':
        return 'PStar'
    stars = len(piece) - len(piece.lstrip('*'))
    piece = piece[stars:]
    left, eq, de = piece.partition('=')
    nm, colon, an = left.partition(':')
    return '(PItem %d%%nat %d %s %s)' % (stars, nid(nm.strip()), c_opt(int(an) if colon else None),
                                        c_opt(int(de) if eq else None))


def parse_items(params):
    return '[' + '; '.join(parse_item(x) for x in params.split(', ') if x) + ']'


def c_names(l):
    return '[' + '; '.join(str(nid(x)) for x in l) + ']'


def enc_read_sig(r):
    names, ret, anns, poso, kwo, params, oa = r
    return '(mkRSig %s %s %s %s %s)' % (c_names(names), c_kvs([(nid(k), int(v)) for k, v in anns.items()]),
                                       c_names(poso), c_names(kwo), parse_items(params))


RE_DEF = re.compile(r'^def func\((.*)\)(?: -> (.*))?:$')


def enc_func_code(code):
    ann = 'None'
    poso = kwo = '[]'
    params = ret = body = None
    for line in code.split('\n'):
        if line.startswith('@modifiers.annotate('):
            r, kv = None, []
            for it in line[len('@modifiers.annotate('):-1].split(', '):
                k, eq, v = it.partition('=')
                if eq:
                    kv.append((nid(k), int(v)))
                else:
                    r = int(k)
            ann = '(Some (%s, %s))' % (c_opt(r), c_kvs(kv))
        elif line.startswith('@modifiers.posoargs('):
            poso = c_names([x.strip("'") for x in line[len('@modifiers.posoargs('):-1].split(', ')])
        elif line.startswith('@modifiers.kwoargs('):
            kwo = c_names([x.strip("'") for x in line[len('@modifiers.kwoargs('):-1].split(', ')])
        elif line.startswith('def '):
            m = RE_DEF.match(line)
            params = parse_items(m.group(1))
            ret = c_opt(int(m.group(2)) if m.group(2) else None)
        elif line.startswith('    return {'):
            inner = line[len('    return {'):-1]
            body = c_names([x.partition(':')[0].strip("'") for x in inner.split(', ') if x])
    return '(mkFC %s %s %s %s %s %s)' % (ann, poso, kwo, params, ret, body)


def chevron_text(ps):
    """the <a> spelling of positional-only parameters"""
    out = []
    prev = None
    for nm, k, de, an in ps:
        if k == 'KO' and prev not in ('VP', 'KO'):
            out.append('*')
        s = {'VP': '*', 'VK': '**'}.get(k, '') + nname(nm)
        if k == 'PO':
            s = '<%s>' % s
        if an is not None:
            s += ': %d' % an
            if de is not None:
                s += ' = %d' % de
        elif de is not None:
            s += '=%d' % de
        out.append(s)
        prev = k
    return ', '.join(out)


def check_tokens(ctx, rep, metas):
    cases = []
    for ps, ret in metas:
        exp = expected_sig(ps, ret)
        body, rtext = split_text(exp)
        texts = [body]
        if has_po(ps):
            texts.append(chevron_text(ps))
        for text in texts:
            for opts in itertools.product((False, True), repeat=3):
                o = dict(zip(OPT_NAMES, opts))
                try:
                    r = support.read_sig(text, rtext, **o)
                    code = support.func_code(*r)
                    cases.append((text, ret, opts, tokenize(text), enc_read_sig(r), enc_func_code(code)))
                except Exception as e:  # noqa: BLE001
                    rep.corr_break('read_sig/func_code raised', {'text': text, 'opts': opts}, 'a result', repr(e))
    shards = [cases[i:i + 400] for i in range(0, len(cases), 400)]

    def run_shard(shard):
        items = []
        for text, ret, opts, toks, rs, fc in shard:
            items.append('(%s, %s, (%s, %s, %s), %s, %s)' % (
                toks, c_opt(ret), coqrun.coq_bool(opts[0]), coqrun.coq_bool(opts[1]), coqrun.coq_bool(opts[2]), rs, fc))
        pre = PREAMBLE + ('Definition cs : list (list tok * option N * (bool * bool * bool) * rsig * fcode) := [%s].\n'
                          % ';\n'.join(items))
        terms = ['bad_indices (fun c => match c with (ts, ret, (oa, op, ok), rs, fc) => '
                 'rsig_eqb (read_sig ts oa op ok) rs end) cs',
                 'bad_indices (fun c => match c with (ts, ret, (oa, op, ok), rs, fc) => '
                 'fcode_eqb (func_code (read_sig ts oa op ok) ret oa) fc end) cs']
        return coqrun.coq_eval(pre, terms, name='c20tokens')
    with ThreadPoolExecutor(14) as ex:
        results = list(ex.map(run_shard, shards))
    for shard, res in zip(shards, results):
        for rel, ans in zip(('read_sig', 'func_code'), res):
            for ci in coqrun.parse_nat_list(ans):
                text, ret, opts = shard[ci][:3]
                rep.corr_break('%s token model vs implementation' % rel,
                               {'text': text, 'ret': ret, 'opts': opts}, 'differs', shard[ci][4 if rel == 'read_sig' else 5])
    rep.coverage['token_model_cases'] = len(cases)
    return len(cases)


def decide_chevron(ps, ret, op):
    """the <a> spelling builds the same signature (with or without modifiers.posoargs)"""
    exp = expected_sig(ps, ret)
    text = chevron_text(ps)
    try:
        with warnings.catch_warnings():
            warnings.simplefilter('ignore')
            got = support.s(text, *( [str(ret)] if ret is not None else []), use_modifiers_posoargs=op)
    except Exception as e:  # noqa: BLE001
        return 's(%r, use_modifiers_posoargs=%s) raised %s: %s (expected %s)' % (text, op, type(e).__name__, e, exp)
    if got != exp:
        return 's(%r, use_modifiers_posoargs=%s) gave %s, expected %s' % (text, op, got, exp)
    return None


# ---------------------------------------------------------------- (f) rich default / annotation texts
# Defaults and annotations that are not integer literals: texts ending in ')'
# (the outer parentheses of str(sig) must be removed exactly once), unhashable
# values (lists, dicts, sets: the signature itself is then unhashable), classes.
# Only the real code is exercised here (the token model interns texts as numbers).
# A rich signature: [[name, kind, default_text|None, annotation_text|None], ...]
RICH_DEFAULTS = ['()', '[]', 'frozenset()', '{}', 'set()', '[1]', "'x'", 'dict()', '(1)']
RICH_ANNS = ['[1]', 'int', '()', '{}', 'tuple()', "'t'"]
RICH_RETS = [None, 'int', '()', '[1]', 'frozenset()']


def rich_build(ps, j):
    """ps: a parameter list of the universe (name id, kind, has-default);
    j selects the texts."""
    n = len(ps)
    mode = j % 3
    rs = []
    for i, p in enumerate(ps):
        de = RICH_DEFAULTS[(j + i) % len(RICH_DEFAULTS)] if p[2] is not None else None
        an = None
        if mode == 1 or (mode == 2 and i == n - 1):
            an = RICH_ANNS[(j + 2 * i) % len(RICH_ANNS)]
        rs.append([nname(p[0]), p[1], de, an])
    return rs, RICH_RETS[j % len(RICH_RETS)]


def rich_text(rs, annotations=True):
    out = []
    prev = None
    for name, k, de, an in rs:
        if prev == 'PO' and k != 'PO':
            out.append('/')
        if k == 'KO' and prev not in ('VP', 'KO'):
            out.append('*')
        t = {'VP': '*', 'VK': '**'}.get(k, '') + name
        if an is not None and annotations:
            t += ': %s' % an
            if de is not None:
                t += ' = %s' % de
        elif de is not None:
            t += '=%s' % de
        out.append(t)
        prev = k
    if prev == 'PO':
        out.append('/')
    return ', '.join(out)


def rich_show(rs, ret=None):
    return '(%s)%s' % (rich_text(rs), '' if ret is None else ' -> %s' % ret)


def rich_real_def(rs):
    body = ', '.join('%r: %s' % (r[0], r[0]) for r in rs)
    ns = {}
    exec('def func(%s):\n    return {%s}\n' % (rich_text(rs, annotations=False), body), ns)
    return ns['func']


def rich_expected(rs, ret=None):
    params = []
    for name, k, de, an in rs:
        av = P.empty if an is None else eval(an)
        params.append(S.UpgradedParameter(
            name, KINDS[k], default=P.empty if de is None else eval(de), annotation=av,
            upgraded_annotation=S.EmptyAnnotation if an is None else S._PreEvaluatedAnnotation(av)))
    rv = P.empty if ret is None else eval(ret)
    return S.UpgradedSignature(
        params, return_annotation=rv,
        upgraded_return_annotation=S.EmptyAnnotation if ret is None else S._PreEvaluatedAnnotation(rv))


def rich_describe(sig):
    return ([(p.name, str(p.kind), repr(p.default), repr(p.annotation)) for p in sig.parameters.values()],
            repr(sig.return_annotation))


def rich_ps(rs):
    return [(nid(r[0]), r[1], None if r[2] is None else 1, None) for r in rs]


def rich_calls(rs, rng, many):
    ps = rich_ps(rs)
    if many:
        return gen_calls(ps, rng, 12)
    return full_calls(ps)


def decide_rich(rs, ret, calls):
    """All decisions for one rich signature; returns a list of (key, what)."""
    out = []
    exp = rich_expected(rs, ret)
    here = rich_show(rs, ret)
    ref = rich_real_def(rs)
    # (a) the string form read back
    body, rtext = split_text(exp)
    try:
        with warnings.catch_warnings():
            warnings.simplefilter('ignore')
            got = support.s(body, rtext)
        if got != exp or rich_describe(got) != rich_describe(exp):
            out.append(('C20:roundtrip', 's(%r%s) gave %s, expected %s' % (
                body, '' if rtext is _util.UNSET else ', %r' % rtext, got, exp)))
    except Exception as e:  # noqa: BLE001
        out.append(('C20:roundtrip', 's(%r%s) raised %s: %s (expected %s)' % (
            body, '' if rtext is _util.UNSET else ', %r' % rtext, type(e).__name__, e, exp)))
    # (a) (b) func_from_sig: same signature, same string, and the function returns its arguments by name
    fn = None
    try:
        with warnings.catch_warnings():
            warnings.simplefilter('ignore')
            fn = support.func_from_sig(exp)
            got = specifiers.signature(fn)
        if got != exp or rich_describe(got) != rich_describe(exp) or str(got) != str(exp):
            out.append(('C20:func_from_sig', 'signature(func_from_sig(%s)) is %s' % (exp, got)))
    except Exception as e:  # noqa: BLE001
        out.append(('C20:func_from_sig', 'func_from_sig(%s) raised %s: %s' % (exp, type(e).__name__, e)))
    # (c) (d) the binder on this signature
    ps = rich_ps(rs)
    callsigs = [(tuple(a), dict(k)) for a, k in calls]
    try:
        with warnings.catch_warnings():
            warnings.simplefilter('ignore')
            valid, invalid = support.sort_callsigs(exp, callsigs)
    except Exception as e:  # noqa: BLE001
        valid, invalid = None, None
        out.append(('C20:sort', 'sort_callsigs(%s, ...) raised %s: %s' % (here, type(e).__name__, e)))
    nvalid = 0
    bad_bind = bad_f = False
    for args, kwargs in calls:
        real = real_call(ref, args, kwargs)
        call = '(*%s, **%s)' % (list(args), dict(kwargs))
        if fn is not None and not bad_f:
            try:
                r1 = ('ok', fn(*args, **dict(kwargs)))
            except TypeError as e:
                r1 = ('err', str(e))
            if r1[0] != real[0] or (real[0] == 'ok' and r1[1] != real[1]):
                bad_f = True
                out.append(('C20:func_from_sig', 'func_from_sig(%s)%s %s, a def with that signature %s' % (
                    exp, call, 'returned %r' % (r1[1],) if r1[0] == 'ok' else 'raised TypeError',
                    'returns %r' % (real[1],) if real[0] == 'ok' else 'raises TypeError')))
        if collision(ps, kwargs):
            continue
        nvalid += real[0] == 'ok'
        try:
            impl = ('ok', support.bind_callsig(exp, tuple(args), dict(kwargs)))
        except TypeError as e:
            impl = ('err', str(e))
        except Exception as e:  # noqa: BLE001
            impl = ('exc', '%s: %s' % (type(e).__name__, e))
        if not bad_bind and (impl[0] != real[0] or (impl[0] == 'ok' and impl[1] != real[1])):
            bad_bind = True
            out.append(('C20:bind', 'bind_callsig(%s, %s) %s but really calling def func%s%s %s' % (
                here, call,
                'returned %r' % (impl[1],) if impl[0] == 'ok' else 'raised %s(%s)' % ('TypeError' if impl[0] == 'err' else '', impl[1]),
                rich_show(rs), call,
                'returned %r' % (real[1],) if real[0] == 'ok' else 'raised TypeError(%s)' % real[1])))
    if valid is not None:
        ncoll = sum(1 for a, k in calls if collision(ps, k))
        got_valid = sum(1 for v in valid if not collision(ps, list(v[1].items())))
        if len(valid) + len(invalid) != len(calls) or got_valid != nvalid:
            out.append(('C20:sort', 'sort_callsigs(%s, <%d calls>) returned %d valid and %d invalid; really calling the def '
                        'accepts %d of the %d calls outside the excluded case' % (
                            here, len(calls), len(valid), len(invalid), nvalid, len(calls) - ncoll)))
        else:
            for a, k, bound in valid:
                if collision(ps, list(k.items())):
                    continue
                real = real_call(ref, a, list(k.items()))
                if real[0] != 'ok' or real[1] != bound:
                    out.append(('C20:sort', 'sort_callsigs(%s, ...) bound (*%s, **%s) to %r; the real call %s' % (
                        here, list(a), k, bound,
                        'returns %r' % (real[1],) if real[0] == 'ok' else 'raises TypeError')))
                    break
    return out


def check_rich(ctx, rep, U2, U3):
    rng = ctx.rng('rich')
    shapes = list(U2)
    shapes += rng.sample(U3, 40 if ctx.quick else 400)
    n = 0
    nsig = 0
    unhashable = 0
    for si, ps in enumerate(shapes):
        for j in range(len(RICH_DEFAULTS)):
            rs, ret = rich_build(ps, j)
            if not any(r[2] is not None or r[3] is not None for r in rs) and ret is None:
                continue
            if ctx.quick and (si + j) % 2 and si >= 60:
                continue
            nsig += 1
            many = (si + j) % 4 == 0
            calls = rich_calls(rs, rng, many)
            try:
                hash(rich_expected(rs, ret))
            except TypeError:
                unhashable += 1
            n += 2 + 2 * len(calls)
            rep.distinct.add(('rich', rich_show(rs, ret)))
            for key, what in decide_rich(rs, ret, calls):
                rep.violation(key, what, {'kind': 'rich', 'sig': rs, 'ret': ret,
                                          'calls': [[list(a), [list(kv) for kv in k]] for a, k in calls]})
    rep.coverage['rich_text_signatures'] = nsig
    rep.coverage['rich_text_signatures_unhashable'] = unhashable
    return n


# ---------------------------------------------------------------- (h) names of the caller's namespace
# Annotation, default and return annotation texts that are NAMES, bound by the caller in the
# globals= namespace given to s / f: every name must mean what it means for the caller --
# also a name the helpers use themselves (`modifiers`, which make_func provides for the
# decorators func_code emits; `func`, the name of the generated function; `support`,
# `signature`), and a name shadowing a builtin.  Eager and postponed.
# With `modifiers` bound by the caller only the native spelling is in the domain (the
# modifiers spellings need the name themselves); with a namespace that does not bind it
# every spelling is.
class Mark(object):
    def __init__(self, name):
        self.name = name

    def __repr__(self):
        return '<the caller\'s %s>' % self.name


NS_NAMES = ['modifiers', 'T0', 'func', 'int', 'Marker', 'support', 'signature', '_util']


def make_ns(bind_modifiers):
    return {n: Mark(n) for n in NS_NAMES if bind_modifiers or n != 'modifiers'}


def ns_build(ps, j, bind_modifiers):
    """ps: a parameter list of the universe; j rotates the names over the places"""
    pool = [n for n in NS_NAMES if bind_modifiers or n != 'modifiers']
    n = len(ps)
    mode = j % 3
    rs = []
    for i, p in enumerate(ps):
        de = pool[(j + i) % len(pool)] if p[2] is not None else None
        an = None
        if mode == 0 or (mode == 1 and i % 2 == 0) or (mode == 2 and i == n - 1):
            an = pool[(j // 3 + 2 * i) % len(pool)]
        rs.append([nname(p[0]), p[1], de, an])
    ret = None if j % 4 == 3 else pool[(j // 2) % len(pool)]
    return rs, ret


def ns_real_def(rs, ns):
    """independent: a def with these parameters (defaults by name) executed in a copy of the caller's namespace"""
    body = ', '.join('%r: %s' % (r[0], r[0]) for r in rs)
    g = dict(ns)
    exec('def c20_ref(%s):\n    return {%s}\n' % (rich_text(rs, annotations=False), body), g)
    return g['c20_ref']


def decide_namespace(rs, ret, bind_modifiers, opts, postponed):
    """Returns a list of (key, what)."""
    ns = make_ns(bind_modifiers)
    before = dict(ns)
    o = dict(zip(OPT_NAMES, opts))
    body = rich_text(rs)
    ff = ('annotations',) if postponed else ()
    tag = '(%r%s, globals={%s}%s%s)' % (body, '' if ret is None else ', %r' % ret,
                                        ', '.join('%r: %r' % kv for kv in ns.items()),
                                        ''.join(', %s=True' % k for k, v in o.items() if v),
                                        ", future_features=('annotations',)" if postponed else '')
    rargs = (body,) if ret is None else (body, ret)
    try:
        with warnings.catch_warnings():
            warnings.simplefilter('ignore')
            got = support.s(*rargs, globals=ns, future_features=ff, **o)
            fn = support.f(*rargs, globals=ns, future_features=ff, **o)
            fsig = specifiers.signature(fn)
            got_e, fsig_e = (got.evaluated(), fsig.evaluated()) if postponed else (got, fsig)
    except Exception as e:  # noqa: BLE001
        return [('C20:namespace', 's%s raised %s: %s' % (tag, type(e).__name__, e))]
    out = []

    late = postponed and not opts[0]      # modifiers.annotate(...) evaluates its arguments when the decorator runs

    def want(text):
        return P.empty if text is None else ns[text]

    def is_want(v, text, late):
        """late: evaluated after the def statement ran (postponed annotations), when the name of
        the generated function is bound to that function, as for any def in that namespace"""
        if late and text == 'func':
            return callable(v) and not isinstance(v, Mark) and getattr(v, '__name__', None) == 'func'
        return v is want(text)
    for what, sig in (('s', got_e), ('signature(f', fsig_e)):
        params = list(sig.parameters.values())
        order = (lambda l: sorted(l, key=lambda x: (x[1] == 'KO', x[0] if x[1] == 'KO' else ''))) if opts[2] else (lambda l: l)
        have = order([(p.name, {v: k for k, v in KINDS.items()}[p.kind]) for p in params])
        if have != order([(r[0], r[1]) for r in rs]):
            out.append(('C20:namespace', '%s%s gave %s: other parameters than the text' % (what, tag, sig)))
            break
        bad = None
        for r in rs:
            p = sig.parameters[r[0]]
            if p.default is not want(r[2]):
                bad = 'the default of %s is %r, the caller\'s namespace gives %r' % (r[0], p.default, want(r[2]))
            elif not is_want(p.annotation, r[3], late):
                bad = 'the annotation of %s is %r, the caller\'s namespace gives %r' % (r[0], p.annotation, want(r[3]))
            elif r[3] is not None and not is_want(p.upgraded_annotation.source_value(), r[3], late):
                bad = 'the upgraded annotation of %s evaluates to %r, the caller\'s namespace gives %r' % (
                    r[0], p.upgraded_annotation.source_value(), want(r[3]))
            if bad:
                break
        if not bad and not is_want(sig.return_annotation, ret, late):
            bad = 'the return annotation is %r, the caller\'s namespace gives %r' % (sig.return_annotation, want(ret))
        if bad:
            out.append(('C20:namespace', '%s%s gave %s: %s' % (what, tag, sig, bad)))
            break
    if not out and postponed and not opts[0]:
        for r in rs:
            p = got.parameters[r[0]]
            if r[3] is not None and not (p.annotation == r[3] and isinstance(p.upgraded_annotation, S._PostponedAnnotation)):
                out.append(('C20:namespace', 's%s: annotation of %s is %r (%r), expected the postponed text %r' % (
                    tag, r[0], p.annotation, p.upgraded_annotation, r[3])))
                break
        if ret is not None and got.return_annotation != ret:
            out.append(('C20:namespace', 's%s: return annotation is %r, expected the postponed text %r' % (
                tag, got.return_annotation, ret)))
    # (b) really calling it: defaults are the caller's objects
    ref = ns_real_def(rs, ns)
    for args, kwargs in full_calls(rich_ps(rs)):
        r0 = real_call(ref, args, kwargs)
        try:
            with warnings.catch_warnings():
                warnings.simplefilter('ignore')
                r1 = ('ok', fn(*args, **dict(kwargs)))
        except TypeError as e:
            r1 = ('err', str(e))
        if r0[0] != r1[0] or (r0[0] == 'ok' and (r0[1] != r1[1] or list(r0[1]) and any(r0[1][k] is not r1[1][k] for k in r0[1]
                                                                                    if isinstance(r0[1][k], Mark)))):
            out.append(('C20:namespace', 'the function made by f%s called with (*%s, **%s) %s, a def with these parameters '
                        'executed in the caller\'s namespace %s' % (
                            tag, args, dict(kwargs),
                            'returned %r' % (r1[1],) if r1[0] == 'ok' else 'raised TypeError(%s)' % r1[1],
                            'returns %r' % (r0[1],) if r0[0] == 'ok' else 'raises TypeError')))
            break
    if ns != before or any(ns[k] is not before[k] for k in before):
        out.append(('C20:namespace', 's/f%s changed the caller\'s namespace: %r' % (tag, sorted(set(ns) ^ set(before)))))
    return out


def check_namespaces(ctx, rep, U2, U3):
    rng = ctx.rng('namespaces')
    shapes = list(U2) + rng.sample(U3, 30 if ctx.quick else 300)
    n = 0
    roles = {}
    for si, ps in enumerate(shapes):
        for j in range(len(NS_NAMES) if si < 60 or not ctx.quick else 3):
            jj = j + si
            for bind_modifiers in (True, False):
                rs, ret = ns_build(ps, jj, bind_modifiers)
                if not any(r[2] is not None or r[3] is not None for r in rs) and ret is None:
                    continue
                for role, used in (('default', [r[2] for r in rs]), ('annotation', [r[3] for r in rs]), ('return', [ret])):
                    for nm in used:
                        if nm is not None:
                            roles[role + ':' + nm] = roles.get(role + ':' + nm, 0) + 1
                pslike = rich_ps(rs)
                combos = [(False, False, False)] if bind_modifiers else opt_combos(pslike)
                if not bind_modifiers and ctx.quick:
                    combos = [combos[0], combos[(si + j) % len(combos)]]
                for opts in combos:
                    for postponed in (False, True):
                        n += 2 + len(rs)
                        rep.distinct.add(('ns', rich_show(rs, ret), bind_modifiers, opts, postponed))
                        for key, what in decide_namespace(rs, ret, bind_modifiers, opts, postponed):
                            rep.violation(key, what, {'kind': 'namespace', 'sig': rs, 'ret': ret, 'bind_modifiers': bind_modifiers,
                                                      'opts': list(opts), 'postponed': postponed})
    rep.coverage['namespace_names_by_role'] = roles
    return n


# ---------------------------------------------------------------- (g) sequences in one process
# The same parameter text built again and again in one process, with return
# annotations that are equal but not identical (1 == True == 1.0, 0 == False ==
# 0.0 == -0.0, and their texts) and with changing option flags: every result
# must carry the return annotation it was given (type and repr), whatever was
# built before.
SEQ_RETS = [1, True, 1.0, 0, False, 0.0, -0.0, '1', 'True', '0.0', None]


def ret_expected(r):
    """the object the generated code's return annotation evaluates to"""
    if r is None:
        return P.empty
    return eval(r) if isinstance(r, str) else r


def same_object_value(a, b):
    return type(a) is type(b) and repr(a) == repr(b)


def decide_sequence(ps, steps):
    """steps: [(opts, ret), ...] applied in order to the same text.  Returns the
    first failure (a string) or None."""
    exp0 = expected_sig(ps)
    body, _ = split_text(exp0)
    history = []
    for opts, r in steps:
        o = dict(zip(OPT_NAMES, opts))
        want = ret_expected(r)
        args = (body,) if r is None else (body, r)
        tag = 's(%r%s%s)' % (body, '' if r is None else ', %r' % (r,),
                             ''.join(', %s=True' % k for k, v in o.items() if v))
        after = ' after %s' % ', '.join(history[-3:]) if history else ''
        history.append(tag)
        try:
            with warnings.catch_warnings():
                warnings.simplefilter('ignore')
                sig = support.s(*args, **o)
                fn = support.f(*args, **o)
                fsig = specifiers.signature(fn)
        except Exception as e:  # noqa: BLE001
            return '%s%s raised %s: %s' % (tag, after, type(e).__name__, e)
        for what, got in (('s', sig), ('signature(f', fsig)):
            if not same_object_value(got.return_annotation, want):
                return '%s%s%s has return annotation %r, the one given is %r' % (
                    what, tag[1:], after, got.return_annotation, want)
            gd, ed = describe(got)[0], describe(exp0)[0]
            if (ko_canon(gd) if opts[2] else gd) != (ko_canon(ed) if opts[2] else ed):
                return '%s%s%s has parameters %s, expected %s' % (what, tag[1:], after, got, exp0)
        # the round trip of this result
        try:
            with warnings.catch_warnings():
                warnings.simplefilter('ignore')
                back = specifiers.signature(support.func_from_sig(sig))
                b2, r2 = split_text(sig)
                again = support.s(b2, r2)
        except Exception as e:  # noqa: BLE001
            return 'round trip of %s%s raised %s: %s' % (tag, after, type(e).__name__, e)
        for what, got in (('signature(func_from_sig(%s))' % tag, back), ('s(str(%s))' % tag, again)):
            if got != sig or not same_object_value(got.return_annotation, sig.return_annotation):
                return '%s%s is %s, expected %s' % (what, after, got, sig)
    return None


def check_sequences(ctx, rep, metas):
    rng = ctx.rng('sequences')
    pool = [m for m in metas if m[1] is None]
    sample = rng.sample(pool, min(len(pool), 24 if ctx.quick else 200))
    sample.insert(0, ([], None))
    n = 0
    for ps, _ in sample:
        combos = opt_combos(ps)
        # one spelling at a time, every return annotation in a random order ...
        for opts in combos:
            rets = list(SEQ_RETS)
            rng.shuffle(rets)
            steps = [(opts, r) for r in rets]
            n += len(steps)
            rep.distinct.add(('seq', tuple(ps), opts))
            what = decide_sequence(ps, steps)
            if what:
                rep.violation('C20:sequence', what, {'kind': 'sequence', 'sig': ps,
                                                     'steps': [[list(o), r] for o, r in steps]})
        # ... and the spellings interleaved
        steps = [(rng.choice(combos), rng.choice(SEQ_RETS)) for _ in range(16)]
        n += len(steps)
        what = decide_sequence(ps, steps)
        if what:
            rep.violation('C20:sequence', what, {'kind': 'sequence', 'sig': ps,
                                                 'steps': [[list(o), r] for o, r in steps]})
    rep.coverage['sequence_steps'] = n
    return n

# ---------------------------------------------------------------- universes
def gen_sigs(ctx):
    rng = ctx.rng('sigs')
    U2 = universe(2, ['a', 'b'])
    U3 = universe(3, ['a', 'b', 'c'])
    if ctx.quick:
        base = U2 + rng.sample(U3, 70) + [random_sig(rng, 'abcde', 5) for _ in range(40)]
    else:
        base = U2 + U3 + [random_sig(rng, 'abcde', 5) for _ in range(400)]
    return base, U2, U3


def gen_metas(ctx, base):
    """signatures with annotations / defaults / return annotation"""
    rng = ctx.rng('metas')
    metas = []
    for i, ps in enumerate(base):
        n = len(ps)
        masks = {0, (1 << n) - 1}
        if n:
            masks.add(rng.randrange(1 << n))
        for m in sorted(masks):
            for ret in (None, 7):
                if ctx.quick and i >= 220 and rng.random() < 0.5:
                    continue
                metas.append((with_meta(ps, m), ret))
    return metas


def run(ctx, rep):
    base, U2, U3 = gen_sigs(ctx)
    sigs = [with_meta(ps, 0) for ps in base]
    rep.rule = ('signatures: exhaustive U(2,{a,b}) (every order, PO/PK/KO split, default suffix, stars) + %s + random 5-name '
                'signatures, with distinct defaults, annotation masks none/all/random and a return annotation; '
                'x 8 read_sig option combinations (6 without modifiers.kwoargs when the signature has positional-only parameters) '
                'x eager/postponed; calls: npos 0..#positional+2 x every keyword subset of the names plus a foreign one '
                '(sampled above 5 names) with distinct values; non-trivial = a call with arguments or an error, a round trip '
                'with an option / annotation / default, every make_up enumeration; every call also with the positional arguments held in a list '
                'and in one of range / UserList / array / tuple subclass; texts naming objects of the caller\'s globals= namespace '
                '(modifiers, func, int, support, signature, _util, T0, Marker) in every place, eager and postponed; '
                'calls with falsy / equal-but-distinct / container argument values (slots, surplus positionals up to 3 beyond the '
                'positional slots, keyword values), also run through the model with interned values; '
                'future_features of one, two and three names in every order (annotations absent / first / second / third)'
                % ('a sample of U(3,{a,b,c})' if ctx.quick else 'exhaustive U(3,{a,b,c})'))
    n1 = check_binder(ctx, rep, sigs)
    n1 += check_values(ctx, rep, sigs)
    n2 = check_makeup(ctx, rep, sigs if not ctx.quick else sigs[:260])
    metas = gen_metas(ctx, base)
    if ctx.quick:
        metas = metas[:900]
    n3 = check_roundtrips(ctx, rep, metas)
    n3 += check_future_features(ctx, rep, metas)
    n4 = check_tokens(ctx, rep, metas)
    for ps, ret in metas:
        if has_po(ps):
            for op in (False, True):
                n4 += 1
                what = decide_chevron(ps, ret, op)
                if what:
                    rep.violation('C20:chevron', what, {'kind': 'chevron', 'sig': ps, 'ret': ret, 'op': op})
    n5 = check_rich(ctx, rep, U2, U3)
    n6 = check_sequences(ctx, rep, metas)
    n7 = check_namespaces(ctx, rep, U2, U3)
    rep.evaluations = n1 + n2 + n3 + n4 + n5 + n6 + n7
    # the recorded defect of func_from_sig (return annotations) is reported last
    for key, what, data in DEFERRED:
        rep.violation(key, what, data)
    for ps in sigs[5:8] + sigs[230:233]:
        rep.sample({'sig': show(ps)})
    rep.exhaustive = False
    rep.assumptions = [
        'a keyword naming a positional-only parameter alongside **kwargs is excluded from the binder decision (counted in coverage), not from the correspondence',
        'in the model annotation and default texts are integer literals; the real code is also run on texts ending in a parenthesis, unhashable values and classes (no comma, colon or = inside a text); names are identifiers',
        'modifiers.kwoargs spellings are only required for signatures without positional-only parameters',
        'the future features named next to annotations are the ones that are no-ops on this Python (barry_as_FLUFL, which changes the grammar, is not used); the token-level model does not model compiler flags, that family is decided on the real code only',
        'the positional arguments of a call shape are held in a sequence that can be sliced (bind_callsig slices it); iterators and deques are not explored',
        'when the caller\'s namespace binds the name modifiers only the native spelling is required (the modifiers spellings need that name themselves); a postponed native annotation naming func means the generated function, as for any def',
    ]


# ---------------------------------------------------------------- replay
def _ps(l):
    return [tuple(p) for p in l]


def replay(ctx, data):
    r = data['replay']
    kind = r.get('kind')
    if kind == 'bind':
        impl, real, what = decide_bind(_ps(r['sig']), r['args'], [tuple(kv) for kv in r['kwargs']])
        return what
    if kind == 'bind-container':
        return decide_bind_container(_ps(r['sig']), r['args'], [tuple(kv) for kv in r['kwargs']], r['container'])
    if kind == 'bind-values':
        return decide_bind_values(_ps(r['sig']), r['args'], [tuple(kv) for kv in r['kwargs']])[2]
    if kind == 'bind-values-container':
        return decide_bind_container(_ps(r['sig']), [vdecode(c) for c in r['args']],
                                     [(k, vdecode(c)) for k, c in r['kwargs']], r['container'])
    if kind == 'sort-values':
        return decide_sort_container(_ps(r['sig']), [([vdecode(c) for c in a], [(k, vdecode(c)) for k, c in kw])
                                                     for a, kw in r['calls']], r['container'])
    if kind == 'sort-container':
        return decide_sort_container(_ps(r['sig']), [(a, [tuple(kv) for kv in k]) for a, k in r['calls']], r['container'])
    if kind == 'sort':
        ps = _ps(r['sig'])
        sig = expected_sig(ps)
        fn = real_def(ps)
        calls = [(a, [tuple(kv) for kv in k]) for a, k in r['calls']]
        valid, invalid = support.sort_callsigs(sig, [(tuple(a), dict(k)) for a, k in calls])
        if len(valid) + len(invalid) != len(calls):
            return 'sort_callsigs(%s, ...) returned %d+%d entries for %d calls' % (show(ps), len(valid), len(invalid), len(calls))
        vset = [(v[0], v[1]) for v in valid]
        for a, k in calls:
            if collision(ps, k):
                continue
            real = real_call(fn, a, k)
            isv = (tuple(a), dict(k)) in vset
            if isv != (real[0] == 'ok'):
                return 'sort_callsigs(%s, ...) put (*%s, **%s) in %s but the real call %s' % (
                    show(ps), a, dict(k), 'valid' if isv else 'invalid', 'succeeds' if real[0] == 'ok' else 'raises TypeError')
            if isv and valid[vset.index((tuple(a), dict(k)))][2] != real[1]:
                return 'sort_callsigs(%s, ...) bound (*%s, **%s) to %r, the real call returns %r' % (
                    show(ps), a, dict(k), valid[vset.index((tuple(a), dict(k)))][2], real[1])
        return None
    if kind == 'makeup':
        return decide_makeup(_ps(r['sig']), r['extra'])[1]
    if kind == 'roundtrip':
        res = decide_roundtrip(_ps(r['sig']), r['ret'], tuple(r['opts']), r['postponed'],
                               tuple(r['future_features']) if r.get('future_features') is not None else None)
        return res[0][1] if res else None
    if kind == 'func_from_sig':
        return decide_func_from_sig(_ps(r['sig']), r['ret'])
    if kind == 'chevron':
        return decide_chevron(_ps(r['sig']), r['ret'], r['op'])
    if kind == 'sequence':
        return decide_sequence(_ps(r['sig']), [(tuple(o), x) for o, x in r['steps']])
    if kind == 'namespace':
        res = decide_namespace([list(x) for x in r['sig']], r['ret'], r['bind_modifiers'], tuple(r['opts']), r['postponed'])
        return res[0][1] if res else None
    if kind == 'rich':
        calls = [(list(a), [tuple(kv) for kv in k]) for a, k in r['calls']]
        res = decide_rich([list(x) for x in r['sig']], r['ret'], calls)
        return res[0][1] if res else None
    return None


def replay_known(ctx, k):
    w = k.get('witness') or {'sig': [[1, 'PK', None, None]], 'ret': 7}
    return decide_func_from_sig(_ps(w['sig']), w['ret']) is not None
