"""C02 — embed: result = calling outer, which forwards *args/**kwargs to inner."""
from core import (universe, mk_desc, show_sig, show_call, tok_sig, tok_sigs, parse_cex,
                  shape_of, random_sig, id_of_name, mk_param, b, tok_names)
from algebra import (Embed, run_cases, ask, proj_shape, proj_full, proj_params, case_from_data,
                     check_binding_model)

LEVEL = 'proof'


def named(d):
    return {p[0] for p in d['params'] if p[1] in ('PO', 'PK', 'KO')}


def allnames(d):
    return {p[0] for p in d['params']}


def npos(d):
    return sum(1 for p in d['params'] if p[1] in ('PO', 'PK'))


def gen(ctx):
    rng = ctx.rng('gen')
    U2 = universe(2, ['a', 'b'])
    U2cd = universe(2, ['c', 'd'], stars=(('args', 'kwargs'), ('va', 'vk')))
    U2ab = universe(2, ['a', 'b'], stars=(('args', 'kwargs'), ('va', 'vk')))
    U3 = universe(3, ['a', 'b', 'c'])
    pairs = []
    if ctx.quick:
        for x in rng.sample(U2ab, 150):
            for y in rng.sample(U2cd, 150):
                pairs.append((x, y))
        for x in rng.sample(U2, 100):
            for y in rng.sample(U2, 100):
                pairs.append((x, y))
        nr = 6000
    else:
        for x in U2ab:
            for y in U2cd:
                pairs.append((x, y))
        for x in U2:
            for y in U2:
                pairs.append((x, y))
        nr = 100000
    for _ in range(nr):
        k = rng.random()
        if k < 0.5:
            pairs.append((random_sig(rng, 'abc', 3), random_sig(rng, 'def', 3)))
        elif k < 0.74:
            pairs.append((random_sig(rng, 'abcd', 3), random_sig(rng, 'cdef', 3)))
        elif k < 0.8:
            # names of more than one letter, some spelled with the letters of the others
            pairs.append((random_sig(rng, ['a', 'ab', 'self'], 3), random_sig(rng, ['b', 'ba', 's', 'e'], 3)))
        else:
            pairs.append((rng.choice(U3), rng.choice(U3)))
    # an ordinary inner parameter spelled like a star parameter of the outer signature (the
    # threading.Thread(target, args=(), kwargs=None) convention): the forwarded star does not survive
    # into the result, its name is free
    from core import id_of_name
    for _ in range(1500 if ctx.quick else 20000):
        o = random_sig(rng, 'abc', 3, star_names=(('args', 'kwargs'),))
        i = random_sig(rng, 'def', 3, star_names=(('va', 'vk'), ('args', 'kwargs')))
        named = [j for j, q in enumerate(i) if q[1] in ('PO', 'PK', 'KO')]
        new = id_of_name(rng.choice(['args', 'kwargs']))
        if named and not any(q[0] == new for q in i):
            j = rng.choice(named)
            i = i[:j] + [(new,) + tuple(i[j][1:])] + i[j + 1:]
        pairs.append((o, i))
    triples = []
    for _ in range(4000 if ctx.quick else 60000):
        triples.append((random_sig(rng, 'ab', 2), random_sig(rng, 'cd', 2), random_sig(rng, 'ef', 2)))
    return pairs, triples


def decide(triples):
    out, reqs, meta = [], [], []
    for c, m, i in triples:
        if len(c.ds) != 2:
            continue
        o, inn = c.ds
        tail = '%s %s 0 0 0' % (b(c.uva), b(c.uvk))
        if i[0] == 'ok':
            r = i[1]
            reqs.append('chainsound %s %s %s %s' % (tok_sig(r), tok_sig(o), tok_sig(inn), tail))
            meta.append((c, i, 'sound'))
            o_defaulted = any(p[1] in ('PO', 'PK') and p[2] is not None for p in o['params'])
            if not (o_defaulted and npos(r) > npos(o)):
                reqs.append('chainexact %s %s %s %s' % (tok_sig(r), tok_sig(o), tok_sig(inn), tail))
                meta.append((c, i, 'exact'))
        elif i[1] == 'Incompatible':
            if named(o) & named(inn):
                continue
            reqs.append('chainnone %s %s %s %s 0 0' % (tok_sig(o), tok_sig(inn), b(c.uva), b(c.uvk)))
            meta.append((c, i, 'none'))
        elif i[1] == 'ValueError':
            if not (allnames(o) & allnames(inn)):
                out.append((c, 'C02:raises', '%s raised a plain ValueError although the inputs share no name' % c.show()))
        else:
            out.append((c, 'C02:exception', '%s raised %s' % (c.show(), i[1])))
    for (c, i, kind), ans in zip(meta, ask(reqs)):
        cex = parse_cex(ans)
        if cex is None:
            continue
        if kind == 'sound':
            out.append((c, 'C02:sound', '%s = %s accepts the non-colliding call %s which calling outer and forwarding to inner rejects' % (c.show(), show_sig(i[1]), show_call(cex))))
        elif kind == 'exact':
            out.append((c, 'C02:exact', '%s = %s differs from calling outer and forwarding to inner on the non-colliding call %s' % (c.show(), show_sig(i[1]), show_call(cex))))
        else:
            out.append((c, 'C02:raises', '%s raised IncompatibleSignatures although no parameter name is shared and call %s would succeed' % (c.show(), show_call(cex))))
    return out


def run(ctx, rep):
    pairs, triples3 = gen(ctx)
    rep.rule = ('(outer, inner) pairs: U(2,{a,b}) x U(2,{c,d}) with two star namings (sampled in quick, exhaustive in thorough), '
                'U(2,{a,b})^2 (shared names), random 3-name pairs with disjoint / overlapping pools; x 4 use_varargs/use_varkwargs combinations; '
                'triples for associativity; non-trivial = result differs from outer or raises')
    cases = []
    for x, y in pairs:
        for uva in (True, False):
            for uvk in (True, False):
                cases.append(Embed([mk_desc(x, 100), mk_desc(y, 101)], uva, uvk))
    rep.coverage['binding_model_calls_vs_cpython'] = check_binding_model(
        rep, [mk_desc(x, 100) for x, y in pairs[::max(1, len(pairs) // 100)]], 100)
    tr = run_cases(cases)
    rep.evaluations = len(tr)
    nerr = 0
    for c, m, i in tr:
        if proj_shape(m) != proj_shape(i):
            rep.corr_break('embed shape/error-class', c.show(), str(proj_shape(m)), str(proj_shape(i)))
        if i[0] == 'err':
            nerr += 1
            rep.distinct.add(c.request())
        elif shape_of(i[1]) != shape_of(c.ds[0]):
            rep.distinct.add(c.request())
    rep.coverage['error_results'] = nerr
    for c, key, what in decide(tr):
        rep.violation(key, what, dict(c.data(), kind='decide'))
    # associativity and neutral element, on the implementation
    nassoc = 0
    for x, y, z in triples3:
        for uva, uvk in ((True, True), (True, False), (False, True)):
            ds = [mk_desc(x, 100), mk_desc(y, 101), mk_desc(z, 102)]
            flat = Embed(ds, uva, uvk)
            fi = flat.impl()
            nassoc += 1
            from core import PS, build_sig, run_impl
            ni = run_impl(lambda: PS.embed(PS.embed(build_sig(ds[0]), build_sig(ds[1]), use_varargs=uva, use_varkwargs=uvk),
                                           build_sig(ds[2]), use_varargs=uva, use_varkwargs=uvk))
            if proj_params(fi) != proj_params(ni):
                rep.violation('C02:assoc', '%s = %s but embed(embed(a, b), c) = %s' % (flat.show(), proj_params(fi), proj_params(ni)),
                              dict(flat.data(), kind='assoc'))
    rep.coverage['assoc_instances'] = nassoc
    star = [mk_param(id_of_name('args'), 'VP'), mk_param(id_of_name('kwargs'), 'VK')]
    nneut = 0
    seen = set()
    for x, y in pairs:
        key = tuple(y)
        if key in seen:
            continue
        seen.add(key)
        c = Embed([mk_desc(star, 100), mk_desc(y, 101)], True, True)
        i = c.impl()
        nneut += 1
        if i[0] != 'ok' or tuple(i[1]['params']) != tuple(y):
            rep.violation('C02:neutral', '%s = %s, expected the inner parameters unchanged' % (c.show(), show_sig(i[1]) if i[0] == 'ok' else i[1]),
                          dict(c.data(), kind='neutral'))
    rep.coverage['neutral_instances'] = nneut
    rep.evaluations += nassoc + nneut
    for c, m, i in tr[:3] + tr[-2:]:
        rep.sample({'case': c.show(), 'impl': show_sig(i[1]) if i[0] == 'ok' else i[1]})


def replay(ctx, data):
    r = data['replay']
    c = case_from_data(r)
    if r['kind'] == 'decide':
        res = decide(run_cases([c]))
        return res[0][2] if res else None
    from core import PS, build_sig, run_impl
    if r['kind'] == 'assoc':
        ds = c.ds
        fi = c.impl()
        ni = run_impl(lambda: PS.embed(PS.embed(build_sig(ds[0]), build_sig(ds[1]), use_varargs=c.uva, use_varkwargs=c.uvk),
                                       build_sig(ds[2]), use_varargs=c.uva, use_varkwargs=c.uvk))
        return None if proj_params(fi) == proj_params(ni) else 'assoc: %s vs %s' % (proj_params(fi), proj_params(ni))
    if r['kind'] == 'neutral':
        i = c.impl()
        ok = i[0] == 'ok' and tuple(i[1]['params']) == tuple(c.ds[1]['params'])
        return None if ok else 'neutral: got %s' % (i,)
    return None
