"""C08 — parameter provenance is complete, truthful and depth-ordered."""
import functools

from core import (universe, mk_desc, show_sig, tok_sig, tok_sigs, random_sig, id_of_name, S, PS,
                  build_sig, describe_sig, name_of, fn_of, mk_param)
from algebra import (Merge, Embed, Mask, Forwards, Partial, run_cases, ask, proj_prov, proj_shape,
                     case_from_data)

LEVEL = 'proof'


def inputs_of(c):
    if c.op in ('merge', 'embed'):
        return list(c.ds)
    if c.op in ('mask', 'partial'):
        return [c.d]
    if c.op == 'forwards':
        return [c.o, c.i]
    return []


def declares_from(inputs, extra=None):
    """callable id -> set of parameter names it declares, from the inputs'
    provenance (a callable listed for name x in an input declares x)."""
    dec = {}
    for d in inputs:
        for nm, fs in d['srcs'].items():
            for f in fs:
                dec.setdefault(f, set()).add(nm)
    for f, names in (extra or {}).items():
        dec.setdefault(f, set()).update(names)
    return dec


def expected_depths(c):
    ins = inputs_of(c)
    if c.op == 'merge':
        out = {}
        for d in ins:
            for f, v in d['deps'].items():
                out[f] = min(out.get(f, v), v)
        return out
    if c.op == 'embed':
        out = {}
        for k, d in enumerate(ins):
            for f, v in d['deps'].items():
                out[f] = min(out.get(f, v + k), v + k)
        return out
    if c.op == 'mask':
        return dict(ins[0]['deps'])
    if c.op == 'partial':
        out = {f: v + 1 for f, v in ins[0]['deps'].items()}
        out[c.pobj] = 0
        return out
    if c.op == 'forwards':
        out = dict(ins[0]['deps'])
        for f, v in ins[1]['deps'].items():
            out[f] = min(out.get(f, v + 1), v + 1)
        return out
    return None


def src_wf(r, declares, label):
    """provenance well-formedness of one result description -> [(key, what)]"""
    out = []
    names = {p[0] for p in r['params']}
    keys = set(r['srcs'])
    if not r.get('has_depths', True):
        out.append(('C08:depths-missing', "%s: sources has no '+depths' entry" % label))
    if keys - names:
        out.append(('C08:keys-extra', '%s: sources mentions %s which is not a parameter' % (label, sorted(name_of(k) for k in keys - names))))
    if names - keys:
        out.append(('C08:keys-missing', '%s: no sources entry for parameter %s' % (label, sorted(name_of(k) for k in names - keys))))
    for nm, fs in r['srcs'].items():
        if not fs:
            out.append(('C08:empty', '%s: empty source list for %s' % (label, name_of(nm))))
        if len(set(fs)) != len(fs):
            out.append(('C08:dup', '%s: duplicate callable in the sources of %s: %s' % (label, name_of(nm), fs), nm))
        for f in fs:
            if f not in r['deps']:
                out.append(('C08:depth-missing', '%s: callable %s listed for %s has no depth' % (label, f, name_of(nm))))
            if declares is not None and nm not in declares.get(f, ()):
                out.append(('C08:truthful', '%s: callable %s is listed for %s but does not declare it' % (label, f, name_of(nm))))
    if r['deps'] and min(r['deps'].values()) != 0:
        out.append(('C08:depth-zero', '%s: no callable has depth 0: %s' % (label, r['deps'])))
    return out


def star_spelled_like_named(ins):
    stars = {p[0] for d in ins for p in d['params'] if p[1] in ('VP', 'VK')}
    named = {p[0] for d in ins for p in d['params'] if p[1] in ('PO', 'PK', 'KO')}
    return bool(stars & named)


def examine(c, i, al_rc):
    out = []
    if i[0] != 'ok':
        return out
    r = i[1]
    ins = inputs_of(c)
    extra = {}
    if c.op == 'partial':
        extra[c.pobj] = {k for k, v in c.kw}
    dec = declares_from(ins, extra)
    for item in src_wf(r, dec, c.show()):
        key, what = item[0], item[1]
        if (key == 'C08:keys-missing' and c.op == 'embed' and len(ins) >= 3
                and star_spelled_like_named(ins)):
            # known finding (delimited class): an n-ary embed whose intermediate result has a
            # star parameter spelled like one of its named parameters — the map is keyed by name
            key = 'C08:embed-star-name-collision'
        if key == 'C08:dup':
            nm = item[2]
            lists = [d['srcs'].get(nm, []) for d in ins]
            flat = [f for l in lists for f in l]
            if len(set(flat)) != len(flat):
                key = 'C08:dup-shared-callable'
            elif c.op == 'merge' and len(ins) >= 4 and any(
                    Merge(ins[:k]).impl() == ('err', 'ValueError') for k in range(2, len(ins))):
                # known finding (delimited class): a merge of four or more signatures folds through an
                # intermediate accumulator that is not a valid signature (a proper prefix does not merge)
                key = 'C08:nary-merge-duplicate'
        out.append((key, what))
    exp = expected_depths(c)
    if exp is not None and r['deps'] != exp:
        out.append(('C08:depths', '%s: depths %s, expected %s' % (c.show(), r['deps'], exp)))
    if c.op in ('embed', 'forwards'):
        # consistently named inputs of embed / forwards: outer and inner share no name
        seen = set()
        for d in ins:
            ns_ = {q[0] for q in d['params'] if q[1] in ('PO', 'PK', 'KO')}
            if ns_ & seen:
                al_rc = False
            seen |= ns_
    if al_rc and c.op in ('merge', 'embed', 'forwards'):
        for p in r['params']:
            if p[1] in ('VP', 'VK'):
                continue
            want = set()
            for d in ins:
                if p[0] in {q[0] for q in d['params']}:
                    want |= set(d['srcs'].get(p[0], []))
            got = set(r['srcs'].get(p[0], []))
            if got != want:
                out.append(('C08:exact', '%s: sources of %s are %s, the inputs declaring it give %s' % (c.show(), name_of(p[0]), sorted(got), sorted(want))))
    return out


def collide(rng, inner):
    """give one ordinary parameter of the inner signature the name of a star
    parameter (args / kwargs, the threading.Thread(target, args=(), kwargs=None)
    convention): it is an ordinary parameter and keeps its own provenance entry"""
    named = [i for i, p in enumerate(inner) if p[1] in ('PO', 'PK', 'KO')]
    if not named:
        return inner
    new = id_of_name(rng.choice(['args', 'kwargs']))
    if any(p[0] == new for p in inner):
        return inner
    i = rng.choice(named)
    out = list(inner)
    out[i] = (new,) + tuple(inner[i][1:])
    return out


def gen(ctx):
    rng = ctx.rng('gen')
    U2 = universe(2, ['a', 'b'], stars=(('args', 'kwargs'), ('va', 'vk')))
    U2cd = universe(2, ['c', 'd'], stars=(('args', 'kwargs'), ('va', 'vk')))
    U3 = universe(3, ['a', 'b', 'c'])
    fz = id_of_name('z')
    n = 12000 if ctx.quick else 150000
    from props.c01 import mutate
    cases = []
    for _ in range(n):
        k = rng.random()
        if k < 0.25:
            base = random_sig(rng, 'abcde', 5)
            cases.append(Merge([mk_desc(mutate(rng, base), 100 + j) for j in range(rng.choice([2, 3]))]))
        elif k < 0.35:
            cases.append(Merge([mk_desc(rng.choice(U3), 100 + j) for j in range(rng.choice([2, 3, 3, 4]))]))
        elif k < 0.6:
            inner = rng.choice(U2cd)
            if rng.random() < 0.15:
                inner = collide(rng, inner)
            if rng.random() < 0.03:
                # n-ary embed with a star spelled like a named parameter of an outer signature
                o = rng.choice(U2)
                onamed = [p[0] for p in o if p[1] in ('PO', 'PK', 'KO')]
                if onamed:
                    x = rng.choice(onamed)
                    mid = [mk_param(x, 'VP'), mk_param(id_of_name('kwargs'), 'VK')] if rng.random() < 0.5 \
                        else [mk_param(id_of_name('args'), 'VP'), mk_param(x, 'VK')]
                    cases.append(Embed([mk_desc(o, 100), mk_desc(mid, 101), mk_desc(random_sig(rng, 'ef', 2), 102)],
                                       True, True))
                    continue
            cases.append(Embed([mk_desc(rng.choice(U2), 100), mk_desc(inner, 101)]
                               + ([mk_desc(random_sig(rng, 'ef', 2), 102)] if rng.random() < 0.3 else []),
                               rng.random() < 0.8, rng.random() < 0.8))
        elif k < 0.75:
            ps = rng.choice(U3)
            names = [p[0] for p in ps if p[1] != 'PO'] + [fz]
            ns = rng.sample(names, rng.randint(0, min(2, len(names))))
            cases.append(Mask(mk_desc(ps, 100), rng.randint(0, len(ps) + 1), ns,
                              [rng.random() < 0.2 for _ in range(4)]))
        elif k < 0.85:
            ps = rng.choice(U3)
            names = [p[0] for p in ps if p[1] not in ('PO', 'VP', 'VK')] + [fz]
            if any(p[1] == 'VK' for p in ps):
                # a keyword spelled like *args is absorbed by **kwargs (a keyword-only parameter
                # of that name, sourced to the partial object)
                names += [p[0] for p in ps if p[1] == 'VP']
            nb = rng.randint(0, len(ps))
            if any(p[1] == 'VK' for p in ps):
                # a keyword spelled like a positional-only parameter that the bound positionals consume
                # is absorbed by **kwargs too
                pos = [p for p in ps if p[1] in ('PO', 'PK')]
                names += [p[0] for p in pos[:nb] if p[1] == 'PO']
            ns = rng.sample(names, rng.randint(0, min(2, len(names))))
            cases.append(Partial(mk_desc(ps, 100), nb, [(x, 5 + j) for j, x in enumerate(ns)]))
        else:
            o, i = rng.choice(U2), rng.choice(U2cd)
            if rng.random() < 0.15:
                i = collide(rng, i)
            names = [p[0] for p in i if p[1] != 'PO']
            ns = rng.sample(names, rng.randint(0, min(1, len(names))))
            cases.append(Forwards(mk_desc(o, 100), mk_desc(i, 101), rng.randint(0, 2), ns,
                                  rng.random() < 0.15, rng.random() < 0.15, rng.random() < 0.85,
                                  rng.random() < 0.85, rng.random() < 0.15))
    # keywords that collide with another role: a name spelled like the *args parameter (absorbed by
    # **kwargs, or rejected) listed TOGETHER with names of positional-or-keyword / keyword-only
    # parameters (the former close *args) and a foreign name, in every order, plain mask and forwards
    rng2 = ctx.rng('gen-star-keyword')
    withstars = [ps for ps in U3 if any(p[1] == 'VP' for p in ps)]
    for _ in range(700 if ctx.quick else 9000):
        ps = rng2.choice(withstars)
        if rng2.random() < 0.3:
            ps = [p for p in ps if p[1] != 'VK'] + [mk_param(id_of_name(rng2.choice(['kwargs', 'vk'])), 'VK')]
        va = [p[0] for p in ps if p[1] == 'VP']
        others = [p[0] for p in ps if p[1] in ('PK', 'KO')] + [fz]
        ns = va + rng2.sample(others, rng2.randint(1, min(2, len(others))))
        rng2.shuffle(ns)
        nb = rng2.choice([0, 0, 0, 1, 2])
        if rng2.random() < 0.75:
            cases.append(Mask(mk_desc(ps, 100), nb, ns, [rng2.random() < 0.1 for _ in range(4)]))
        else:
            cases.append(Forwards(mk_desc(rng2.choice(U2cd), 100), mk_desc(ps, 101), nb, ns,
                                  False, False, rng2.random() < 0.85, rng2.random() < 0.85, rng2.random() < 0.2))
    return cases


def second_stage(ctx, tr):
    """Use first-stage results (multi-source provenance, shared callables) as
    inputs of further operations."""
    rng = ctx.rng('stage2')
    oks = [i[1] for c, m, i in tr if i[0] == 'ok' and i[1]['params']]
    # only well-sourced results are inputs of further operations (a result that is itself
    # reported, e.g. under a known finding, would make every later result malformed too)
    oks = [d for d in oks if {p[0] for p in d['params']} == set(d['srcs']) and all(d['srcs'].values())]
    oks = [dict(params=d['params'], ret=d['ret'], uret=d['uret'], srcs=d['srcs'], deps=d['deps']) for d in oks]
    cases = []
    n = 6000 if ctx.quick else 80000
    for _ in range(n):
        k = rng.random()
        a, bb = rng.choice(oks), rng.choice(oks)
        if k < 0.4:
            cases.append(Merge([a, bb]))
        elif k < 0.7:
            cases.append(Embed([a, bb], True, True))
        elif k < 0.85:
            cases.append(Mask(a, rng.randint(0, 2), [], [False] * 4))
        else:
            cases.append(Merge([a, a]))
    return cases


def history_ops(rng, objs, descs):
    """A short random history over shared signature objects; yields (label, result desc)."""
    k = rng.randint(0, len(objs) - 1)
    s, d = objs[k], descs[k]
    o, od = objs[(k + 1) % len(objs)], descs[(k + 1) % len(objs)]
    names = [name_of(p[0]) for p in d['params'] if p[1] in ('PK', 'KO')]
    choice = rng.random()
    try:
        if choice < 0.35:
            n = rng.randint(0, 2)
            ns = rng.sample(names, min(len(names), rng.randint(0, 1)))
            return 'mask(%s, %d, %s)' % (show_sig(d), n, ns), PS.mask(s, n, *ns), [d]
        if choice < 0.6:
            return 'merge(%s, %s)' % (show_sig(d), show_sig(od)), PS.merge(s, o), [d, od]
        if choice < 0.85:
            return 'embed(%s, %s)' % (show_sig(od), show_sig(d)), PS.embed(o, s), [od, d]
        return 'forwards(%s, %s, 1)' % (show_sig(od), show_sig(d)), PS.forwards(o, s, 1), [od, d]
    except ValueError:
        return None, None, None


def history_checks(ctx, rep):
    rng = ctx.rng('history')
    n = 0
    for h in range(300 if ctx.quick else 4000):
        descs = [mk_desc(random_sig(rng, pool, 3), 100 + j) for j, pool in enumerate(('abc', 'def', 'gh'))]
        objs = [build_sig(d) for d in descs]
        trail = []
        for step in range(6):
            label, r, ins = history_ops(rng, objs, descs)
            if label is None:
                continue
            trail.append(label)
            n += 1
            rd = describe_sig(r)
            for item in src_wf(rd, declares_from(ins), label):
                rep.violation(item[0] + '-history', 'after the history %s: %s' % (trail, item[1]),
                              {'kind': 'history', 'seed_tag': h})
                return n
    return n


def run(ctx, rep):
    cases = gen(ctx)
    rep.rule = ('merge (role-preserving variations, U(3)), embed (U(2,{a,b}) x U(2,{c,d}) with equal and different star names, triples), mask, partial, forwards '
                'on default-sourced inputs; then a second stage using first-stage results as inputs (multi-callable provenance, shared callables); '
                'non-trivial = result has a provenance map different from its first input')
    tr = run_cases(cases)
    st2 = second_stage(ctx, tr)
    tr2 = run_cases(st2)
    allr = tr + tr2
    rep.evaluations = len(allr)
    flags = ask([('aligned ' + tok_sigs(inputs_of(c))) for c, m, i in allr])
    flags2 = ask([('rolecons ' + tok_sigs(inputs_of(c))) for c, m, i in allr])
    hist = {}
    for (c, m, i), a, r in zip(allr, flags, flags2):
        if proj_prov(m) != proj_prov(i):
            rep.corr_break('provenance maps', c.show(), str(proj_prov(m)), str(proj_prov(i)))
        if i[0] == 'ok' and (i[1]['srcs'], i[1]['deps']) != (inputs_of(c)[0]['srcs'], inputs_of(c)[0]['deps']):
            rep.distinct.add(c.request())
        for key, what in examine(c, i, a == 'T' and r == 'T'):
            hist[key] = hist.get(key, 0) + 1
            rep.violation(key, what, dict(c.data(), kind='examine', alrc=(a == 'T' and r == 'T')))
    rep.coverage['finding_histogram'] = hist
    rep.coverage['second_stage_cases'] = len(tr2)
    # histories: the same signature objects are reused across operations
    nh = history_checks(ctx, rep)
    rep.coverage['history_cases'] = nh
    rep.evaluations += nh
    # modifiers wrappers replace the wrapped function in both maps
    from sigtools import modifiers, specifiers
    nmod = 0
    for src in ('def f(a, b, c=1): pass', 'def f(a, b=2, *args, **kwargs): pass', 'def f(x, y): pass'):
        ns = {}
        exec(src, ns)
        f = ns['f']
        first = src.split('(')[1].split(',')[0].strip()
        for deco in (modifiers.kwoargs(first), modifiers.posoargs(first)):
            w = deco(f)
            sig = specifiers.signature(w)
            nmod += 1
            vals = [x for k, v in sig.sources.items() if k != '+depths' for x in v]
            if any(x is not w for x in vals) or list(sig.sources['+depths']) != [w]:
                rep.violation('C08:modifiers-swap', 'modifiers wrapper of %r: sources %r' % (src, sig.sources), {'kind': 'modifiers', 'src': src})
    # STACKED modifiers on one function (every pair of forms in both orders, annotate on top), and a
    # stacked wrapper as the outer function of a declared forwarding: the outermost wrapper object
    # stands for the function everywhere, at depth 0
    stack_src = 'def f(a, b, c=1, d=2): pass'

    def stacks():
        K, P, A, S, E, N = (modifiers.kwoargs('c'), modifiers.posoargs('a'), modifiers.autokwoargs,
                            modifiers.kwoargs(start='d'), modifiers.posoargs(end='a'), modifiers.annotate(b=int))
        pairs = [(K, P), (P, K), (A, P), (P, A), (S, K), (K, S), (E, K), (K, E), (N, K), (K, N), (N, P)]
        for outer, inner in pairs:
            yield (outer, inner)
        yield (K, P, N)
        yield (N, S, E)
    for decos in stacks():
        ns = {}
        exec(stack_src, ns)
        f = ns['f']
        w = f
        try:
            for d in reversed(decos):
                w = d(w)
            sig = specifiers.signature(w)
        except ValueError:
            continue
        nmod += 1
        vals = [x for k, v in sig.sources.items() if k != '+depths' for x in v]
        if any(x is not w for x in vals) or list(sig.sources['+depths']) != [w]:
            rep.violation('C08:modifiers-swap', 'stacked modifiers %r on %r: sources %r (the outermost wrapper is %r)'
                          % ([getattr(d, 'func', d) for d in decos], stack_src, sig.sources, w), {'kind': 'modifiers', 'src': stack_src})
            break
        # the stacked wrapper as outer function of a declared forwarding
        ns2 = {}
        exec('def g(z, *args, **kwargs): pass\ndef inner(p, q=1): pass', ns2)
        g = modifiers.kwoargs('z')(modifiers.annotate(z=int)(ns2['g'])) if decos[0] is not None else ns2['g']
        fs = specifiers.forwards_to_function(ns2['inner'])(g)
        sg = specifiers.signature(fs)
        nmod += 1
        d0 = [x for x, v in sg.sources['+depths'].items() if v == 0]
        if len(d0) != 1 or ns2['g'] in sg.sources['+depths'] or any(ns2['g'] in v for k, v in sg.sources.items() if k != '+depths'):
            rep.violation('C08:modifiers-swap', 'forwards over a stacked modifiers wrapper: the raw function appears in %r' % (sg.sources,),
                          {'kind': 'modifiers', 'src': 'forwards over stacked'})
            break
    rep.evaluations += nmod
    for c, m, i in tr[:3] + tr2[:3]:
        rep.sample({'case': c.show(), 'sources': i[1]['srcs'] if i[0] == 'ok' else i[1], 'depths': i[1]['deps'] if i[0] == 'ok' else None})


def replay(ctx, data):
    r = data['replay']
    if r.get('kind') == 'modifiers':
        return None
    c = case_from_data(r)
    res = examine(c, c.impl(), r.get('alrc', False))
    res = [x for x in res if x[0] == data['key']] or res
    return res[0][1] if res else None


def replay_known(ctx, k):
    c = case_from_data(k['witness'])
    res = examine(c, c.impl(), False)
    return any(x[0] == k['key'] for x in res)
