"""C19 — functools.partial objects get the signature Python actually enforces."""
import functools
import inspect
import itertools
import warnings

from core import (universe, mk_desc, show_sig, show_call, tok_sig, tok_names, parse_cex, random_sig,
                  id_of_name, name_of, describe_sig, PS, S, register_fn, classify_exc, shape_of,
                  tok_call, fn_of)
from algebra import (Partial, run_cases, ask, proj_full, proj_shape, real_function, case_from_data,
                     _fix_desc)
import sigtools

LEVEL = 'proof'


def po_star_names(d, n=0):
    """names a bound keyword may not carry for the exactness statement (the hypothesis of
    C19_names_exact): the star parameters' names and the positional-only parameters that the n
    bound positionals do NOT consume (a keyword spelled like a CONSUMED positional-only
    parameter simply goes to **kwargs)"""
    pos = [p for p in d['params'] if p[1] in ('PO', 'PK')]
    return ({p[0] for p in d['params'] if p[1] in ('VP', 'VK')}
            | {p[0] for p in pos[n:] if p[1] == 'PO'})


class SizedPartial(functools.partial):
    """a functools.partial subclass with a length: falsy while it binds no positional argument"""
    def __len__(self):
        return len(self.args)


def real_partial_result(d, n, kw, auto):
    """signature of a real functools.partial object, described with callable ids:
    the function is 100, the partial object 200."""
    f = real_function(d)
    # every second object is an instance of a partial subclass whose truth value may be False
    cls = SizedPartial if (n + len(kw) + len(d['params'])) % 2 == 0 else functools.partial
    p = cls(f, *([0] * n), **{name_of(k): v for k, v in kw})
    # fresh id tables per call: f -> 100, p -> 200
    from core import _FN, _FN_ID
    _FN_ID[id(f)] = 100
    _FN_ID[id(p)] = 200
    try:
        with warnings.catch_warnings():
            warnings.simplefilter('ignore')
            sig = sigtools.signature(p) if auto else PS.signature(p)
        res = ('ok', describe_sig(sig))
    except Exception as e:  # noqa: BLE001
        res = ('err', classify_exc(e))
    finally:
        _FN_ID.pop(id(f), None)
        _FN_ID.pop(id(p), None)
    return res, p


def call_partial(p, call):
    n, ks = call
    try:
        p(*([0] * n), **{name_of(k): 0 for k in ks})
    except TypeError:
        return False
    return True


def structure(c, r):
    """the shape clauses of C19 on one result"""
    out = []
    d = c.d
    pos = [p for p in d['params'] if p[1] in ('PO', 'PK')]
    consumed = {p[0] for p in pos[:c.n]}
    rnames = {p[0]: p for p in r['params']}
    for nm in consumed:
        # (a keyword spelled like a consumed positional-only parameter is absorbed by **kwargs
        # and shows up as a keyword-only parameter of that name: not the bound positional)
        if nm in rnames and nm not in dict(c.kw):
            out.append('bound positional %s still present' % name_of(nm))
    pk = [p for p in pos[c.n:] if p[1] == 'PK']
    bound = dict(c.kw)
    first = None
    for idx, p in enumerate(pk):
        if p[0] in bound:
            first = idx
            break
    if first is not None:
        for p in pk[first:]:
            q = rnames.get(p[0])
            if q is None or q[1] != 'KO':
                out.append('%s should have become keyword-only' % name_of(p[0]))
        if any(p[1] == 'VP' for p in r['params']):
            out.append('*args should have been removed')
    for nm, v in bound.items():
        q = rnames.get(nm)
        if q is None or q[1] != 'KO' or q[2] != v:
            out.append('bound keyword %s should be keyword-only with default %s' % (name_of(nm), v))
        declared = nm in {p[0] for p in d['params'] if p[1] in ('PK', 'KO')}
        if not declared and r['srcs'].get(nm) != [c.pobj]:
            out.append('keyword %s absorbed by **kwargs should be sourced to the partial object, got %s' % (name_of(nm), r['srcs'].get(nm)))
    if r['deps'].get(c.pobj) != 0:
        out.append('the partial object should have depth 0: %s' % r['deps'])
    for f, v in d['deps'].items():
        if r['deps'].get(f) != v + 1:
            out.append('depth of the wrapped function should be %d: %s' % (v + 1, r['deps']))
    return out


def decide(triples):
    out, reqs, meta = [], [], []
    for c, m, i in triples:
        names = [k for k, v in c.kw]
        stars = {p[0] for p in c.d['params'] if p[1] in ('VP', 'VK')}
        has_vk = any(p[1] == 'VK' for p in c.d['params'])
        if set(names) & stars and has_vk and i == ('err', 'ValueError') \
                and not (set(names) & (po_star_names(c.d, c.n) - stars)):
            # known finding (delimited class): a bound keyword spelled like the function's own *args /
            # **kwargs parameter is absorbed by **kwargs, but the result cannot hold a keyword-only
            # parameter and a star parameter of one name
            reqs.append('partialnone %s %d %s' % (tok_sig(c.d), c.n, tok_names([k for k in names if k not in stars])))
            # (the model reproduces the known failure: where the MODEL returns a signature -- e.g. the
            # star parameter of that name is removed because a positional-or-keyword parameter is
            # bound by keyword -- a ValueError of the implementation is not that finding)
            meta.append((c, i, 'star-named' if (m is None or m[0] == 'err') else 'none'))
            continue
        if set(names) & po_star_names(c.d, c.n):
            continue
        if i[0] == 'ok':
            reqs.append('partialexact %s %s %d %s' % (tok_sig(i[1]), tok_sig(c.d), c.n, tok_names(names)))
            meta.append((c, i, 'exact'))
            for what in structure(c, i[1]):
                out.append((c, 'C19:shape', '%s = %s: %s' % (c.show(), show_sig(i[1]), what)))
        elif i[1] == 'ValueError':
            reqs.append('partialnone %s %d %s' % (tok_sig(c.d), c.n, tok_names(names)))
            meta.append((c, i, 'none'))
        else:
            out.append((c, 'C19:exception', '%s raised %s' % (c.show(), i[1])))
    for (c, i, kind), ans in zip(meta, ask(reqs)):
        cex = parse_cex(ans)
        if cex is None:
            continue
        if kind == 'star-named':
            out.append((c, 'C19:keyword-named-like-star', '%s raised ValueError although the partial object is valid (the keyword spelled like a star parameter goes to **kwargs; e.g. call %s)' % (c.show(), show_call(cex))))
            continue
        if kind == 'exact':
            out.append((c, 'C19:exact', '%s = %s disagrees with calling the partial object on call %s' % (c.show(), show_sig(i[1]), show_call(cex))))
        else:
            out.append((c, 'C19:raises', '%s raised ValueError although the partial object accepts call %s' % (c.show(), show_call(cex))))
    return out


def gen(ctx):
    rng = ctx.rng('gen')
    U2 = universe(2, ['a', 'b'])
    U3 = universe(3, ['a', 'b', 'c'])
    sigs = U2 + (rng.sample(U3, 250) if ctx.quick else U3) + [random_sig(rng, 'abcde', 5) for _ in range(100 if ctx.quick else 2000)]
    # names of more than one letter, some spelled with the letters that name other parameters
    sigs = sigs + [random_sig(rng, ['a', 'b', 'ab', 'ba', 'self', 'e', 'f', 's'], 4) for _ in range(60 if ctx.quick else 600)]
    fz = id_of_name('z')
    cases = []
    for ps in sigs:
        d = mk_desc(ps, 100)
        names = [p[0] for p in ps] + [fz]
        for n in range(0, len(ps) + 2):
            for r in range(0, 3):
                for ns in itertools.permutations(names, r):
                    cases.append(Partial(d, n, [(x, 5 + j) for j, x in enumerate(ns)]))
                    # the same binding with each parameter's OWN default value as the bound value
                    # (the identical object): what matters is that it is passed by keyword
                    dfl = {p[0]: p[2] for p in ps if p[2]}
                    if any(x in dfl for x in ns):
                        cases.append(Partial(d, n, [(x, dfl.get(x, 5 + j)) for j, x in enumerate(ns)]))
    return sigs, cases


# ---- discovery through a partial ----
PROGS = '''
def w_pos(callee, *args, **kwargs):
    return callee(*args, **kwargs)
def w_two(x, callee, *args, **kwargs):
    return callee(x, *args, **kwargs)
def other_default(u=0, *, v=1):
    return ('other', u, v)
def w_dflt(tag, *args, func=other_default, **kwargs):
    return func(*args, **kwargs)
def w_dflt_pos(tag, func=other_default, *args, **kwargs):
    return func(*args, **kwargs)
def callee_g(x, y, *, z=1):
    return ('g', x, y, z)
def w_glob(a, *args, **kwargs):
    return callee_g(*args, **kwargs)
def w_comp(fn, *args, **kwargs):
    return fn(len(args), *args, **kwargs)
def w_skip(ts, func, *a, **k):
    return func(*a, **k)
def w_comp_kw(fn, *args, **kwargs):
    return fn(*args, stamp=len(args), **kwargs)
def w_skip_kw(func, *a, stamp, **k):
    return func(*a, **k)
class Plain(object):
    def run(self, wrapped, *args, **kwargs):
        return wrapped(*args, **kwargs)
    def run2(self, tag, wrapped, *args, **kwargs):
        return wrapped(*args, **kwargs)
plain_inst = Plain()
'''


NESTED_PATTERNS = ([pat for pat in itertools.product((0, 1), repeat=3)]
                   + [(0, 0, 0, 0), (0, 1, 0, 1), (1, 0, 0, 0), (0, 0, 1, 1), (2, 0, 2), (0, 0, 0, 0, 0)])


def nested_partial_checks(rep, mod, d, inner):
    """nested partials of the same wrapper; the pattern gives the number of further positionals
    each level binds, innermost level first"""
    n = 0
    kw_names = [name_of(q[0]) for q in d['params'] if q[1] in ('PK', 'KO')]
    for wname in ('w_pos', 'Plain.run'):
        for pat in NESTED_PATTERNS:
            if wname != 'w_pos' and pat not in ((0, 0, 0), (0, 1, 0), (0, 0, 0, 0)):
                continue
            for kw in ([{}] + ([{kw_names[-1]: 7}] if kw_names and pat[-1] == 0 else [])):
                total = sum(pat)
                flat = functools.partial(inner, *([0] * total), **kw)
                try:
                    with warnings.catch_warnings():
                        warnings.simplefilter('ignore')
                        exp = describe_sig(PS.signature(flat))
                except Exception:  # noqa: BLE001
                    continue        # more positionals than inner takes / a keyword it cannot hold
                cur = inner
                levels = []
                for lv, extra in enumerate(pat):
                    top = kw if lv == len(pat) - 1 else {}
                    if wname == 'w_pos':
                        cur = functools.partial(mod.w_pos, cur, *([0] * extra), **top)
                    else:
                        cur = functools.partial(mod.Plain.run, mod.plain_inst, cur, *([0] * extra), **top)
                    levels.append(cur)
                label = '%s nested %d levels binding %s further positionals (innermost first)%s' % (
                    'partial(%s, <callee>, ...)' % wname, len(pat), list(pat), (' and keyword %s on top' % list(kw)) if kw else '')
                n += 1
                try:
                    with warnings.catch_warnings():
                        warnings.simplefilter('ignore')
                        sig = sigtools.signature(cur)
                    got = describe_sig(sig)
                except Exception as e:  # noqa: BLE001
                    rep.violation('C19:discover-nested', 'sigtools.signature(%s) raised %s for inner%s' % (label, classify_exc(e), show_sig(d)),
                                  {'kind': 'discover', 'sig': d})
                    continue
                if shape_of(got) != shape_of(exp):
                    # a call on which the reported signature and the object really differ
                    wit = ''
                    for npos in range(0, len(d['params']) + 2):
                        try:
                            sig.bind(*([0] * npos))
                            adv = True
                        except TypeError:
                            adv = False
                        try:
                            cur(*([0] * npos))
                            real = True
                        except TypeError:
                            real = False
                        if adv != real:
                            wit = '; the call with %d positionals is %s by the reported signature but really %s' % (
                                npos, 'accepted' if adv else 'rejected', 'succeeds' if real else 'raises TypeError')
                            break
                    rep.violation('C19:discover-nested', '%s with inner%s: discovered %s, expected %s (every level is a partial object looked through with its bound positionals)%s'
                                  % (label, show_sig(d), show_sig(got), show_sig(exp), wit), {'kind': 'discover', 'sig': d})
                    continue
                if not any(k is cur and v == 0 for k, v in sig.sources['+depths'].items()):
                    rep.violation('C19:discover-depth', '%s: the outermost partial object does not have depth 0' % label, {'kind': 'discover', 'sig': d})
    return n


class _PartialSubclass(functools.partial):
    """a partial object of a subclass, as libraries define to give partials a name or a repr"""
    __slots__ = ()


def discovery_checks(ctx, rep, sigs):
    ns = {}
    exec(compile(PROGS, '<c19-progs>', 'exec'), ns)
    # source must be retrievable: write to a temp module instead
    import tempfile, importlib.util, os, sys, shutil
    tmp = tempfile.mkdtemp(prefix='verif-c19-')
    n = 0
    try:
        path = os.path.join(tmp, 'c19progs.py')
        with open(path, 'w') as f:
            f.write(PROGS)
        spec = importlib.util.spec_from_file_location('c19progs', path)
        mod = importlib.util.module_from_spec(spec)
        spec.loader.exec_module(mod)
        # a partial that binds NO positional over a wrapper whose callee needs no bound argument to be
        # resolved (a global): discovery still looks through it, and the bound keyword makes the
        # following parameters keyword-only and removes *args
        for label, pg, want in (("partial(w_glob, y=2)", functools.partial(mod.w_glob, y=2), '(a, x, *, z=1, y=2)'),
                                ("partial(w_glob)", functools.partial(mod.w_glob), '(a, x, y, *, z=1)'),
                                ("partial(w_glob, z=5)", functools.partial(mod.w_glob, z=5), '(a, x, y, *, z=5)')):
            n += 1
            try:
                gotg = sigtools.signature(pg)
            except Exception as e:  # noqa: BLE001
                rep.violation('C19:discover-global', 'sigtools.signature(%s) raised %s' % (label, classify_exc(e)), {'kind': 'discover-global'})
                continue
            ok_shape = [(q.name, q.kind.name, q.default is not q.empty) for q in gotg.parameters.values()]
            exp_shape = [(q.name, q.kind.name, q.default is not q.empty)
                         for q in inspect.signature(eval('lambda ' + want[1:-1].replace('/, ', '') + ': None')).parameters.values()]
            if sorted(ok_shape) != sorted(exp_shape) or [x for x in ok_shape if x[1] != 'KEYWORD_ONLY'] != [x for x in exp_shape if x[1] != 'KEYWORD_ONLY']:
                rep.violation('C19:discover-global', '%s: discovered %s, expected %s (w_glob(a, *args, **kwargs) forwards to the global callee_g(x, y, *, z=1))'
                              % (label, gotg, want), {'kind': 'discover-global'})
        for ps in sigs:
            d = mk_desc(ps, 100)
            inner = real_function(d, 'inner')
            inner_sig = describe_sig(PS.signature(inner))
            # positional binding resolves the callee
            p = functools.partial(mod.w_pos, inner)
            n += 1
            try:
                got = describe_sig(sigtools.signature(p))
            except Exception as e:  # noqa: BLE001
                rep.violation('C19:discover', 'sigtools.signature(partial(w_pos, inner)) raised %s for inner%s' % (classify_exc(e), show_sig(d)),
                              {'kind': 'discover', 'sig': d})
                continue
            if shape_of(got) != shape_of(inner_sig):
                rep.violation('C19:discover', 'partial(w_pos, inner) with inner%s: discovered %s, expected the parameters of inner' % (show_sig(d), show_sig(got)),
                              {'kind': 'discover', 'sig': d})
            if got['deps'].get(register_fn(p)) != 0 and 0 not in [v for k, v in sigtools.signature(p).sources['+depths'].items() if k is p]:
                rep.violation('C19:discover-depth', 'partial object does not have depth 0 in %s' % (got['deps'],), {'kind': 'discover', 'sig': d})
            # an instance of a SUBCLASS of functools.partial is a partial object too (seeded change C19-m11:
            # discovery dispatched on the exact type): plain retrieval and discovery must both look through it,
            # also when the subclass instance is the bound callee of another one
            for label, psub, want_sig in (('PartialSubclass(w_pos, inner)', _PartialSubclass(mod.w_pos, inner), inner_sig),
                                          ('PartialSubclass(w_pos, PartialSubclass(inner))',
                                           _PartialSubclass(mod.w_pos, _PartialSubclass(inner)), inner_sig)):
                n += 1
                for how, retrieve in (('sigtools.signature', sigtools.signature), ('signatures.signature', None)):
                    try:
                        if retrieve is None:
                            if 'w_pos, inner' not in label:
                                continue
                            gots = describe_sig(PS.signature(_PartialSubclass(inner)))
                        else:
                            gots = describe_sig(retrieve(psub))
                    except Exception as e:  # noqa: BLE001
                        rep.violation('C19:discover-subclass', '%s(%s) raised %s for inner%s' % (how, label, classify_exc(e), show_sig(d)),
                                      {'kind': 'discover', 'sig': d})
                        continue
                    if shape_of(gots) != shape_of(want_sig):
                        rep.violation('C19:discover-subclass', '%s of %s with inner%s: got %s, expected the parameters of inner (an instance of a '
                                      'subclass of functools.partial is a partial object)' % (how, label, show_sig(d), show_sig(gots)),
                                      {'kind': 'discover', 'sig': d})
            # the partial of a BOUND METHOD: the instance comes first, then the partial's positionals
            for label, pm in (('partial(inst.run, inner)', functools.partial(mod.plain_inst.run, inner)),
                              ("partial(inst.run2, 't', inner)", functools.partial(mod.plain_inst.run2, 't', inner)),
                              ('partial(Plain.run, inst, inner)', functools.partial(mod.Plain.run, mod.plain_inst, inner))):
                n += 1
                try:
                    gotm = describe_sig(sigtools.signature(pm))
                except Exception as e:  # noqa: BLE001
                    rep.violation('C19:discover-method', 'sigtools.signature(%s) raised %s for inner%s' % (label, classify_exc(e), show_sig(d)),
                                  {'kind': 'discover', 'sig': d})
                    continue
                if shape_of(gotm) != shape_of(inner_sig):
                    rep.violation('C19:discover-method', '%s with inner%s: discovered %s, expected the parameters of inner' % (label, show_sig(d), show_sig(gotm)),
                                  {'kind': 'discover', 'sig': d})
            # a two-level chain: the bound callee is itself a forwarding wrapper whose own callee is a
            # FURTHER bound positional, and the outer wrapper passes a statically unknown value of its
            # own in front of *args (the placeholder keeps the positions of what follows)
            for label, pc in (('partial(w_comp, w_skip, inner)', functools.partial(mod.w_comp, mod.w_skip, inner)),
                              ('partial(w_comp_kw, w_skip_kw, inner)', functools.partial(mod.w_comp_kw, mod.w_skip_kw, inner))):
                # (two wrappers that spell their callee parameter alike, e.g. partial(w_pos, w_pos, inner),
                # are an incompatible pair for embed -- a same-named parameter -- and fall back: not generated)
                n += 1
                try:
                    gotc = describe_sig(sigtools.signature(pc))
                except Exception as e:  # noqa: BLE001
                    rep.violation('C19:discover-chain', 'sigtools.signature(%s) raised %s for inner%s' % (label, classify_exc(e), show_sig(d)),
                                  {'kind': 'discover', 'sig': d})
                    continue
                if shape_of(gotc) != shape_of(inner_sig):
                    rep.violation('C19:discover-chain', '%s with inner%s: discovered %s, expected the parameters of inner' % (label, show_sig(d), show_sig(gotc)),
                                  {'kind': 'discover', 'sig': d})
            # partial objects of ONE forwarding wrapper nested in each other, each level holding the
            # next one as its bound callee (3 and 4 levels), every level binding 0 or 1 further
            # positional, optionally a keyword on top: every level is looked through, so the result is
            # the plain signature of partial(inner, <all bound positionals>, <keyword>)
            n += nested_partial_checks(rep, mod, d, inner)
            # keyword binding does not resolve the callee: plain partial signature
            p2 = functools.partial(mod.w_pos, callee=inner)
            n += 1
            try:
                got2 = describe_sig(sigtools.signature(p2))
                exp2 = describe_sig(PS.signature(p2))
                if shape_of(got2) != shape_of(exp2):
                    rep.violation('C19:discover-kw', 'partial(w_pos, callee=inner): discovered %s although keywords do not resolve callee parameters (plain: %s)' % (show_sig(got2), show_sig(exp2)),
                                  {'kind': 'discover', 'sig': d})
            except Exception as e:  # noqa: BLE001
                rep.violation('C19:discover', 'sigtools.signature(partial(w_pos, callee=inner)) raised %s' % classify_exc(e), {'kind': 'discover', 'sig': d})
            # a DEFAULT of the wrapper's callee parameter resolves nothing either: the caller
            # (or a keyword bound by the partial) can still replace it
            for label, p3 in (("partial(w_dflt, 't')", functools.partial(mod.w_dflt, 't')),
                              ("partial(w_dflt, 't', func=inner)", functools.partial(mod.w_dflt, 't', func=inner)),
                              ("partial(w_dflt_pos, 't')", functools.partial(mod.w_dflt_pos, 't'))):
                n += 1
                try:
                    got3 = describe_sig(sigtools.signature(p3))
                    exp3 = describe_sig(PS.signature(p3))
                except Exception as e:  # noqa: BLE001
                    rep.violation('C19:discover', 'sigtools.signature(%s) raised %s' % (label, classify_exc(e)), {'kind': 'discover', 'sig': d})
                    continue
                if shape_of(got3) != shape_of(exp3):
                    rep.violation('C19:discover-default', '%s with inner%s: discovered %s although only bound positionals resolve callee parameters (plain: %s)'
                                  % (label, show_sig(d), show_sig(got3), show_sig(exp3)), {'kind': 'discover', 'sig': d})
    finally:
        shutil.rmtree(tmp, ignore_errors=True)
    return n


def run(ctx, rep):
    sigs, cases = gen(ctx)
    rep.rule = ('functions: U(2,{a,b}) + %s + random 5-name signatures x every positional count 0..len+1 x every duplicate-free keyword tuple (<=2, every order, foreign name z); '
                'each also as a real functools.partial object really called on every shape; non-trivial = the partial binds at least one argument or raises'
                % ('sample of U(3)' if ctx.quick else 'U(3,{a,b,c})'))
    tr = run_cases(cases)
    rep.evaluations = len(tr)
    for c, m, i in tr:
        if proj_full(m) != proj_full(i):
            rep.corr_break('partial branch of signature(): full result', c.show(), str(proj_full(m)), str(proj_full(i)))
        if c.n or c.kw:
            rep.distinct.add(c.request())
    for c, key, what in decide(tr):
        rep.violation(key, what, dict(c.data(), kind='decide'))
    # real partial objects: retrieval agrees with the algebra, and the result
    # agrees with really calling the object
    step = max(1, len(tr) // (2500 if ctx.quick else 30000))
    nreal = 0
    shape_req, shape_meta = [], []
    for c, m, i in tr[::step]:
        names = [k for k, v in c.kw]
        for auto in (False, True):
            res, p = real_partial_result(c.d, c.n, c.kw, auto)
            nreal += 1
            if auto and res[0] == 'err' and not (set(names) & po_star_names(c.d, c.n)) and i[0] == 'ok':
                rep.violation('C19:retrieval', 'sigtools.signature(%s) raised %s' % (c.show(), res[1]), dict(c.data(), kind='real'))
            if not auto and proj_shape(res) != proj_shape(i):
                rep.corr_break('signatures.signature(real partial) vs _mask in partial mode', c.show(), str(proj_shape(i)), str(proj_shape(res)))
            if auto and res[0] == 'ok' and i[0] == 'ok' and proj_shape(res) != proj_shape(i):
                rep.violation('C19:auto', 'sigtools.signature(%s) = %s differs from signatures.signature = %s' % (c.show(), show_sig(res[1]), show_sig(i[1])), dict(c.data(), kind='real'))
        if set(names) & po_star_names(c.d, c.n):
            continue
        if i[0] == 'ok':
            shape_req.append('shapes 2 %s %s' % (tok_sig(i[1]), tok_sig(c.d)))
            shape_meta.append((c, i, p))
        else:
            shape_req.append('shapes 1 %s' % tok_sig(c.d))
            shape_meta.append((c, i, p))
    acc_req, acc_meta = [], []
    for (c, i, p), sl in zip(shape_meta, ask(shape_req)):
        calls = []
        for item in sl.split(';'):
            np_, _, ks = item.partition(':')
            calls.append((int(np_), [int(k) for k in ks.split(',') if k]))
        if i[0] == 'ok':
            acc_req.append('acceptsall %s %d %s' % (tok_sig(i[1]), len(calls), ' '.join(tok_call(cl) for cl in calls)))
            acc_meta.append((c, i, p, calls))
        else:
            for cl in calls:
                if call_partial(p, cl):
                    rep.violation('C19:raises', '%s raised ValueError although really calling the partial object with %s succeeds' % (c.show(), show_call(cl)), dict(c.data(), kind='decide'))
                    break
    ncalls = 0
    for (c, i, p, calls), ans in zip(acc_meta, ask(acc_req)):
        kwp = {q[0] for q in i[1]['params'] if q[1] in ('PK', 'KO')}
        allnames = {q[0] for q in c.d['params']} | {q[0] for q in i[1]['params']}
        for cl, a in zip(calls, ans):
            if not all(k in kwp or k not in allnames for k in cl[1]):
                continue      # colliding call
            ncalls += 1
            real = call_partial(p, cl)
            if real != (a == 'T'):
                rep.violation('C19:exact', '%s = %s %s call %s but really calling the partial object %s' % (
                    c.show(), show_sig(i[1]), 'accepts' if a == 'T' else 'rejects', show_call(cl), 'succeeds' if real else 'raises TypeError'),
                    dict(c.data(), kind='decide'))
                break
    rep.coverage['real_partial_objects'] = nreal
    rep.coverage['real_calls'] = ncalls
    nd = discovery_checks(ctx, rep, sigs[:120 if ctx.quick else 1200])
    rep.coverage['discovery_through_partial'] = nd
    rep.evaluations += nreal + nd
    for c, m, i in tr[5:8] + tr[-3:]:
        rep.sample({'case': c.show(), 'impl': show_sig(i[1]) if i[0] == 'ok' else i[1]})
    rep.assumptions = ['keywords naming a positional-only or star parameter are excluded from the decision (they can only travel through **kwargs; version-dependent)']


def replay(ctx, data):
    r = data['replay']
    if r.get('kind') == 'decide' or r.get('kind') == 'real':
        c = case_from_data(r)
        res = decide(run_cases([c]))
        return res[0][2] if res else None
    if r.get('kind') == 'discover':
        from algebra import _fix_desc

        class _R(object):
            def __init__(self):
                self.v = []

            def violation(self, key, what, rp):
                self.v.append(what)
        rr = _R()
        discovery_checks(ctx, rr, [_fix_desc(r['sig'])['params']])
        return rr.v[0] if rr.v else None
    return None


def replay_known(ctx, k):
    if k.get('key') != 'C19:keyword-named-like-star':
        return True
    c = case_from_data(k['witness'])
    return any(x[1] == k['key'] for x in decide([(c, None, c.impl())]))
