"""C05 — automatic discovery never reports a signature the function cannot honour."""
import functools
import itertools

import sigtools
from sigtools import signatures as PS

from core import name_of
import discovery as D
import programs as PG
import discheck as DC
from props import c06 as C06

LEVEL = 'proof'

# taints that, placed before the forwarding call, oblige discovery not to
# advertise the callee's parameters reachable through that star
MUST_HIDE = {
    'kwargs': {'rebind', 'augassign', 'mutate_method', 'mutate_item', 'pass_on', 'nonlocal', 'inline', 'shadow'},
    'args': {'rebind', 'augassign', 'nonlocal', 'shadow'},
}


def input_names(p):
    names = {name_of(q[0]) for q in p.outer}
    for ps in p.callees.values():
        names |= {name_of(q[0]) for q in ps}
    names |= {'self', 'fparam'}
    return names


def run_call(ns, obj, shape, p):
    """None when some choice of the program's own star arguments lets the call
    run without TypeError for both branch flags; else the TypeError text."""
    vas, vks = DC.own_choices(p)
    last = None
    for flag in (True, False):
        ok = False
        for va in vas:
            for vk in vks:
                g = ns
                g['OWN_ARGS'], g['OWN_KWARGS'], g['OWN_FLAG'] = va, vk, flag
                n, ks = shape
                try:
                    obj(*([0] * n), **{k: 0 for k in ks})
                    ok = True
                except TypeError as e:
                    last = str(e)
                except Exception:  # noqa: BLE001
                    # e.g. a name deleted by the taint statement: not a binding error
                    ok = True
                if ok:
                    break
            if ok:
                break
        if not ok:
            return last or 'TypeError'
    return None


def per_call_sigs(p, ns):
    """forwards() of each written forwarding call (public algebra)"""
    fn, obj = DC.wrapper_function(p, ns)
    own = PS.signature(fn)
    out = []
    for c in p.calls:
        uva, uvk, ha, hk = c.flags(p.va_name is not None, p.vk_name is not None)
        if not (uva or uvk) or getattr(c, 'unresolvable', False):
            continue
        try:
            cs = sigtools.signature(DC.callee_object(p, ns, c.callee))
            out.append(PS.forwards(own, cs, c.n, *[name_of(k) for k in c.names],
                                   use_varargs=uva, use_varkwargs=uvk, hide_args=ha, hide_kwargs=hk,
                                   partial=c.partial))
        except ValueError:
            pass
    return out


def hidden_named_pok(p):
    """some forwarding call forwards *args, has hide_kwargs (a non-pristine **
    argument) and names a positional-or-keyword parameter of its callee"""
    for c in p.calls:
        uva, uvk, ha, hk = c.flags(p.va_name is not None, p.vk_name is not None)
        if uva and hk and c.names:
            pk = {q[0] for q in p.callees[c.callee] if q[1] == 'PK'}
            if set(c.names) & pk:
                return True
    return False


def roles_consistent(sigs):
    """every shared name denotes the same kind of parameter at the same
    positional index in all signatures (the side condition of C01)"""
    roles = []
    for s in sigs:
        r = {}
        idx = 0
        for q in s.parameters.values():
            pos = q.kind in (q.POSITIONAL_ONLY, q.POSITIONAL_OR_KEYWORD)
            r[q.name] = (q.kind, idx if pos else -1)
            if pos:
                idx += 1
        roles.append(r)
    for a, b in itertools.combinations(roles, 2):
        for name in set(a) & set(b):
            if a[name] != b[name]:
                return False
    return True


def check_program(p, rep, idx):
    viol = []
    ns = PG.load_module(p.source)
    try:
        fn, obj = DC.wrapper_function(p, ns)
        got = DC.get_sig(obj)
        if got[0] == 'err':
            viol.append(('C05:raises', 'sigtools.signature(wrapper) raised %s' % got[1], None))
            return viol
        sig = got[1]
        plain = PS.signature(obj)
        md = DC.model_discover(p, ns)
        if md['visitor_model'] != md['visitor_impl']:
            rep.corr_break('CallListerVisitor', p.source, md['visitor_model'], md['visitor_impl'])
        if md.get('final_raw') is not None:
            ia = C06.impl_autoforwards(p, ns)
            raw = md['final_raw']
            ma = 'UNKNOWN' if raw == 'UNKNOWN' else C06.canon_desc(D.parse_sig_line(raw))
            if ma != ia:
                rep.corr_break('forward_signatures+merge', p.source, str(ma), str(ia))
        is_plain = DC.canon_params(sig) == DC.canon_params(plain)
        if not is_plain:
            rep.distinct.add(idx)
            # (1) soundness against real execution
            names = input_names(p)
            extra = sorted(names | {'zz'})
            shapes = DC.shapes_for_exec(sig, [])
            kwable = [q.name for q in sig.parameters.values()
                      if q.kind in (q.POSITIONAL_OR_KEYWORD, q.KEYWORD_ONLY)]
            has_vk = any(q.kind == q.VAR_KEYWORD for q in sig.parameters.values())
            if has_vk:
                shapes += [(n, ks + ('zz',)) for (n, ks) in list(shapes)]
            nexec = 0
            # a tainted star is a value of the program's own making (angelic
            # reading): what the callee then receives cannot be decided by running
            # the value-preserving taint statements of the generator
            if p.taint or any(c.own_va or c.own_vk for c in p.calls):
                shapes = []
            for shape in shapes:
                if not DC.binds(sig, shape) or not DC.noncolliding(sig, shape, names):
                    continue
                # a star combined with another star argument is a value of the
                # program's own making: only calls that leave it empty are decided
                outer_npos = len([q for q in p.outer if q[1] in ('PO', 'PK')])
                outer_kw = {name_of(q[0]) for q in p.outer if q[1] in ('PK', 'KO')}
                if any(c.vk and c.own_vk for c in p.calls) and set(shape[1]) - outer_kw:
                    continue
                if any(c.va and c.own_va for c in p.calls) and shape[0] > outer_npos:
                    continue
                nexec += 1
                err = run_call(ns, obj, shape, p)
                if err is not None:
                    explicit = {name_of(k) for c in p.calls for k in c.names}
                    for c in p.calls:
                        pos = [q for q in p.callees[c.callee] if q[1] in ('PO', 'PK')]
                        explicit |= {name_of(q[0]) for q in pos[:c.n]}
                    if ('multiple values for' in err and set(shape[1]) & explicit
                            and len(p.calls) > 1):
                        viol.append(('C05:bound-parameter-reaccepted',
                                     'signature %s accepts call npos=%d kws=%s, but one of the forwarding calls already binds %s with its literal arguments: %s'
                                     % (sig, shape[0], list(shape[1]), sorted(set(shape[1]) & explicit), err), list(shape)))
                        break
                    if 'multiple values' in err and hidden_named_pok(p):
                        viol.append(('C05:hide-kwargs-named-pok',
                                     'signature %s accepts call npos=%d kws=%s: a forwarding call names a positional-or-keyword callee parameter explicitly while hide_kwargs applies, yet *args still reaches it: %s'
                                     % (sig, shape[0], list(shape[1]), err), list(shape)))
                        break
                    if (shape[0] > 0 and shape[1] and len(p.calls) > 1
                            and not roles_consistent(per_call_sigs(p, ns))):
                        viol.append(('C05:role-inconsistent-merge',
                                     'signature %s accepts the mixed call npos=%d kws=%s but the forwarding calls give a shared name different roles: %s'
                                     % (sig, shape[0], list(shape[1]), err), list(shape)))
                        break
                    viol.append(('C05:unsound',
                                 'signature %s accepts call npos=%d kws=%s but executing it raises TypeError: %s'
                                 % (sig, shape[0], list(shape[1]), err), list(shape)))
                    break
            rep.coverage['executed_calls'] = rep.coverage.get('executed_calls', 0) + nexec
            # (2) tainted star: the callee's parameters behind it are not advertised
            if p.taint and p.taint[2] in ('before', 'comp_iter') and p.taint[0] in MUST_HIDE[p.taint[1]]:
                star = p.taint[1]
                outer_names = {name_of(q[0]) for q in p.outer} | {'self', 'fparam'}
                for q in sig.parameters.values():
                    if q.name in outer_names:
                        continue
                    bad = False
                    if star == 'kwargs' and q.kind in (q.KEYWORD_ONLY, q.VAR_KEYWORD, q.POSITIONAL_OR_KEYWORD):
                        bad = True
                    if star == 'args' and q.kind in (q.POSITIONAL_ONLY, q.VAR_POSITIONAL, q.POSITIONAL_OR_KEYWORD):
                        bad = True
                    if bad and p.taint[0] == 'inline' and p.context in ('nested_def', 'lambda', 'nested_decoy', 'lambda_decoy'):
                        # known finding: a mutation inside a nested function / lambda never
                        # reaches the enclosing scope's marker
                        viol.append(('C05:nested-scope-mutation',
                                     '%s is mutated inside a nested function or lambda that runs before another forwarding call, yet callee parameter %r (%s) is advertised in %s'
                                     % (star, q.name, q.kind.name, sig), None))
                        break
                    if bad:
                        viol.append(('C05:advertised-after-taint',
                                     '%s is %s before the call, yet callee parameter %r (%s) is advertised in %s'
                                     % (star, p.taint[0], q.name, q.kind.name, sig), None))
                        break
        return viol
    finally:
        PG.unload(ns)


def run(ctx, rep):
    rng = ctx.rng('gen')
    n1, n2 = (450, 450) if ctx.quick else (4000, 4000)
    progs = PG.gen_programs(rng, n1, tainted=False) + PG.gen_programs(rng, n2, tainted=True)
    progs += PG.gen_programs(ctx.rng('unres2'), 150 if ctx.quick else 1500, tainted=False, second_unresolvable=True)
    # a dispatcher between wrapper and callee, called with a run-time-only positional argument BEFORE two
    # known callables (it calls the first): the known values keep their positions in the callee's own analysis
    progs += PG.gen_programs(ctx.rng('pick'), 120 if ctx.quick else 1000, tainted=False, routes=['chain_pick', 'chain_pick', 'chain_pos'])
    rep.rule = ('programs of the forwarding grammar, half of them with a taint statement (rebind, augmented assignment, '
                'method/item mutation, del, handing over, nonlocal capture, aliasing read) placed before or after the call; '
                'every program is really executed on every call shape its reported signature accepts '
                '(all positional counts x all keyword subsets, non-colliding), for both branch flags and, where the program '
                'passes star arguments of its own, for some choice of them (angelic reading of hidden arguments); '
                'non-trivial = the reported signature differs from plain retrieval')
    hist = {}
    for idx, p in enumerate(progs):
        key = '%s/%s/%s' % (p.route, p.context, p.taint[0] + ':' + p.taint[2] if p.taint else 'untainted')
        hist[key] = hist.get(key, 0) + 1
        for k, what, shape in check_program(p, rep, idx):
            rep.violation(k, what + '\n' + p.source,
                          {'kind': 'program', 'source': p.source, 'prog': p.describe(), 'shape': shape})
        rep.evaluations += 1
        if idx in (0, 1, n1, n1 + 1):
            rep.sample({'program': p.source, 'ground_truth': p.describe()})
    rep.coverage['programs'] = len(progs)
    rep.coverage['calls_with_literals_after_star'] = sum(1 for p in progs for c in p.calls if c.tail)
    # ---- fixed witnesses: a nested def / class statement that shadows the global callee ----
    for label, src in SHADOW_WITNESSES:
        rep.evaluations += 1
        what = shadow_witness(src)
        if what:
            rep.violation('C05:nested-def-shadows-callee', what + '\n' + src, {'kind': 'shadow-witness', 'label': label, 'source': src})
    rep.coverage['distribution'] = dict(sorted(hist.items())[:400])
    # ---- the grammar of Model/Exec.v (theorems C05_walker_is_absint, C05_flag_sound) ----
    import execcheck
    stats, bad = execcheck.run(ctx.rng('exec').randrange(10 ** 6), 300 if ctx.quick else 3000)
    rep.coverage.update(stats)
    rep.evaluations += stats['exec_programs']
    # ---- nested scopes holding forwarding calls (Model/ExecNested.v, theorem C05_flags_sound_nested) ----
    nstats, nbad = execcheck.run_nested(ctx.rng('execn').randrange(10 ** 6), 200 if ctx.quick else 2000)
    rep.coverage.update(nstats)
    rep.evaluations += nstats['nested_programs']
    bad = bad + nbad
    for b in bad:
        if b['kind'] == 'flags' and b.get('concrete'):
            c = b['concrete']
            rep.violation('C05:flag-unsound', c['problem'] + '\n' + c['source'],
                          {'kind': 'exec-grammar', 'program': b['program'], 'source': c['source'], 'site': c['site']})
        else:
            rep.corr_break('exec-grammar ' + b['kind'], b['program'] + ' / ' + b.get('source', ''),
                           b.get('model_flags', b.get('model_tree', b.get('problem'))),
                           b.get('impl_flags', b.get('real_tree', b.get('real_paths'))))
    # ---- compound statement contexts: try / with / comprehensions (Model/ExecTry.v: C05_flags_sound_try, C05_visitor_flags_t_absint) ----
    import execcheck_try
    tstats, tbad = execcheck_try.run_try(ctx.rng('exect').randrange(10 ** 6), 100 if ctx.quick else 1000)
    rep.coverage.update(tstats)
    rep.evaluations += tstats['try_programs']
    for b in tbad:
        if b['kind'] == 'try-flags' and b.get('concrete'):
            c = b['concrete']
            rep.violation('C05:flag-unsound', c['problem'] + '\n' + c['source'],
                          {'kind': 'exec-try-grammar', 'prog': b['prog'], 'program': b['program'], 'source': c['source'], 'site': c['site']})
        else:
            rep.corr_break('exec-try-grammar ' + b['kind'], b['program'] + ' / ' + b.get('source', ''),
                           b.get('model_flags', b.get('model_tree', b.get('problem'))),
                           b.get('impl_flags', b.get('real_tree', b.get('run'))))
    # ---- for loops on top of the compound contexts (Model/ExecLoop.v: C05_loop_flags_sound_loop_partial / _refuted) ----
    import execcheck_loop
    lstats, lbad = execcheck_loop.run_loop(ctx.rng('execl').randrange(10 ** 6), 100 if ctx.quick else 1000)
    rep.coverage.update(lstats)
    rep.evaluations += lstats['loop_programs']
    for b in lbad:
        if b['kind'] == 'loop-exec' and str(b.get('problem', '')).startswith('loop_stable program'):
            # a really executed call site flagged *use* whose callee received something else
            rep.violation('C05:flag-unsound', b['problem'] + '\n' + b['source'],
                          {'kind': 'exec-loop-grammar', 'prog': b['prog'], 'program': b['program'], 'source': b['source']})
        elif b['kind'] in ('loop-flags', 'loop-exec') and b.get('concrete'):
            c = b['concrete']
            rep.violation('C05:flag-unsound', c['problem'] + '\n' + c['source'],
                          {'kind': 'exec-loop-grammar', 'prog': b['prog'], 'program': b['program'], 'source': c['source'], 'site': c.get('site')})
        else:
            rep.corr_break('exec-loop-grammar ' + b['kind'], b['program'] + ' / ' + b.get('source', ''),
                           b.get('model_flags', b.get('model_tree', b.get('problem'))),
                           b.get('impl_flags', b.get('real_tree', b.get('run'))))
    rep.assumptions = [
        'star arguments that are not the pristine *args/**kwargs are values chosen by the program (angelic): a call counts as honoured when some choice of them lets it run',
        'loops are outside the property\'s grammar: the statement-grammar run (Model/ExecLoop.v) explores for loops against the model, where unsound flags on loop bodies that are not fixed points are the expected, refuted case; async def, except-as, import-as, match captures and class bodies are not generated',
        'callee and decoy bodies do nothing, so every TypeError raised by an execution is an argument-binding error',
        'Model/Exec.v: a dict method call on **kwargs and handing **kwargs to other code MAY mutate it (over-approximation); '
        'the execution comparison is therefore one-directional: wherever the model says untouched, the real callee receives the untouched object',
    ]


SHADOW_WITNESSES = [
    ('def', """def callee(x, y=2):
    return None
def wrapper(*args, **kwargs):
    def callee(p, q):
        return None
    return callee(*args, **kwargs)
"""),
    ('class', """def callee(x, y=2):
    return None
def wrapper(*args, **kwargs):
    class callee(object):
        def __init__(self, p, q):
            pass
    return callee(*args, **kwargs)
"""),
]


def shadow_witness(src):
    """a `def` / `class` statement in the wrapper's body binds the name the forwarding call uses: the
    call goes to the local object, not to the global of that name.  Returns the description of a call
    the advertised signature accepts and whose execution raises TypeError, or None."""
    ns = PG.load_module(src, tag='shadow')
    try:
        w = ns['wrapper']
        got = DC.get_sig(w)
        if got[0] == 'err':
            return 'sigtools.signature(wrapper) raised %s' % got[1]
        sig = got[1]
        names = {'x', 'y', 'p', 'q', 'args', 'kwargs', 'self'}
        for shape in DC.shapes_for_exec(sig, []):
            if not DC.binds(sig, shape) or not DC.noncolliding(sig, shape, names):
                continue
            err = DC.execute(ns, w, shape)
            if err is not None:
                return ('signature %s accepts call npos=%d kws=%s but executing it raises TypeError: %s (the name callee is '
                        'bound by a nested def/class statement in the body; the call does not go to the global callee)'
                        % (sig, shape[0], list(shape[1]), err))
        return None
    finally:
        PG.unload(ns)


def replay(ctx, data):
    r = data['replay']
    if r.get('kind') == 'shadow-witness':
        return shadow_witness(r['source'])
    if r.get('kind') == 'exec-loop-grammar':
        import execcheck_loop
        return execcheck_loop.replay_loop(r['prog'])
    if r.get('kind') == 'exec-try-grammar':
        import execcheck_try
        return execcheck_try.replay_try(r['prog'])
    if r.get('kind') == 'exec-grammar':
        import ast
        import execcheck
        prog = execcheck.prog_from_coq(r['program'])
        src0, _ = execcheck.render(prog, execcheck.paths_block(prog)[0])
        try:
            fi = execcheck.impl_flags(ast.parse(src0).body[0])
        except Exception as e:  # noqa: BLE001
            return 'walker raised ' + type(e).__name__
        c = execcheck.impl_flag_violation(prog, fi)
        return (c['problem'] + '\n' + c['source']) if c else None
    p = C06.prog_from_description(r['prog'], r['source'])
    if r['prog'].get('taint'):
        p.taint = tuple(r['prog']['taint'])

    class _R(object):
        def __init__(self):
            self.distinct = set()
            self.coverage = {}

        def corr_break(self, *a):
            pass
    v = check_program(p, _R(), 0)
    return v[0][1] if v else None


KNOWN_WITNESS = '''import functools, contextlib
OWN_ARGS = ()
OWN_KWARGS = {}
OWN_FLAG = True
def decoy(*a_, **k_):
    return None
def callee(x=1, **kwargs):
    return None
def wrapper(a=1, **kwargs):
    if OWN_FLAG:
        return callee(**kwargs)
    return callee(x=200, **kwargs)
'''


ROLE_WITNESS = '''OWN_ARGS = ()
OWN_KWARGS = {}
OWN_FLAG = True
def callee2(y, *args, x=1):
    return None
def callee(y=1, *args, x):
    return None
def wrapper(*args, **kwargs):
    callee(*args, **kwargs)
    return callee2(**kwargs)
'''


HIDE_WITNESS = '''OWN_KWARGS = {}
def callee(y=1, /, x=1, *args):
    return None
def wrapper(a=1, *args, **kwargs):
    return callee(*args, x=200, **kwargs, **OWN_KWARGS)
'''


NESTED_WITNESS = '''def callee(x, *, z):
    return None
def wrapper(**kwargs):
    def helper():
        kwargs['q'] = 1
    helper()
    return callee(1, **kwargs)
'''


def replay_known(ctx, k):
    if k.get('key') == 'C05:nested-def-shadows-callee':
        return any(shadow_witness(src) for _, src in SHADOW_WITNESSES)
    if k.get('key') == 'C05:nested-scope-mutation':
        ns = PG.load_module(NESTED_WITNESS)
        try:
            w = ns['wrapper']
            sig = sigtools.signature(w)
            try:
                sig.bind(z=2)
            except TypeError:
                return False
            try:
                w(z=2)
            except TypeError:
                return True
            return False
        finally:
            PG.unload(ns)
    if k.get('key') == 'C05:hide-kwargs-named-pok':
        ns = PG.load_module(HIDE_WITNESS)
        try:
            w = ns['wrapper']
            sig = sigtools.signature(w)
            try:
                sig.bind(0, 0, 0)
            except TypeError:
                return False
            try:
                w(0, 0, 0)
            except TypeError:
                return True
            return False
        finally:
            PG.unload(ns)
    if k.get('key') == 'C05:role-inconsistent-merge':
        ns = PG.load_module(ROLE_WITNESS)
        try:
            w = ns['wrapper']
            sig = sigtools.signature(w)
            try:
                sig.bind(0, x=0, y=0)
            except TypeError:
                return False
            try:
                w(0, x=0, y=0)
            except TypeError:
                return True
            return False
        finally:
            PG.unload(ns)
    if k.get('key') != 'C05:bound-parameter-reaccepted':
        return True
    ns = PG.load_module(KNOWN_WITNESS)
    try:
        w = ns['wrapper']
        sig = sigtools.signature(w)
        try:
            sig.bind(x=0)
        except TypeError:
            return False
        ns['OWN_FLAG'] = False
        try:
            w(x=0)
        except TypeError:
            return True
        return False
    finally:
        PG.unload(ns)
