"""C14 — returned signatures/parameters are drop-in inspect.Signature / inspect.Parameter objects.

Structure (BUILDER_GUIDE): for every generated case
 (a) the implementation's answer,
 (b) the model's answer (coq/theories/Model/Eq.v evaluated inside Coq with vm_compute),
 and the property decided directly on the implementation's answer (CPython's own
 inspect.Signature built from the same data is the oracle).

Sections
 P  the model of Python's comparison protocol (richcmp) against CPython with ad-hoc classes
 E  == / != / hash on signatures x menagerie          (model: py_eq, py_ne, hashable)
 Q  == / != / hash on parameters x menagerie          (model: ppy_eq, ppy_ne, p_hash)
 B  str / bind / bind_partial on all call shapes      (oracle: plain inspect.Signature; model: sig_accepts)
 R  replace() of every field, signatures and parameters (model: usig_replace, uparam_replace)
 G  twin namespaces: one source executed twice, unevaluable postponed annotations, module-level
    objects whose == does not answer a bool (built pairs and real retrievals, both with the model)
 H  annotation values whose own == does not answer a bool (harness only; oracle: the plain counterparts)
Every comparison runs with warnings escalated to errors (python -W error, sigtools' pytest.ini).
"""
import importlib.util
import inspect
import itertools
import os
import re
import shutil
import sys
import tempfile
import warnings
from concurrent.futures import ThreadPoolExecutor

import core
from core import (universe, id_of_name, name_of, fn_of, id_of_fn, KINDS, KIND_NAMES, S)
import coqrun
from coqrun import coq_eval, parse_nat_list

LEVEL = 'proof'
P = inspect.Parameter
UP = S.UpgradedParameter
US = S.UpgradedSignature
EMPTY_AID = 1          # identity of the EmptyAnnotation singleton in the model

PREAMBLE = '''From Sigtools.Model Require Import Eq.
Open Scope N_scope.
Fixpoint bad_idx {A} (f : A -> bool) (i : nat) (l : list A) : list nat :=
  match l with [] => [] | x :: l' => if f x then bad_idx f (S i) l' else i :: bad_idx f (S i) l' end.
Definition z1 := fun _ : N => 0.
Definition zk := fun _ : kind => 0.
Definition zv := fun _ : option N => 0.
Definition zl := fun _ : list N => 0.
Definition s_hashable := hashable std_vhash_ok z1 zk zv zl zl.
Definition p_hashable (p : pobj) := match p_hash std_vhash_ok z1 zk zv zl p with Some _ => true | None => false end.
Definition ok_eq (c : env * sany * sany * (out * out * out * out)) : bool :=
  let '(e, a, b, (o1, o2, o3, o4)) := c in
  out_eqb (py_eq e a b) o1 && out_eqb (py_eq e b a) o2 && out_eqb (py_ne e a b) o3 && out_eqb (py_ne e b a) o4.
Definition ok_peq (c : env * pany * pany * (out * out * out * out)) : bool :=
  let '(e, a, b, (o1, o2, o3, o4)) := c in
  out_eqb (ppy_eq e a b) o1 && out_eqb (ppy_eq e b a) o2 && out_eqb (ppy_ne e a b) o3 && out_eqb (ppy_ne e b a) o4.
Definition ok_shash (c : sobj * bool) : bool := Bool.eqb (s_hashable (fst c)) (snd c).
Definition ok_phash (c : pobj * bool) : bool := Bool.eqb (p_hashable (fst c)) (snd c).
Definition ok_bind (c : sobj * list (nat * list N * bool)) : bool :=
  forallb (fun x => let '(n, ks, r) := x in Bool.eqb (sig_accepts (fst c) (mkCall n ks)) r) (snd c).
Definition ok_srepl (c : sobj * sreplace * list N) : bool :=
  let '(s, r, want) := c in
  match s with Upgraded _ d x => listN_eqb (enc_res enc_sobj (usig_replace 0 d x r)) want | _ => false end.
Definition ok_prepl (c : pobj * preplace * list N) : bool :=
  let '(p, r, want) := c in
  match p with PUpgraded _ d x => listN_eqb (enc_res enc_pobj (uparam_replace 0 d x r)) want | _ => false end.
Definition cls_of (n : N) : cls := match n with 0 => CObject | 1 => CSig | 2 => CUSig | 3 => CParam | _ => CUParam end.
Definition ok_proto (c : N * N * bool * out * out * out * out) : bool :=
  let '(cv, cw, same, ovw, owv, weq, wne) := c in
  let cl := fun x : N => if N.eqb x 0 then cls_of cv else cls_of cw in
  let ident := fun x : N => if same then 0 else x in
  let slot := fun x y : N => if N.eqb x 0 then ovw else owv in
  out_eqb (richcmp cl ident slot (fun s => s) 0 1) weq
  && out_eqb (richcmp cl ident (fun x y => ne_of_eq (slot x y)) negb 0 1) wne.
'''

# ------------------------------------------------------------------ values
_STRS = []
_STR_ID = {}
_OBJS = []


def py_val(v):
    """interned value -> Python object (None = the `empty` marker)"""
    if v is None:
        return P.empty
    if v == 0:
        return None
    if 800 <= v < 900:
        return [v]                      # unhashable, compares by value
    if 5000 <= v < 6000:
        return _STRS[v - 5000]
    if v >= 6000:
        return _OBJS[v - 6000]
    return v


def _viol(rep, key, what, data):
    """replay data carries the string table so that interned ids stay meaningful"""
    rep.violation(key, what, dict(data, strs=list(_STRS)))


def intern_str(s):
    if s not in _STR_ID:
        _STR_ID[s] = 5000 + len(_STRS)
        _STRS.append(s)
    return _STR_ID[s]


def intern_val(o):
    if o is P.empty:
        return None
    if o is None:
        return 0
    if isinstance(o, int) and not isinstance(o, bool) and 0 < o < 800:
        return o
    if isinstance(o, list) and len(o) == 1 and isinstance(o[0], int) and 800 <= o[0] < 900:
        return o[0]
    if isinstance(o, str):
        return intern_str(o)
    for i, x in enumerate(_OBJS):
        if x is o:
            return 6000 + i
    _OBJS.append(o)
    return 6000 + len(_OBJS) - 1


# postponed annotation texts that are legal to write but raise when evaluated
RAW_TEXT = {20: '1/0',                          # ZeroDivisionError
            21: 'a b',                          # SyntaxError at eval()
            22: '{}["k"]',                      # KeyError
            23: 'int | "Tree"',                 # TypeError
            24: 'c14_boom()',                   # user-defined exception
            25: '__import__("typing").Optional[int, str]',   # TypeError
            26: 'None.missing'}                 # AttributeError
RAW_OF_TEXT = {v: k for k, v in RAW_TEXT.items()}
BAD_RAWS = sorted(RAW_TEXT)


class C14Boom(Exception):
    pass


def c14_boom():
    raise C14Boom('annotation evaluation failed')


for _o in (0, False, 0.0):
    intern_val(_o)


def raw_str(raw):
    """raw id of a postponed annotation -> the string that gets eval()ed"""
    if raw in RAW_TEXT:
        return RAW_TEXT[raw]
    if 5000 <= raw < 6000:
        return _STRS[raw - 5000]
    return 'T%d' % raw


# evaluation environment of the generated functions 100..103: name T<raw> in
# the function's globals.  T3 resolves nowhere; T2 differs between functions.
GEN_ENV = {(100, 1): 11, (100, 2): 12, (101, 1): 11, (101, 2): 11, (102, 1): 11, (102, 2): 12,
           (100, 4): 0, (101, 4): 12}
for _r in range(1, 10):
    intern_str('T%d' % _r)
for (_f, _r), _v in GEN_ENV.items():
    fn_of(_f).__globals__['T%d' % _r] = py_val(_v)
for _f in (100, 101, 102, 103):
    fn_of(_f).__globals__['c14_boom'] = c14_boom
for _t in RAW_TEXT.values():
    intern_str(_t)
intern_str('')

_GLOB_IDS = {}
_KEEP = []


def glob_id(fid):
    g = fn_of(fid).__globals__
    if id(g) not in _GLOB_IDS:
        _GLOB_IDS[id(g)] = 700000 + len(_GLOB_IDS)
        _KEEP.append(g)
    return _GLOB_IDS[id(g)]


# ------------------------------------------------------------------ descriptions
# annotation object: {'aid': int, 'u': ('E',)|('P', v)|('D', raw, fid)}
# parameter: {'id', 'up', 'name', 'kind', 'def', 'ann', 'ua': annotation object, 'srcs': [fid], 'deps': {fid: depth}, 'fn': fid|None}
# signature: {'id', 'up', 'params': [...], 'ret', 'ur': annotation object, 'srcs': {name_id: [fid]}, 'deps': {fid: depth}|None}
# foreign:   {'id', 'foreign': kind}
_NEXT = [10]


def fresh():
    _NEXT[0] += 1
    return _NEXT[0]


def A(u):
    u = tuple(u)
    if u[0] == 'E':
        return {'aid': EMPTY_AID, 'u': ('E',)}
    return {'aid': fresh(), 'u': u}


def mkp(name, kind, de=None, an=None, ua=('E',), up=True, srcs=(), deps=None, fn=None):
    return {'id': fresh(), 'up': up, 'name': id_of_name(name) if isinstance(name, str) else name,
            'kind': kind, 'def': de, 'ann': an, 'ua': A(ua) if not isinstance(ua, dict) else ua,
            'srcs': list(srcs), 'deps': dict(deps or {}), 'fn': fn}


def mks(params, ret=None, ur=('E',), up=True, srcs=None, deps=None):
    return {'id': fresh(), 'up': up, 'params': list(params), 'ret': ret,
            'ur': A(ur) if not isinstance(ur, dict) else ur,
            'srcs': dict(srcs or {}), 'deps': dict(deps or {})}


def copy_a(a):
    return dict(A(a['u']), falsy=True) if a.get('falsy') else A(a['u'])


def copy_p(p, up=None, **over):
    q = dict(p, id=fresh(), srcs=list(p['srcs']), deps=dict(p['deps']), ua=copy_a(p['ua']))
    if up is not None:
        q['up'] = up
    q.update(over)
    return q


def copy_s(s, up=None, share_params=False, param_up=None, **over):
    q = dict(s, id=fresh(), ur=copy_a(s['ur']), srcs={k: list(v) for k, v in s['srcs'].items()},
             deps=dict(s['deps']))
    if not share_params:
        q['params'] = [copy_p(p, up=param_up) for p in s['params']]
    else:
        q['params'] = list(s['params'])
    if up is not None:
        q['up'] = up
    q.update(over)
    return q


class Evil(object):
    def __init__(self, mode):
        self.mode = mode

    def __eq__(self, other):
        if self.mode == 'notimpl':
            return NotImplemented
        if self.mode == 'raise':
            raise RuntimeError('evil __eq__')
        return self.mode == 'true'

    __hash__ = object.__hash__

    def __repr__(self):
        return 'Evil(%r)' % self.mode


FOREIGN_KINDS = ['none', 'str', 'int', 'float', 'object', 'tuple', 'notimpl', 'true', 'false', 'raise',
                 # objects whose own __eq__ answers NotImplemented for a signature / parameter
                 'emptystr', 'bytes', 'list', 'dict', 'notimplemented', 'ellipsis', 'empty-marker', 'class',
                 'function', 'bound-arguments']
# the other level's objects: a parameter is foreign to a signature and vice versa
CROSS_KINDS = {'s': ['plain-parameter', 'upgraded-parameter'], 'p': ['plain-signature', 'upgraded-signature']}
FOREIGN_BEH = {'true': '(FConst true)', 'false': '(FConst false)', 'raise': 'FRaise'}


def foreign_kinds(level):
    return FOREIGN_KINDS + CROSS_KINDS[level]


def build_foreign(kind):
    if kind in ('notimpl', 'true', 'false', 'raise'):
        return Evil(kind)
    if kind == 'object':
        return object()
    if kind == 'list':
        return ['a', 1]
    if kind == 'dict':
        return {'a': 1}
    if kind == 'bound-arguments':
        return inspect.Signature([P('a', P.POSITIONAL_OR_KEYWORD, default=1)]).bind_partial()
    if kind == 'plain-parameter':
        return P('a', P.POSITIONAL_OR_KEYWORD, default=1, annotation=11)
    if kind == 'upgraded-parameter':
        return UP('a', P.POSITIONAL_OR_KEYWORD, default=1, annotation=11,
                  upgraded_annotation=S._PreEvaluatedAnnotation(11))
    if kind == 'plain-signature':
        return inspect.Signature([P('a', P.POSITIONAL_OR_KEYWORD)])
    if kind == 'upgraded-signature':
        return US([UP('a', P.POSITIONAL_OR_KEYWORD)])
    return {'none': None, 'str': '(a, b=1)', 'int': 0, 'float': 3.5, 'tuple': ('a', 1), 'emptystr': '',
            'bytes': b'(a)', 'notimplemented': NotImplemented, 'ellipsis': Ellipsis, 'empty-marker': P.empty,
            'class': inspect.Signature, 'function': c14_boom}[kind]


class FalsyAnn(S.UpgradedAnnotation):
    """a pre-evaluated annotation object whose truth value is False"""
    def __init__(self, value):
        self.value = value

    def source_value(self):
        return self.value

    def __bool__(self):
        return False

    def __repr__(self):
        return 'FalsyAnn(%r)' % (self.value,)


def build_uann(a, reg):
    key = ('a', a['aid'])
    if key in reg:
        return reg[key]
    u = a['u']
    if a.get('falsy'):
        o = FalsyAnn(py_val(u[1]))
    elif u[0] == 'E':
        o = S.EmptyAnnotation
    elif u[0] == 'P':
        o = S._PreEvaluatedAnnotation(py_val(u[1]))
    else:
        o = S._PostponedAnnotation(raw_str(u[1]), fn_of(u[2]))
    reg[key] = o
    return o


def build_param(p, reg):
    key = ('p', p['id'])
    if key in reg:
        return reg[key]
    if not p['up']:
        o = P(name_of(p['name']), KINDS[p['kind']], default=py_val(p['def']), annotation=py_val(p['ann']))
    else:
        o = UP(name_of(p['name']), KINDS[p['kind']], default=py_val(p['def']), annotation=py_val(p['ann']),
               upgraded_annotation=build_uann(p['ua'], reg),
               function=None if p['fn'] is None else fn_of(p['fn']),
               sources=[fn_of(f) for f in p['srcs']],
               source_depths={fn_of(int(f)): d for f, d in p['deps'].items()})
    reg[key] = o
    return o


def build_obj(d, reg):
    """description -> Python object (same id => same object)"""
    if 'real' in d:
        return resolve_real(d)
    if 'foreign' in d:
        key = ('f', d['id'])
        if key not in reg:
            reg[key] = build_foreign(d['foreign'])
        return reg[key]
    if 'params' not in d:
        return build_param(d, reg)
    key = ('s', d['id'])
    if key in reg:
        return reg[key]
    ps = [build_param(p, reg) for p in d['params']]
    with warnings.catch_warnings():
        warnings.simplefilter('ignore')
        if not d['up']:
            o = inspect.Signature(ps, return_annotation=py_val(d['ret']))
        else:
            srcs = {name_of(int(k)): [fn_of(f) for f in v] for k, v in d['srcs'].items()}
            srcs['+depths'] = {fn_of(int(f)): v for f, v in d['deps'].items()}
            o = US(ps, return_annotation=py_val(d['ret']),
                   upgraded_return_annotation=build_uann(d['ur'], reg), sources=srcs)
    reg[key] = o
    return o


# ---- describing real objects
_IDS = {}


def obj_id(o):
    if id(o) not in _IDS:
        _IDS[id(o)] = fresh()
        _KEEP.append(o)
    return _IDS[id(o)]


def describe_uann(u):
    if u is S.EmptyAnnotation or isinstance(u, S._EmptyAnnotation):
        return {'aid': EMPTY_AID, 'u': ('E',)}
    if isinstance(u, S._PreEvaluatedAnnotation):
        return {'aid': obj_id(u), 'u': ('P', intern_val(u._annotation))}
    if isinstance(u, S._PostponedAnnotation):
        raw = u._raw_annotation
        if raw in RAW_OF_TEXT:
            rid = RAW_OF_TEXT[raw]
        else:
            rid = int(raw[1:]) if (isinstance(raw, str) and raw[:1] == 'T' and raw[1:].isdigit()) else intern_str(raw)
        return {'aid': obj_id(u), 'u': ('D', rid, id_of_fn(u._function))}
    if isinstance(u, FalsyAnn):
        return {'aid': obj_id(u), 'u': ('P', intern_val(u.value)), 'falsy': True}
    raise ValueError('unknown upgraded annotation %r' % (u,))


def _desc(fn, r, bad):
    """describe a replace() result; a result whose extra slots are not even of the
    right shape is a violation of its own, not a harness crash"""
    try:
        return fn(r)
    except Exception as e:  # noqa: BLE001
        bad.append(('C14:replace-malformed', 'the result of replace cannot be described (%s: %s); slots: %r' % (
            type(e).__name__, e, {k: getattr(r, k, None) for k in ('sources', 'source_depths', 'upgraded_annotation', 'upgraded_return_annotation') if hasattr(r, k)})))
        return None


def describe_param(p):
    up = isinstance(p, UP)
    d = {'id': obj_id(p), 'up': up, 'name': id_of_name(p.name), 'kind': KIND_NAMES[p.kind],
         'def': intern_val(p.default), 'ann': intern_val(p.annotation),
         'ua': {'aid': EMPTY_AID, 'u': ('E',)}, 'srcs': [], 'deps': {}, 'fn': None}
    if up:
        d['ua'] = describe_uann(p.upgraded_annotation)
        d['srcs'] = [id_of_fn(f) for f in p.sources]
        d['deps'] = {id_of_fn(f): int(v) for f, v in p.source_depths.items()}
        d['fn'] = None if p._function is None else id_of_fn(p._function)
    return d


def describe_sig(s):
    up = isinstance(s, US)
    d = {'id': obj_id(s), 'up': up, 'params': [describe_param(p) for p in s.parameters.values()],
         'ret': intern_val(s.return_annotation), 'ur': {'aid': EMPTY_AID, 'u': ('E',)}, 'srcs': {}, 'deps': {}}
    if up:
        d['ur'] = describe_uann(s.upgraded_return_annotation)
        for k, v in s.sources.items():
            if k == '+depths':
                d['deps'] = {id_of_fn(f): int(x) for f, x in v.items()}
            else:
                d['srcs'][id_of_name(k)] = [id_of_fn(f) for f in v]
    return d


# ------------------------------------------------------------------ Coq terms
def cq_opt(v):
    return 'None' if v is None else '(Some %d)' % v


def cq_list(xs):
    return '[' + '; '.join(xs) + ']'


def cq_u(u):
    if u[0] == 'E':
        return 'UEmpty'
    if u[0] == 'P':
        return '(UPre %d)' % u[1]
    return '(UPost %d %d)' % (u[1], u[2])


def cq_a(a):
    return '(mkA %d %s)' % (a['aid'], cq_u(a['u']))


def cq_deps(deps):
    return cq_list(['(%d, %d)' % (int(f), d) for f, d in sorted((int(k), v) for k, v in deps.items())])


def cq_pd(p):
    return '(mkPD %d %s %s %s)' % (p['name'], p['kind'], cq_opt(p['def']), cq_opt(p['ann']))


def cq_px(p):
    return '(mkPX %s %s %s %s)' % (cq_a(p['ua']), cq_list([str(f) for f in p['srcs']]), cq_deps(p['deps']),
                                   cq_opt(p['fn']))


def cq_p(p):
    if not p['up']:
        return '(PPlain %d %s)' % (p['id'], cq_pd(p))
    return '(PUpgraded %d %s %s)' % (p['id'], cq_pd(p), cq_px(p))


def cq_srcmap(srcs):
    return cq_list(['(%d, %s)' % (k, cq_list([str(f) for f in v]))
                    for k, v in sorted((int(k), v) for k, v in srcs.items())])


def cq_sd(s):
    return '(mkSD %s %s)' % (cq_list([cq_p(p) for p in s['params']]), cq_opt(s['ret']))


def cq_s(s):
    if not s['up']:
        return '(Plain %d %s)' % (s['id'], cq_sd(s))
    return '(Upgraded %d %s (mkSX %s %s %s))' % (s['id'], cq_sd(s), cq_a(s['ur']), cq_srcmap(s['srcs']),
                                                 cq_deps(s['deps']))


def cq_any(d, level):
    if 'foreign' in d:
        return '(%s %d %s)' % ('Foreign' if level == 's' else 'PForeign', d['id'],
                               FOREIGN_BEH.get(d['foreign'], 'FNotImpl'))
    if level == 's':
        return '(SObj %s)' % cq_s(d)
    return '(PObj %s)' % cq_p(d)


def annots_of(d):
    if 'foreign' in d:
        return []
    if 'params' in d:
        out = [d['ur']] if d['up'] else []
        for p in d['params']:
            out += annots_of(p)
        return out
    return [d['ua']] if d['up'] else []


def cq_env(ds):
    """the part of the world the annotations of ds can see: observed by eval()"""
    vals, globs, seen = [], [], set()
    for d in ds:
        for a in annots_of(d):
            u = a['u']
            if u[0] != 'D' or (u[1], u[2]) in seen:
                continue
            seen.add((u[1], u[2]))
            f = fn_of(u[2])
            try:
                v = eval(raw_str(u[1]), f.__globals__, {})
            except Exception:  # noqa: BLE001
                pass
            else:
                vals.append('(%d, %d, %d)' % (u[2], u[1], intern_val(v)))
            g = '(%d, %d)' % (u[2], glob_id(u[2]))
            if g not in globs:
                globs.append(g)
    return '(mkEnv %s %s)' % (cq_list(vals), cq_list(globs))


def unresolvable(ds):
    for d in ds:
        for a in annots_of(d):
            u = a['u']
            if u[0] == 'D':
                try:
                    eval(raw_str(u[1]), fn_of(u[2]).__globals__, {})
                except Exception:  # noqa: BLE001
                    return True
    return False


OUT = {'T': 'Val true', 'F': 'Val false', 'R': 'Raise'}


# ------------------------------------------------------------------ showing
def show_u(a):
    u = a['u']
    return {'E': 'Empty'}.get(u[0]) or ('Pre(%s)' % u[1] if u[0] == 'P' else 'Post(%r in fn%d)' % (raw_str(u[1]), u[2]))


def show(d):
    if 'real' in d:
        return 'real:%s' % (d['real'],)
    if 'foreign' in d:
        return '<%s>' % d['foreign']
    if 'params' not in d:
        s = '%s:%s' % (name_of(d['name']), d['kind'])
        if d['ann'] is not None:
            s += ':%s' % d['ann']
        if d['def'] is not None:
            s += '=%s' % d['def']
        if d['up']:
            s = 'U[%s|%s|src%s]' % (s, show_u(d['ua']), d['srcs'])
        return s
    s = '(%s)->%s' % (', '.join(show(p) for p in d['params']), d['ret'])
    if d['up']:
        return 'USig#%d[%s|%s|%s]' % (d['id'], s, show_u(d['ur']), sorted(d['srcs'].items()))
    return 'Sig#%d[%s]' % (d['id'], s)


# ------------------------------------------------------------------ real retrieval
REAL_SRC_EAGER = '''
import functools
import sigtools
from sigtools import specifiers, modifiers, wrappers

def f0(a, b=2, *args, c, d=4, **kwargs): pass
def f1(a: 11, /, b: 12 = 1) -> 13: pass
def f2(x, *args, **kwargs):
    return f1(*args, **kwargs)
def f3(x, y=5, *, z: 11): pass
class K(object):
    def m(self, a, b: 11 = 3, *, c=5) -> 12: pass
    def fw(self, q, *args, **kwargs):
        return self.m(*args, **kwargs)
    @classmethod
    def cm(cls, u, v=1): pass
k = K()
p0 = functools.partial(f0, 1, c=7)
p1 = functools.partial(f3, y=2)
@functools.wraps(f1)
def w0(*args, **kwargs):
    return f1(*args, **kwargs)
@specifiers.forwards_to_function(f0)
def g0(z, *args, **kwargs):
    return f0(*args, **kwargs)
@modifiers.kwoargs('b')
def k0(a, b=3): pass
@modifiers.annotate(11, a=12)
def an0(a, b): pass
lam = lambda a, *r, k=1: None
NAMES = ['f0', 'f1', 'f2', 'f3', 'K.m', 'k.m', 'k.fw', 'K.cm', 'p0', 'p1', 'w0', 'g0', 'k0', 'an0', 'lam', 'K']
'''

REAL_SRC_POST = '''from __future__ import annotations
import typing
if typing.TYPE_CHECKING:
    from nowhere import Undefined, Nope
T1 = 11
T2 = 12
def h0(a: T1, b: T2 = 1) -> T1: pass
def h1(a: Undefined, b: T1 = 1) -> Nope: pass
def h2(x, *args, **kwargs):
    return h1(*args, **kwargs)
def h3(a: Undefined, *, c: Nope = None): pass
from typing import Optional
class Boom(Exception): pass
def boom():
    raise Boom('no')
def h4(node: int | "Tree", value: int = 0) -> int | "Tree": pass
def h4b(node: int | "Tree", value: int = 0) -> int | "Tree": pass
def h5(key: Optional[int, str], z: 1/0 = 1) -> boom(): pass
def h6(a: {}["k"], *args: None.missing, **kwargs: boom()): pass
def h7(x, *args, **kwargs):
    return h4(*args, **kwargs)
NAMES = ['h0', 'h1', 'h2', 'h3', 'h4', 'h4b', 'h5', 'h6', 'h7']
'''

# Twin namespaces: ONE source executed twice (a plugin loaded under two names, a module
# re-imported for test isolation, runpy, exec'd namespaces): two functions whose __globals__
# are DIFFERENT dicts with the same keys and equal values -- up to a module-level object whose
# own == does not answer a bool (raises, answers an object of ambiguous truth, or leads back to
# the signatures being compared).  The annotations cannot be evaluated (TYPE_CHECKING-only
# name), so the comparison has to decide without evaluating; whatever it looks at instead, it
# must answer a bool.  `mixed` also has an annotation that does evaluate.
class Ambiguous(object):
    """what an element-wise == returns (numpy arrays, pandas objects, SQL expressions)"""
    def __init__(self, items):
        self.items = list(items)

    def __bool__(self):
        raise ValueError('the truth value of an element-wise comparison is ambiguous')

    def __repr__(self):
        return 'Ambiguous(%r)' % (self.items,)


class Hostile(object):
    """a module-level constant whose == against its twin does not answer a bool"""
    def __init__(self, mode, *items):
        self.mode, self.items = mode, items

    def __eq__(self, other):
        if not isinstance(other, Hostile):
            return NotImplemented
        if self.mode == 'raise':
            raise ArithmeticError('hostile ==')
        return Ambiguous(a == b for a, b in zip(self.items, other.items))

    def __ne__(self, other):
        if not isinstance(other, Hostile):
            return NotImplemented
        if self.mode == 'raise':
            raise ArithmeticError('hostile !=')
        return Ambiguous(a != b for a, b in zip(self.items, other.items))

    __hash__ = object.__hash__

    def __repr__(self):
        return 'Hostile(%r)' % (self.mode,)


TWIN_HEAD = '''from __future__ import annotations
from typing import TYPE_CHECKING
if TYPE_CHECKING:
    from nowhere import Ctx
'''
TWIN_BODY = '''
def handler(request: Ctx, *args, scale: Ctx = None, **kwargs) -> Ctx: pass
def mixed(a: int, b: Ctx = 1) -> int: pass
def fwd(x, *args, **kwargs):
    return handler(*args, **kwargs)
NAMES = ['handler', 'mixed', 'fwd']
'''
TWIN_FAMILIES = [
    ('plain', TWIN_HEAD + 'LIMIT = 3\n' + TWIN_BODY),
    ('ambiguous', TWIN_HEAD + 'WEIGHTS = Hostile("ambiguous", 1.0, 2.0, 3.0)\n' + TWIN_BODY),
    ('raising', TWIN_HEAD + 'LIMIT = Hostile("raise")\n' + TWIN_BODY),
    ('snan', TWIN_HEAD + 'import decimal\nLIMIT = decimal.Decimal("sNaN")\n' + TWIN_BODY),
    ('registry', TWIN_HEAD + '''SIGNATURES = {}
def register(func):
    SIGNATURES[func.__name__] = signature(func)
    return func
''' + TWIN_BODY.replace('def handler', '@register\ndef handler').replace('def mixed', '@register\ndef mixed')),
]
TWIN_OF = {}           # module name -> the module name of its twin
TWIN_FN = {}           # function id -> the id of the same function in the twin namespace
TWIN_FIRST_FID = 110   # handler/mixed of family i, side j: 110 + 4*i + 2*j (+1 for mixed)


def load_twins(tmp):
    import sigtools
    import types
    out = {}
    for i, (fam, src) in enumerate(TWIN_FAMILIES):
        path = os.path.join(tmp, 'c14_twin_%s.py' % fam)
        with open(path, 'w') as f:
            f.write(src)
        names = []
        for j, side in enumerate('ab'):
            mod = types.ModuleType('c14_twin')          # the same __name__ on both sides
            mod.__dict__.update(Hostile=Hostile, signature=sigtools.signature)
            with warnings.catch_warnings():
                warnings.simplefilter('ignore')
                exec(compile(src, path, 'exec'), mod.__dict__)
            modname = 'c14_twin_%s_%s' % (fam, side)
            out[modname] = mod
            names.append(modname)
            for k, fname in enumerate(('handler', 'mixed')):
                core.register_fn(getattr(mod, fname), TWIN_FIRST_FID + 4 * i + 2 * j + k)
        TWIN_OF[names[0]], TWIN_OF[names[1]] = names[1], names[0]
        for k in (0, 1):
            fa, fb = TWIN_FIRST_FID + 4 * i + k, TWIN_FIRST_FID + 4 * i + 2 + k
            TWIN_FN[fa], TWIN_FN[fb] = fb, fa
    return out


def twin_pairs():
    """[(family, fid of handler in namespace a, fid of handler in namespace b)]"""
    real_modules()
    return [(fam, TWIN_FIRST_FID + 4 * i, TWIN_FIRST_FID + 4 * i + 2) for i, (fam, _) in enumerate(TWIN_FAMILIES)]


def twin_cases(raw, fa, fb):
    """[(level, a, b, label)]: the same unevaluable annotation `raw` written in function fa and
    in its twin fb (same source, another namespace)"""
    ann = intern_str(raw_str(raw))
    ua, ub = ('D', raw, fa), ('D', raw, fb)
    p = mkp('a', 'PK', None, ann, ua, srcs=[fa], deps={fa: 0}, fn=fa)
    k = mkp('c', 'KO', 0, ann, ua, srcs=[fa], deps={fa: 0}, fn=fa)

    def tw(q):
        return copy_p(q, ua=A(ub), srcs=[fb], deps={fb: 0}, fn=fb)
    out = [('p', p, copy_p(p, ua=A(ub)), 'only the namespace of the annotation differs'),
           ('p', p, tw(p), 'the twin parameter'),
           ('p', k, tw(k), 'the twin keyword-only parameter'),
           ('p', p, copy_p(p), 'a copy in the same namespace')]
    s = mks([p, k], ann, ua, srcs={p['name']: [fa], k['name']: [fa]}, deps={fa: 0})
    t_all = mks([tw(p), tw(k)], ann, ub, srcs={p['name']: [fb], k['name']: [fb]}, deps={fb: 0})
    t_par = copy_s(s)
    t_par['params'][1] = copy_p(k, ua=A(ub))
    bare = mks([mkp('a', 'PK', srcs=[fa], deps={fa: 0}, fn=fa)], ann, ua, srcs={p['name']: [fa]}, deps={fa: 0})
    out += [('s', s, copy_s(s, share_params=True, ur=A(ub)), 'only the namespace of the return annotation differs'),
            ('s', s, t_par, 'only the namespace of one parameter annotation differs'),
            ('s', s, t_all, 'the twin signature'),
            ('s', bare, copy_s(bare, ur=A(ub)), 'return annotation only, twin'),
            ('s', s, copy_s(s), 'a copy in the same namespace')]
    return out


# Section H (harness only, OUTSIDE the model's value domain): annotation VALUES whose own ==
# does not answer a bool -- element-wise comparing objects (numpy arrays, pandas objects, SQL
# expressions).  inspect.Parameter.__eq__ hands the result of the annotation comparison back
# without truth-testing it; the drop-in objects must answer what their plain counterparts
# answer (True / False / that object) whenever the plain counterparts answer without raising.
class Elementwise(object):
    def __init__(self, *items):
        self.items = items

    def __eq__(self, other):
        if not isinstance(other, Elementwise):
            return NotImplemented
        return Ambiguous(a == b for a, b in zip(self.items, other.items))

    def __ne__(self, other):
        if not isinstance(other, Elementwise):
            return NotImplemented
        return Ambiguous(a != b for a, b in zip(self.items, other.items))

    __hash__ = object.__hash__

    def __repr__(self):
        return 'Elementwise%r' % (self.items,)


class Expr(object):
    """== builds an expression object (truthy, not a bool), as SQL toolkits do"""
    def __init__(self, *items):
        self.items = items

    def __eq__(self, other):
        if not isinstance(other, Expr):
            return NotImplemented
        return Expr('==', self.items, other.items)

    def __ne__(self, other):
        if not isinstance(other, Expr):
            return NotImplemented
        return Expr('!=', self.items, other.items)

    __hash__ = object.__hash__

    def __repr__(self):
        return 'Expr%r' % (self.items,)


HOSTILE_SRC_EAGER = '''
import functools
from sigtools import modifiers, specifiers
SHAPE = Value(3, 4)
@modifiers.annotate(v=SHAPE)
def annotated(v, w=1): pass
@modifiers.annotate(SHAPE, w=Value(1))
def annotated_ret(v, w=1): pass
def eager(v: SHAPE, /, w: Value(1) = 1, *args: SHAPE, k: SHAPE = None, **kw: Value()) -> int: pass
def ret_only(a, b=2) -> SHAPE: pass
def one(v: SHAPE): pass
def fwd(x, *args, **kwargs):
    return eager(*args, **kwargs)
@specifiers.forwards_to_function(one)
def fwd2(y, *args, **kwargs): pass
class C:
    def meth(self, q: SHAPE, r=2): pass
c = C()
part = functools.partial(eager, 1)
NAMES = ['annotated', 'annotated_ret', 'eager', 'ret_only', 'one', 'fwd', 'fwd2', 'C.meth', 'c.meth', 'part']
'''

HOSTILE_SRC_POST = '''from __future__ import annotations
SHAPE = Value(3, 4)
def post(v: SHAPE, *, k: Value(5) = None) -> int: pass
def post_ret(a, b: int = 1) -> SHAPE: pass
def fwd(x, *args, **kwargs):
    return post(*args, **kwargs)
NAMES = ['post', 'post_ret', 'fwd']
'''

_HOSTILE = {}


def hostile_modules():
    if _HOSTILE:
        return _HOSTILE
    tmp = tempfile.mkdtemp(prefix='verif-c14-')
    _TMP.append(tmp)
    for cls_ in (Elementwise, Expr):
        for tag, src in (('eager', HOSTILE_SRC_EAGER), ('post', HOSTILE_SRC_POST)):
            modname = 'c14_hostile_%s_%s' % (tag, cls_.__name__.lower())
            path = os.path.join(tmp, modname + '.py')
            with open(path, 'w') as f:
                f.write(src)
            spec = importlib.util.spec_from_file_location(modname, path)
            mod = importlib.util.module_from_spec(spec)
            mod.Value = cls_
            sys.modules[modname] = mod
            with warnings.catch_warnings():
                warnings.simplefilter('ignore')
                spec.loader.exec_module(mod)
            _HOSTILE[modname] = mod
    return _HOSTILE


def hostile_names():
    out = [(modname, nm) for modname, mod in hostile_modules().items() for nm in mod.NAMES]
    return out + [('built', '%s:%s' % (c, nm)) for c in ('Elementwise', 'Expr') for nm in ('pre', 'post', 'falsy-free')]


def hostile_get(modname, nm):
    import sigtools
    if modname == 'built':
        cname, what = nm.split(':')
        V = {'Elementwise': Elementwise, 'Expr': Expr}[cname]
        f = fn_of(100)
        f.__globals__['c14_hostile_' + cname] = V
        v = V(3, 4)
        if what == 'pre':
            ps = [UP('a', P.POSITIONAL_OR_KEYWORD, annotation=v, upgraded_annotation=S._PreEvaluatedAnnotation(v),
                     function=f, sources=[f]),
                  UP('k', P.KEYWORD_ONLY, default=None, annotation=v, upgraded_annotation=S._PreEvaluatedAnnotation(v))]
            return US(ps, return_annotation=11, upgraded_return_annotation=S._PreEvaluatedAnnotation(11),
                      sources={'a': [f], '+depths': {f: 0}})
        if what == 'post':
            raw = 'c14_hostile_%s(3, 4)' % cname
            ps = [UP('a', P.POSITIONAL_ONLY, annotation=raw, upgraded_annotation=S._PostponedAnnotation(raw, f),
                     function=f, sources=[f])]
            return US(ps, sources={'a': [f], '+depths': {f: 0}})
        # plain data well-behaved, only the upgraded annotation is of the hostile kind
        ps = [UP('a', P.POSITIONAL_OR_KEYWORD, annotation=11, upgraded_annotation=S._PreEvaluatedAnnotation(v))]
        return US(ps, return_annotation=12, upgraded_return_annotation=S._PreEvaluatedAnnotation(V(1)))
    obj = hostile_modules()[modname]
    for part in nm.split('.'):
        obj = getattr(obj, part)
    with warnings.catch_warnings():
        warnings.simplefilter('ignore')
        return sigtools.signature(obj)


def _twin_value(v):
    """an equal-looking but distinct value of the hostile kinds"""
    if isinstance(v, (Elementwise, Expr)):
        return type(v)(*v.items)
    return v


def _plain_of(o, memo):
    """the plain counterpart, keeping the sharing of objects (the same object -> the same counterpart)"""
    if id(o) in memo:
        return memo[id(o)][1]
    if isinstance(o, inspect.Signature):
        r = inspect.Signature([_plain_of(p, memo) for p in o.parameters.values()], return_annotation=o.return_annotation)
    elif isinstance(o, inspect.Parameter):
        r = plain_param_of(o)
    else:
        r = o
    memo[id(o)] = (o, r)
    return r


def drop_in_bad(a, b, what):
    """(a, b) must answer what (plain(a), plain(b)) answer whenever those answer without raising"""
    memo = {}
    pa, pb = _plain_of(a, memo), _plain_of(b, memo)
    bad = []
    for lab, th, ref in (('a == b', lambda: a == b, lambda: pa == pb), ('b == a', lambda: b == a, lambda: pb == pa),
                         ('a != b', lambda: a != b, lambda: pa != pb), ('b != a', lambda: b != a, lambda: pb != pa)):
        want = cmp_out(ref)
        if want[0] == 'R':
            continue          # the plain inspect objects propagate the value's exception too
        got = cmp_out(th)
        if got[0] == want[0] or (want[0] == 'X' and got[0] in 'TF'):
            continue          # answering a bool where inspect hands back the value's own answer is fine
        if want[0] in 'TF' and got[0] in 'XR' and nonbool_upgraded_values(a, b):
            # the plain data compare as a bool (strings of postponed annotations, identical objects),
            # the values of the upgraded annotations do not
            bad.append(('C14:eq-nonbool-annotation-value', '%s: %s %s; the plain counterparts answer %s (the == of the '
                        'evaluated upgraded annotations does not answer a bool, and its answer is handed back / truth-tested)' % (
                            what, lab, 'raised ' + got[1] if got[0] == 'R' else got[1], want[0])))
        elif got[0] == ('F' if '==' in lab else 'T') and nonbool_upgraded_values(a, b):
            # hand-built objects whose plain data agree while the values of their upgraded annotations
            # cannot be compared (distinct objects whose == has no truth value): 'not equal' is a
            # legitimate answer -- upgraded objects that differ in the upgraded annotation only ARE unequal
            continue
        elif got[0] == 'R':
            bad.append(('C14:eq-raises', '%s: %s raised %s; the plain counterparts answer %s' % (
                what, lab, got[1], want[1] or want[0])))
        else:
            bad.append(('C14:eq-plain-counterpart', '%s: %s gave %s %s; the plain counterparts answer %s' % (
                what, lab, got[0], got[1] or '', want[1] or want[0])))
    return bad


def nonbool_upgraded_values(a, b):
    """do a and b carry, at the same place, upgraded annotations whose evaluated values' == is not a bool?"""
    if isinstance(a, US) and isinstance(b, US):
        pairs = [(a.upgraded_return_annotation, b.upgraded_return_annotation)]
        pairs += [(p.upgraded_annotation, b.parameters[n].upgraded_annotation) for n, p in a.parameters.items()
                  if isinstance(p, UP) and isinstance(b.parameters.get(n), UP)]
    elif isinstance(a, UP) and isinstance(b, UP):
        pairs = [(a.upgraded_annotation, b.upgraded_annotation)]
    else:
        return False
    for x, y in pairs:
        try:
            if type(x.source_value() == y.source_value()) is not bool:
                return True
        except Exception:  # noqa: BLE001
            pass
    return False


def decide_hostile(modname, nm):
    """Section H on one named object.  -> (n_checks, [(key, what)])"""
    x, y = hostile_get(modname, nm), hostile_get(modname, nm)
    what = 'sigtools.signature(%s.%s)' % (modname, nm) if modname != 'built' else 'built signature %s' % nm
    bad, n = [], 0
    for p in x.parameters.values():
        pw = '%s.parameters[%r] (annotation %r)' % (what, p.name, p.annotation)
        partners = [('itself', p), ('its plain counterpart', plain_param_of(p)),
                    ('a plain parameter with an equal-looking annotation',
                     P(p.name, p.kind, default=p.default, annotation=_twin_value(p.annotation))),
                    ('replace()', p.replace()),
                    ('replace(annotation=equal-looking)', p.replace(annotation=_twin_value(p.annotation))),
                    ('the same parameter of a second retrieval', y.parameters[p.name]),
                    ('replace(name=...)', p.replace(name='zz')),
                    ('None', None), ('a string', str(p))]
        for lab, b in partners:
            bad += drop_in_bad(p, b, '%s vs %s' % (pw, lab))
            n += 4
    partners = [('itself', x), ('its plain counterpart', plain_sig_of(x)), ('replace()', x.replace()),
                ('a plain signature over the same parameter objects',
                 inspect.Signature(list(x.parameters.values()), return_annotation=x.return_annotation)),
                ('replace(return_annotation=equal-looking)', x.replace(return_annotation=_twin_value(x.return_annotation))),
                ('a second retrieval', y), ('None', None)]
    for lab, b in partners:
        bad += drop_in_bad(x, b, '%s vs %s' % (what, lab))
        n += 4
    return n, bad


# Section F (harness only, OUTSIDE the model's value domain: the model interns
# evaluated annotations as numbers whose == is reflexive and stable): annotations
# whose value is not equal to a second evaluation of itself -- a postponed
# expression building a fresh object each time, or NaN.
FRESH_SRC_POST = '''from __future__ import annotations
import functools
class Marker:
    def __init__(self, **meta): self.meta = meta
def handler(item_id: Marker(gt=0), *, flag: Marker(alias='f') = False) -> Marker(status=200): pass
def ret_only(a, b=1) -> object(): pass
def par_only(a: object(), /, *args: Marker(), **kw: object()): pass
def fwd(x, *args, **kwargs):
    return handler(*args, **kwargs)
def nan_post(a: float('nan') = 1, *, k: float('nan')) -> float('nan'): pass
class C:
    def meth(self, q: Marker(lt=3), r=2) -> object(): pass
c = C()
part = functools.partial(handler, flag=True)
NAMES = ['handler', 'ret_only', 'par_only', 'fwd', 'nan_post', 'C.meth', 'c.meth', 'part']
'''

FRESH_SRC_EAGER = '''
NAN = float('nan')
def nan_eager(a: NAN, b: float('nan') = 2) -> NAN: pass
def nan_default(a=NAN, *, k: NAN = NAN): pass
class M:
    def meth(self, q: NAN) -> float('nan'): pass
m = M()
class NeverEqual:
    def __eq__(self, other): return False
    def __ne__(self, other): return True
    __hash__ = object.__hash__
NEVER = NeverEqual()
def nan_ret() -> NAN: pass
def nan_ret_params(a, b=2, *args, k=3, **kw) -> NAN: pass
def never_ret(a=1) -> NEVER: pass
NAMES = ['nan_eager', 'nan_default', 'M.meth', 'm.meth', 'nan_ret', 'nan_ret_params', 'never_ret']
'''

# Section W (harness only, OUTSIDE the model's value domain: the model interns evaluated
# annotations as numbers, two different numbers are never equal): annotation VALUES whose own ==
# answers True to everything (unittest.mock.ANY, a wildcard / pattern object).  Such a value equals
# "no annotation" (inspect.Parameter.empty) for the plain inspect objects in both operand orders,
# so an unannotated parameter / signature and one carrying the wildcard reach the comparison of
# the UPGRADED annotations, where one side is the EmptyAnnotation singleton.  Whatever that
# comparison answers, the property demands a bool, the same for both operand orders, != its negation.
class Wildcard(object):
    """a hashable pattern object that matches anything"""

    def __eq__(self, other):
        return True

    def __ne__(self, other):
        return False

    def __hash__(self):
        return 0

    def __repr__(self):
        return 'Wildcard()'


class WildcardEqOnly(object):
    """only __eq__ is written (Python derives != from it), unhashable like mock.ANY"""

    def __eq__(self, other):
        return True

    def __repr__(self):
        return 'WildcardEqOnly()'


def _wild_values():
    from unittest import mock
    return {'mock.ANY': mock.ANY, 'Wildcard': Wildcard(), 'WildcardEqOnly': WildcardEqOnly()}


WILD_SRC = '''
import functools
from sigtools import modifiers, specifiers
def bare(x, *, k=None): pass
def bare2(x, *, k=None): pass
def w_param(x: W, *, k=None): pass
def w_kwo(x, *, k: W = None): pass
def w_return(x, *, k=None) -> W: pass
def w_all(x: W, *, k: W = None) -> W: pass
def int_param(x: int, *, k=None): pass
def int_return(x, *, k=None) -> int: pass
@modifiers.annotate(W, x=W)
def annotated(x, *, k=None): pass
@modifiers.annotate(k=W)
def annotated_k(x, *, k=None): pass
@modifiers.annotate(W)
def annotated_ret(x, *, k=None): pass
@specifiers.forwards_to_function(bare)
def fwd_plain(*args, **kwargs): pass
@specifiers.forwards_to_function(bare)
def fwd_ret(*args, **kwargs) -> W: pass
@specifiers.forwards_to_function(w_all)
def fwd_to_w(*args, **kwargs): pass
def auto_plain(*args, **kwargs):
    return bare(*args, **kwargs)
def auto_ret(*args, **kwargs) -> W:
    return bare(*args, **kwargs)
def auto_to_w(*args, **kwargs):
    return w_param(*args, **kwargs)
class C:
    def m_bare(self, x, *, k=None): pass
    def m_w(self, x: W, *, k: W = None) -> W: pass
c = C()
part_bare = functools.partial(bare2)
part_w = functools.partial(w_all)
NAMES = ['bare', 'bare2', 'w_param', 'w_kwo', 'w_return', 'w_all', 'int_param', 'int_return', 'annotated',
         'annotated_k', 'annotated_ret', 'fwd_plain', 'fwd_ret', 'fwd_to_w', 'auto_plain', 'auto_ret', 'auto_to_w',
         'c.m_bare', 'c.m_w', 'part_bare', 'part_w']
'''

_WILD = {}


def wild_modules():
    """one module per (wildcard value, eager / postponed annotations)"""
    if _WILD:
        return _WILD
    tmp = tempfile.mkdtemp(prefix='verif-c14-')
    _TMP.append(tmp)
    for i, (wk, wv) in enumerate(sorted(_wild_values().items())):
        for tag, head in (('eager', ''), ('post', 'from __future__ import annotations')):
            modname = 'c14_wild_%d_%s' % (i, tag)
            path = os.path.join(tmp, modname + '.py')
            with open(path, 'w') as f:
                f.write(head + WILD_SRC)
            spec = importlib.util.spec_from_file_location(modname, path)
            mod = importlib.util.module_from_spec(spec)
            mod.W = wv
            sys.modules[modname] = mod
            with warnings.catch_warnings():
                warnings.simplefilter('ignore')
                spec.loader.exec_module(mod)
            _WILD[(wk, tag)] = mod
    return _WILD


WILD_FORMS = ('upgraded', 'plain', 'replace()', 'replace(annotations=wildcard)', 'replace(annotations=empty)')
_WILD_OBJ = {}


def wild_obj(spec):
    """spec = [wildcard kind, 'eager'|'post', name, form, level]; level 'sig' or a parameter name.
    -> the object (signature or parameter) as sigtools returns it / derived from it"""
    spec = tuple(spec)
    if spec in _WILD_OBJ:
        return _WILD_OBJ[spec]
    import sigtools
    wk, tag, nm, form, level = spec
    mod = wild_modules()[(wk, tag)]
    obj = mod
    for part in nm.split('.'):
        obj = getattr(obj, part)
    with warnings.catch_warnings():
        warnings.simplefilter('ignore')
        sig = sigtools.signature(obj)
        if form == 'plain':
            sig = plain_sig_of(sig)
        elif form == 'replace()':
            sig = sig.replace()
        elif form == 'replace(annotations=wildcard)':
            sig = sig.replace(parameters=[p.replace(annotation=mod.W) for p in sig.parameters.values()],
                              return_annotation=mod.W)
        elif form == 'replace(annotations=empty)':
            sig = sig.replace(parameters=[p.replace(annotation=P.empty) for p in sig.parameters.values()],
                              return_annotation=inspect.Signature.empty)
    r = sig if level == 'sig' else sig.parameters[level]
    _WILD_OBJ[spec] = r
    return r


def wild_specs(wk):
    out = []
    for tag in ('eager', 'post'):
        mod = wild_modules()[(wk, tag)]
        for nm in mod.NAMES:
            for form in WILD_FORMS:
                if form.startswith('replace(annotations') and nm not in ('bare', 'w_all', 'fwd_ret', 'annotated'):
                    continue
                if form == 'replace()' and nm not in ('bare', 'w_param', 'w_return', 'w_all', 'fwd_ret', 'annotated',
                                                      'auto_ret', 'c.m_w'):
                    continue
                out.append([wk, tag, nm, form])
    return out


def wild_show(spec):
    wk, tag, nm, form, level = spec
    return '%s of sigtools.signature(%s)%s  [module with %s annotations, W = %s]' % (
        'the signature' if level == 'sig' else 'parameter %r' % level, nm,
        '' if form == 'upgraded' else ' as its plain inspect counterpart' if form == 'plain' else '.' + form,
        'postponed' if tag == 'post' else 'eager', wk)


def _wild_annotated(o):
    """which of the annotation places of o hold something (not the empty marker)?"""
    if isinstance(o, inspect.Signature):
        return tuple([p.annotation is not P.empty for p in o.parameters.values()]
                     + [o.return_annotation is not inspect.Signature.empty])
    return (o.annotation is not P.empty,)


def decide_wild_pair(sa, sb):
    """-> [(key, what)]: bool answers, no exception, symmetry of == and of !=, != the negation of =="""
    a, b = wild_obj(sa), wild_obj(sb)
    res = [cmp_out(lambda: a == b), cmp_out(lambda: b == a), cmp_out(lambda: a != b), cmp_out(lambda: b != a)]
    outs = [r[0] for r in res]
    labels = ['a == b', 'b == a', 'a != b', 'b != a']
    what = 'a = %s; b = %s' % (wild_show(sa), wild_show(sb))
    bad = []
    for lab, (o, msg) in zip(labels, res):
        if o == 'R':
            bad.append(('C14:eq-raises', '%s raised %s; %s' % (lab, msg, what)))
        elif o == 'X':
            bad.append(('C14:eq-not-bool', '%s %s; %s' % (lab, msg, what)))
    if not bad:
        if outs[0] != outs[1]:
            bad.append(('C14:eq-asymmetric', 'a == b is %s but b == a is %s; %s' % (outs[0], outs[1], what)))
        if outs[2] != outs[3]:
            bad.append(('C14:eq-asymmetric', 'a != b is %s but b != a is %s; %s' % (outs[2], outs[3], what)))
        if outs[2] == outs[0] or outs[3] == outs[1]:
            bad.append(('C14:ne-not-negation', '(a == b, a != b, b == a, b != a) = %s; %s' % (outs, what)))
    return outs, bad


def wild_pairs(wk):
    """all ordered-once pairs of objects of the same level (signature, parameter x, parameter k)
    over the names and forms of both modules of one wildcard kind, at least one side upgraded"""
    specs = wild_specs(wk)
    for level in ('sig', 'x', 'k'):
        for i, sa in enumerate(specs):
            if sa[3] == 'plain':
                continue
            for sb in specs[i:] + [s_ for s_ in specs[:i] if s_[3] == 'plain']:
                yield sa + [level], sb + [level]


_FRESH = {}


def fresh_modules():
    if _FRESH:
        return _FRESH
    tmp = tempfile.mkdtemp(prefix='verif-c14-')
    _TMP.append(tmp)
    for modname, src in (('c14_fresh_post', FRESH_SRC_POST), ('c14_fresh_eager', FRESH_SRC_EAGER)):
        path = os.path.join(tmp, modname + '.py')
        with open(path, 'w') as f:
            f.write(src)
        spec = importlib.util.spec_from_file_location(modname, path)
        mod = importlib.util.module_from_spec(spec)
        sys.modules[modname] = mod
        spec.loader.exec_module(mod)
        _FRESH[modname] = mod
    return _FRESH


def fresh_names():
    out = [(modname, nm) for modname, mod in fresh_modules().items() for nm in mod.NAMES]
    return out + [('built', nm) for nm in ('post-object', 'pre-nan', 'mixed')]


def fresh_get(modname, nm):
    """-> (a freshly obtained upgraded signature, the inspect signature or None)"""
    import sigtools
    if modname == 'built':
        nan = float('nan')
        f = fn_of(100)
        if nm == 'post-object':
            ps = [UP('a', P.POSITIONAL_OR_KEYWORD, annotation='object()',
                     upgraded_annotation=S._PostponedAnnotation('object()', f), function=f, sources=[f])]
            return US(ps, return_annotation='object()',
                      upgraded_return_annotation=S._PostponedAnnotation('object()', f), sources={'a': [f], '+depths': {f: 0}}), None
        if nm == 'pre-nan':
            ps = [UP('a', P.POSITIONAL_ONLY, annotation=nan, default=1,
                     upgraded_annotation=S._PreEvaluatedAnnotation(nan), function=f, sources=[f]),
                  UP('k', P.KEYWORD_ONLY, annotation=nan, upgraded_annotation=S._PreEvaluatedAnnotation(nan))]
            return US(ps, return_annotation=nan, upgraded_return_annotation=S._PreEvaluatedAnnotation(nan),
                      sources={'a': [f], '+depths': {f: 0}}), None
        ps = [UP('a', P.POSITIONAL_OR_KEYWORD, annotation=11, upgraded_annotation=S._PostponedAnnotation('float("nan")', f)),
              UP('rest', P.VAR_KEYWORD, annotation='[object()]', upgraded_annotation=S._PostponedAnnotation('[object()]', f))]
        return US(ps, upgraded_return_annotation=S._PostponedAnnotation('{"k": object()}', f)), None
    obj = fresh_modules()[modname]
    for part in nm.split('.'):
        obj = getattr(obj, part)
    with warnings.catch_warnings():
        warnings.simplefilter('ignore')
        return sigtools.signature(obj), inspect.signature(obj)


def reflexive_bad(x, what):
    bad = []
    r = cmp_out(lambda: x == x)
    if r[0] != 'T':
        bad.append(('C14:eq-reflexive', '%s: x == x gave %s %s' % (what, r[0], r[1] or '')))
    r = cmp_out(lambda: x != x)
    if r[0] != 'F':
        bad.append(('C14:eq-reflexive', '%s: x != x gave %s %s' % (what, r[0], r[1] or '')))
    return bad


def oracle_bad(x, plain_of, what):
    """x against its plain counterpart must answer what inspect answers for two
    plain counterparts (NaN-valued data make even those unequal)"""
    bad = []
    p1, p2 = plain_of(x), plain_of(x)
    want = cmp_out(lambda: p2 == p1)[0]
    for lab, th in (('x == plain(x)', lambda: x == p1), ('plain(x) == x', lambda: p1 == x)):
        r = cmp_out(th)
        if r[0] != want:
            bad.append(('C14:eq-plain-counterpart', '%s: %s gave %s %s, two plain counterparts give %s' % (what, lab, r[0], r[1] or '', want)))
    hp, hx = hash_out(p1), hash_out(x)
    if (hp is None) != (hx is None):
        bad.append(('C14:hashable', '%s: hashable = %s, plain counterpart hashable = %s' % (what, hx is not None, hp is not None)))
    elif hp is not None and hp != hx:
        bad.append(('C14:eq-hash', '%s: hash differs from the plain counterpart\'s hash' % what))
    return bad


def bound_eq_bad(sig, what, limit=12):
    """BoundArguments of the same call compare as those of the plain signature"""
    bad = []
    plain = plain_sig_of(sig)
    done = 0
    for n, ks in call_shapes(sig):
        args = tuple(range(10, 10 + n))
        kw = {k: 'v' + k for k in ks}
        for meth in ('bind', 'bind_partial'):
            try:
                r1, r2 = getattr(plain, meth)(*args, **kw), getattr(plain, meth)(*args, **kw)
            except TypeError:
                continue
            want = (cmp_out(lambda: r1 == r2)[0], cmp_out(lambda: r1 != r2)[0])
            try:
                b1, b2 = getattr(sig, meth)(*args, **kw), getattr(sig, meth)(*args, **kw)
            except TypeError:
                continue          # reported by decide_bind
            got = (cmp_out(lambda: b1 == b2)[0], cmp_out(lambda: b1 != b2)[0])
            if got != want:
                bad.append(('C14:bind-eq', '%s: %s(*%r, **%r) == the same again gives (==, !=) = %s, with the plain signature %s' % (
                    what, meth, args, kw, got, want)))
            done += 1
        if done >= limit or len(bad) >= 3:
            break
    return bad


def _same_values(x, y):
    pairs = [(x.upgraded_return_annotation, y.upgraded_return_annotation)]
    for nm_, p in x.parameters.items():
        pairs.append((p.upgraded_annotation, y.parameters[nm_].upgraded_annotation))
    for a, b in pairs:
        if a.source_value() is not b.source_value():
            return False
    return True


def decide_fresh(modname, nm):
    """Section F on one named object.  -> (n_checks, [(key, what)])"""
    x, insp = fresh_get(modname, nm)
    y, _ = fresh_get(modname, nm)
    what = 'sigtools.signature(%s)' % nm if modname != 'built' else 'built signature %s' % nm
    bad = list(reflexive_bad(x, what))
    n = 2
    anns = [('upgraded_return_annotation', x.upgraded_return_annotation)]
    for p in x.parameters.values():
        bad += reflexive_bad(p, '%s.parameters[%r]' % (what, p.name))
        bad += oracle_bad(p, plain_param_of, '%s.parameters[%r]' % (what, p.name))
        anns.append(('parameters[%r].upgraded_annotation' % p.name, p.upgraded_annotation))
        q = y.parameters[p.name]
        bad += [(k, '%s.parameters[%r] vs second retrieval: %s' % (what, p.name, w)) for k, w in decide_pair(p, q, False)[1]]
        bad += [(k, '%s.parameters[%r] vs plain: %s' % (what, p.name, w)) for k, w in decide_pair(p, plain_param_of(p), False)[1]]
        n += 14
    for lab, a in anns:
        bad += reflexive_bad(a, '%s.%s' % (what, lab))
        n += 2
    bad += oracle_bad(x, plain_sig_of, what)
    partners = [('second retrieval', y), ('plain counterpart', plain_sig_of(x)), ('x.replace()', x.replace()),
                ('None', None)]
    if insp is not None:
        partners.append(('inspect.signature', insp))
    for lab, b in partners:
        bad += [(k, '%s vs %s: %s' % (what, lab, w)) for k, w in decide_pair(x, b, False)[1]]
        n += 4
    # two retrievals whose plain counterparts are equal and whose upgraded annotations denote the IDENTICAL
    # objects carry the same data: they must be equal, like the plain objects (whose tuple comparison
    # tries identity first), also when the shared value is not equal to itself (NaN, a never-equal object)
    # -- seeded change C14-m13 dropped the identity test of the evaluated values
    try:
        same_plain = (plain_sig_of(x) == plain_sig_of(y)) is True
        same_vals = same_plain and _same_values(x, y)
    except Exception:  # noqa: BLE001
        same_vals = False
    if same_vals:
        n += 4
        for lab, b in (('second retrieval', y), ('x.replace(upgraded_return_annotation=<the same value>)',
                                                 x.replace(upgraded_return_annotation=y.upgraded_return_annotation))):
            try:
                eq, ne = (x == b), (x != b)
            except Exception as e:  # noqa: BLE001
                bad.append(('C14:same-data-unequal', '%s vs %s: comparison raised %s' % (what, lab, type(e).__name__)))
                continue
            if eq is not True or ne is not False:
                bad.append(('C14:same-data-unequal', '%s vs %s: == gives %r and != gives %r although the plain inspect.Signature '
                            'counterparts are equal and every upgraded annotation denotes the identical object' % (what, lab, eq, ne)))
    bad += bound_eq_bad(x, what)
    n += 12
    return n, bad


_REAL = {}
_TMP = []


def real_modules():
    if _REAL:
        return _REAL
    tmp = tempfile.mkdtemp(prefix='verif-c14-')
    _TMP.append(tmp)
    for modname, src in (('c14_real_eager', REAL_SRC_EAGER), ('c14_real_post', REAL_SRC_POST)):
        path = os.path.join(tmp, modname + '.py')
        with open(path, 'w') as f:
            f.write(src)
        spec = importlib.util.spec_from_file_location(modname, path)
        mod = importlib.util.module_from_spec(spec)
        sys.modules[modname] = mod
        spec.loader.exec_module(mod)
        _REAL[modname] = mod
    _REAL.update(load_twins(tmp))
    return _REAL


def cleanup(ctx=None):
    for t in _TMP:
        shutil.rmtree(t, ignore_errors=True)
    del _TMP[:]
    _WILD.clear()        # the wildcard modules are re-created (their source is needed by discovery)
    _WILD_OBJ.clear()


_REAL_CACHE = {}


def resolve_real(d):
    """{'real': (module, dotted name, variant)}; variant: 'r0'/'r1' two separate
    retrievals, 'inspect' = inspect.signature"""
    key = tuple(d['real'])
    if key in _REAL_CACHE:
        return _REAL_CACHE[key]
    import sigtools
    mod = real_modules()[key[0]]
    obj = mod
    for part in key[1].split('.'):
        obj = getattr(obj, part)
    with warnings.catch_warnings():
        warnings.simplefilter('ignore')
        if key[2] == 'inspect':
            r = inspect.signature(obj)
        else:
            r = sigtools.signature(obj)
    _REAL_CACHE[key] = r
    return r


def real_specs():
    out = []
    for modname, mod in real_modules().items():
        for nm in mod.NAMES:
            out.append((modname, nm))
    return out


# ------------------------------------------------------------------ comparing
def cmp_out(th):
    """one comparison, run the way sigtools' own suite runs (pytest.ini: filterwarnings = error,
    i.e. python -W error): a comparison that emits a warning raises there, and raises a
    TypeError on the Python versions where the deprecated behaviour is gone"""
    try:
        with warnings.catch_warnings():
            warnings.simplefilter('error')
            r = th()
    except Warning as e:
        return 'R', '%s: %s  [a warning emitted by the comparison; warnings are escalated to errors as by python -W error / sigtools\' pytest.ini]' % (type(e).__name__, e)
    except Exception as e:  # noqa: BLE001
        return 'R', '%s: %s' % (type(e).__name__, e)
    if r is True:
        return 'T', None
    if r is False:
        return 'F', None
    return 'X', 'returned %r (not a bool)' % (r,)


def hash_out(o):
    try:
        return hash(o)
    except TypeError:
        return None


def is_ours(o):
    return isinstance(o, (inspect.Signature, inspect.Parameter))


def decide_pair(a, b, evil):
    """The property on one pair of live objects.  -> (outs, [(key, what)])"""
    res = [cmp_out(lambda: a == b), cmp_out(lambda: b == a), cmp_out(lambda: a != b), cmp_out(lambda: b != a)]
    outs = [r[0] for r in res]
    bad = []
    labels = ['a == b', 'b == a', 'a != b', 'b != a']
    if not evil:
        for lab, (o, msg) in zip(labels, res):
            if o == 'R':
                bad.append(('C14:eq-raises', '%s raised %s' % (lab, msg)))
            elif o == 'X':
                bad.append(('C14:eq-not-bool', '%s %s' % (lab, msg)))
        if not bad:
            if outs[0] != outs[1]:
                bad.append(('C14:eq-asymmetric', 'a == b is %s but b == a is %s' % (outs[0], outs[1])))
            if outs[2] == outs[0] or outs[3] == outs[1]:
                bad.append(('C14:ne-not-negation', '(a == b, a != b, b == a, b != a) = %s' % (outs,)))
            if outs[0] == 'T' and is_ours(a) and is_ours(b):
                ha, hb = hash_out(a), hash_out(b)
                if ha is not None and hb is not None and ha != hb:
                    bad.append(('C14:eq-hash', 'a == b but hash(a) != hash(b)'))
                if (ha is None) != (hb is None):
                    bad.append(('C14:hashable', 'a == b but only one of them is hashable'))
    return outs, bad


def plain_param_of(p):
    return P(p.name, p.kind, default=p.default, annotation=p.annotation)


def plain_sig_of(s):
    return inspect.Signature([plain_param_of(p) for p in s.parameters.values()],
                             return_annotation=s.return_annotation)


def decide_single(o):
    """reflexivity, plain counterpart, hashability, dict key / set member"""
    bad = []
    r = cmp_out(lambda: o == o)
    if r[0] != 'T':
        bad.append(('C14:eq-reflexive', 'x == x gave %s %s' % (r[0], r[1] or '')))
    r = cmp_out(lambda: o != o)
    if r[0] != 'F':
        bad.append(('C14:eq-reflexive', 'x != x gave %s %s' % (r[0], r[1] or '')))
    if isinstance(o, inspect.Signature):
        plain = plain_sig_of(o)
    else:
        plain = plain_param_of(o)
    for lab, th in (('x == plain(x)', lambda: o == plain), ('plain(x) == x', lambda: plain == o)):
        r = cmp_out(th)
        if r[0] != 'T':
            bad.append(('C14:eq-plain-counterpart', '%s gave %s %s' % (lab, r[0], r[1] or '')))
    for lab, th in (('x != plain(x)', lambda: o != plain), ('plain(x) != x', lambda: plain != o)):
        r = cmp_out(th)
        if r[0] != 'F':
            bad.append(('C14:eq-plain-counterpart', '%s gave %s %s' % (lab, r[0], r[1] or '')))
    hp = hash_out(plain)
    try:
        ho = hash(o)
    except Exception as e:  # noqa: BLE001
        ho = None
        if hp is not None:
            bad.append(('C14:hashable', 'hash(x) raised %s: %s although the plain counterpart is hashable' % (type(e).__name__, e)))
    if hp is None and ho is not None:
        bad.append(('C14:hashable', 'hash(x) works although the plain counterpart is unhashable'))
    if hp is not None and ho is not None:
        if hp != ho:
            bad.append(('C14:eq-hash', 'x == plain(x) but hash(x) != hash(plain(x))'))
        try:
            dct = {o: 1}
            st = {o}
            if dct.get(plain) != 1 or plain not in st or dct[o] != 1 or o not in {plain}:
                bad.append(('C14:eq-hash', 'x is not found as dict key / set member through its plain counterpart'))
        except Exception as e:  # noqa: BLE001
            bad.append(('C14:hashable', 'use as dict key / set member raised %s: %s' % (type(e).__name__, e)))
    return ho is not None, bad


# ------------------------------------------------------------------ generation
def decorate(rng, ps, fid=100):
    """universe parameter list -> upgraded parameter descriptions with varied metadata"""
    out = []
    for nm, k, de, an, ua in ps:
        if de is not None:
            de = rng.choice([0, 1, 1, 2, 801])
        r = rng.random()
        an2, ua2 = None, ('E',)
        if r < 0.2:
            an2 = rng.choice([11, 12]); ua2 = ('P', an2)
        elif r < 0.4:
            raw = rng.choice([1, 2, 3, 3, 4] + BAD_RAWS)
            an2 = intern_str(raw_str(raw)); ua2 = ('D', raw, rng.choice([100, 101]))
        elif r < 0.45:
            an2 = 802; ua2 = ('P', 802)
        out.append(mkp(nm, k, de, an2, ua2, up=True, srcs=[fid], deps={fid: 0}, fn=fid))
    return out


def gen_sigs(ctx):
    rng = ctx.rng('sigs')
    sigs = []
    U = universe(2, 'ab')
    extra = universe(3, 'abc', permute=False)
    rng.shuffle(extra)
    if ctx.quick:
        extra = extra[:120]
    else:
        extra = extra[:600]
    for idx, ps in enumerate(U + extra):
        bare = idx % 3 == 0
        if bare:
            params = [mkp(nm, k, de, None, ('E',), up=True, srcs=[100], deps={100: 0}, fn=100) for nm, k, de, an, ua in ps]
        else:
            params = decorate(rng, ps)
        r = rng.random()
        ret, ur = None, ('E',)
        if not bare and r < 0.25:
            ret = rng.choice([11, 12]); ur = ('P', ret)
        elif not bare and r < 0.5:
            raw = rng.choice([1, 2, 3, 4] + BAD_RAWS)
            ret = intern_str(raw_str(raw)); ur = ('D', raw, rng.choice([100, 101]))
        elif not bare and r < 0.55:
            ret = 803; ur = ('P', 803)
        srcs = {p['name']: [100] for p in params}
        sigs.append(mks(params, ret, ur, up=True, srcs=srcs, deps={100: 0}))
    return sigs


def valid(d):
    try:
        build_obj(d, {})
        return True
    except (ValueError, TypeError):
        return False


def param_variants(p):
    """parameter descriptions differing from p in exactly one field"""
    out = []
    out.append(('name', copy_p(p, name=id_of_name('z'))))
    for k in ('PO', 'PK', 'KO'):
        if k != p['kind'] and p['kind'] in ('PO', 'PK', 'KO'):
            out.append(('kind', copy_p(p, kind=k)))
    if p['kind'] not in ('VP', 'VK'):
        out.append(('default', copy_p(p, **{'def': 7 if p['def'] != 7 else 8})))
        if p['def'] is not None:
            out.append(('default', copy_p(p, **{'def': None})))
    out.append(('annotation', copy_p(p, ann=13 if p['ann'] != 13 else 14)))
    if p['up']:
        u = p['ua']['u']
        alts = [('P', 11), ('P', 12), ('D', 1, 100), ('D', 2, 100), ('D', 2, 101), ('D', 3, 100), ('D', 3, 101), ('D', 3, 103), ('E',)]
        alts += [('D', r, 100) for r in BAD_RAWS] + [('D', 23, 101)]
        if u[0] == 'D' and u[2] in TWIN_FN:
            alts.append(('D', u[1], TWIN_FN[u[2]]))         # the same annotation in the twin namespace
        for alt in alts:
            if alt != u:
                out.append(('upgraded_annotation', copy_p(p, ua=A(alt))))
        out.append(('sources', copy_p(p, srcs=[101], deps={101: 1})))
        out.append(('function', copy_p(p, fn=101)))
    return out


def sig_variants(rng, s, limit):
    out = []
    ps = s['params']
    for i, p in enumerate(ps):
        for lab, q in param_variants(p):
            t = copy_s(s)
            t['params'][i] = dict(q, id=fresh())
            out.append(('param.' + lab, t))
    out.append(('return_annotation', copy_s(s, ret=13 if s['ret'] != 13 else 14)))
    twin = [('D', s['ur']['u'][1], TWIN_FN[s['ur']['u'][2]])] if s['ur']['u'][0] == 'D' and s['ur']['u'][2] in TWIN_FN else []
    for alt in [('P', 11), ('P', 12), ('D', 1, 100), ('D', 2, 101), ('D', 3, 100), ('D', 3, 103), ('E',)] + [('D', r, 100) for r in BAD_RAWS] + twin:
        if alt != s['ur']['u']:
            out.append(('upgraded_return_annotation', copy_s(s, ur=A(alt))))
    out.append(('sources', copy_s(s, srcs={}, deps={})))
    if ps:
        t = copy_s(s); t['params'] = t['params'][:-1]; out.append(('drop-param', t))
    t = copy_s(s); t['params'] = t['params'] + [mkp('kwz', 'VK')] if not any(p['kind'] == 'VK' for p in ps) else t['params']
    out.append(('add-param', t))
    kos = [i for i, p in enumerate(ps) if p['kind'] == 'KO']
    if len(kos) >= 2:
        t = copy_s(s); i, j = kos[0], kos[1]
        t['params'][i], t['params'][j] = t['params'][j], t['params'][i]
        out.append(('kwo-order(equal)', t))
    pos = [i for i, p in enumerate(ps) if p['kind'] in ('PO', 'PK')]
    if len(pos) >= 2:
        t = copy_s(s); i, j = pos[0], pos[1]
        t['params'][i], t['params'][j] = t['params'][j], t['params'][i]
        out.append(('pos-order', t))
    out = [(lab, t) for lab, t in out if valid(t)]
    if len(out) > limit:
        out = rng.sample(out, limit)
    return out


def partners_for_sig(rng, s, limit):
    """menagerie"""
    out = [('itself', s), ('fresh-copy', copy_s(s)),
           ('plain-same-data', copy_s(s, up=False, param_up=False)),
           ('plain-over-same-params', copy_s(s, up=False, share_params=True)),
           ('upgraded-sharing-params', copy_s(s, share_params=True))]
    for lab, t in sig_variants(rng, s, limit):
        out.append(('upgraded:' + lab, t))
        if rng.random() < 0.35:
            out.append(('plain:' + lab, copy_s(t, up=False, param_up=False)))
    for fk in foreign_kinds('s'):
        out.append(('foreign:' + fk, {'id': fresh(), 'foreign': fk}))
    if s['params']:
        out.append(('own-parameter', None))
    return out


# ------------------------------------------------------------------ running Coq
def coq_bad(termlists):
    """termlists: [(ok_function_name, [case terms])] -> {(fname, index)} of disagreeing cases"""
    jobs = []
    for fname, terms in termlists:
        for off in range(0, len(terms), 400):
            jobs.append((fname, off, terms[off:off + 400]))

    def one(job):
        fname, off, terms = job
        ans = coq_eval(PREAMBLE, ['bad_idx %s 0%%nat %s' % (fname, cq_list(terms))], timeout=500,
                       name='c14_%s_%d' % (fname, off))
        return [(fname, off + int(i)) for i in re.findall(r'\d+', ans[0])]
    bad = set()
    if jobs:
        with ThreadPoolExecutor(min(12, len(jobs))) as ex:
            for r in ex.map(one, jobs):
                bad.update(r)
    return bad


# ------------------------------------------------------------------ section P: protocol
class _V(object):
    TABLE = {}

    def __eq__(self, other):
        r = _V.TABLE[(id(self), id(other))]
        _V.CALLS.append((id(self), id(other)))
        if r == 'R':
            raise RuntimeError('slot raises')
        return {'T': True, 'F': False, 'N': NotImplemented}[r]
    __hash__ = object.__hash__
    CALLS = []


class _W(_V):
    def __eq__(self, other):        # overrides, like the upgraded classes
        return _V.__eq__(self, other)
    __hash__ = object.__hash__


class _O(object):
    def __eq__(self, other):
        return _V.__eq__(self, other)
    __hash__ = object.__hash__


def run_protocol(rep):
    cls_py = {0: _O, 1: _V, 2: _W}
    cases, terms = [], []
    slot_coq = {'T': 'Val true', 'F': 'Val false', 'N': 'NotImpl', 'R': 'Raise'}
    for cv, cw in itertools.product((0, 1, 2), repeat=2):
        if cv == 0 and cw == 0:
            continue
        for ovw, owv in itertools.product('TFNR', repeat=2):
            for same in (False, True):
                if same and (cv != cw or ovw != owv):
                    continue
                v = cls_py[cv]()
                w = v if same else cls_py[cw]()
                _V.TABLE = {(id(v), id(w)): ovw, (id(w), id(v)): owv}
                weq = cmp_out(lambda: v == w)[0]
                wne = cmp_out(lambda: v != w)[0]
                cases.append((cv, cw, same, ovw, owv, weq, wne))
                for mcv, mcw in ((cv, cw), (cv + 2 if cv else 0, cw + 2 if cw else 0)):   # Sig and Param classes alike
                    terms.append('(%d, %d, %s, %s, %s, %s, %s)' % (mcv, mcw, 'true' if same else 'false',
                                                                   slot_coq[ovw], slot_coq[owv], OUT[weq], OUT[wne]))
    return cases, terms


# ------------------------------------------------------------------ section B: str / bind
def call_shapes(sig):
    ps = list(sig.parameters.values())
    npos = len([p for p in ps if p.kind in (P.POSITIONAL_ONLY, P.POSITIONAL_OR_KEYWORD)])
    names = [p.name for p in ps if p.kind not in (P.VAR_POSITIONAL, P.VAR_KEYWORD)] + ['zz']
    if len(names) > 5:
        names = names[:4] + ['zz']
    for n in range(npos + 2):
        for r in range(len(names) + 1):
            for ks in itertools.combinations(names, r):
                yield n, ks


def bind_out(th):
    try:
        ba = th()
    except Exception as e:  # noqa: BLE001
        return ('err', type(e).__name__, str(e))
    return ('ok', list(ba.arguments.items()), ba.args, sorted(ba.kwargs.items()))


def decide_bind(sig):
    """-> (n_shapes, [(key, what, shape)], [(n, ks, ok)] for the model)"""
    plain = plain_sig_of(sig)
    bad = []
    model = []
    n_shapes = 0
    if str(sig) != str(plain):
        bad.append(('C14:str', 'str() is %r, the plain signature gives %r' % (str(sig), str(plain)), None))
    if list(sig.parameters) != list(plain.parameters) or any(
            type(sig.parameters[k].kind) is not type(plain.parameters[k].kind) or sig.parameters[k].kind != plain.parameters[k].kind for k in plain.parameters):
        bad.append(('C14:parameters', 'parameters mapping differs from the plain signature', None))
    po = {p.name for p in sig.parameters.values() if p.kind == P.POSITIONAL_ONLY}
    for n, ks in call_shapes(sig):
        n_shapes += 1
        args = tuple(range(10, 10 + n))
        kw = {k: 'v' + k for k in ks}
        for meth in ('bind', 'bind_partial'):
            mine = bind_out(lambda: getattr(sig, meth)(*args, **kw))
            ref = bind_out(lambda: getattr(plain, meth)(*args, **kw))
            if mine != ref:
                bad.append(('C14:' + meth, '%s(*%r, **%r) gives %r, the plain signature gives %r' % (meth, args, kw, mine, ref),
                            (n, list(ks))))
            if meth == 'bind' and not (set(ks) & po):
                model.append((n, [id_of_name(k) for k in ks], mine[0] == 'ok'))
    return n_shapes, bad, model


# ------------------------------------------------------------------ section R: replace
def enc_opt(v):
    return 0 if v is None else v + 1


def enc_u(u):
    return {'E': [0]}.get(u[0]) or ([1, u[1]] if u[0] == 'P' else [2, u[1], u[2]])


def enc_deps(deps):
    out = [len(deps)]
    for f, d in sorted((int(k), v) for k, v in deps.items()):
        out += [f, d]
    return out


def enc_p(p):
    out = [1 if p['up'] else 0, p['name'], 'PO PK VP KO VK'.split().index(p['kind']), enc_opt(p['def']), enc_opt(p['ann'])]
    if p['up']:
        out += enc_u(p['ua']['u']) + [len(p['srcs'])] + list(p['srcs']) + enc_deps(p['deps']) + [enc_opt(p['fn'])]
    return out


def enc_s(s):
    out = [1 if s['up'] else 0, len(s['params'])]
    for p in s['params']:
        out += enc_p(p)
    out.append(enc_opt(s['ret']))
    if s['up']:
        out += enc_u(s['ur']['u'])
        out.append(len(s['srcs']))
        for k, v in sorted((int(k), v) for k, v in s['srcs'].items()):
            out += [k, len(v)] + list(v)
        out += enc_deps(s['deps'])
    return out


def cq_some(x, f):
    return 'None' if x is None else '(Some %s)' % f(x)


UNSET = ('unset',)


def sig_replace_cases(rng, s):
    """-> list of replace argument dicts (description level)"""
    out = [{}]
    out.append({'ret': rng.choice([None, 11, 13])})
    out.append({'ur': A(rng.choice([('P', 12), ('D', 3, 100), ('E',)]))})
    out.append({'sources': ({id_of_name('q'): [101]}, {101: 2})})
    out.append({'sources': ({}, {})})
    out.append({'sources': ({}, {}), 'sources_empty_dict': True})          # really {} (falsy)
    out.append({'params': [], 'sources': ({}, {}), 'sources_empty_dict': True})
    out.append({'ur': dict(A(('P', 12)), falsy=True)})                       # falsy annotation object
    for v in (0, intern_val(0), intern_str(''), intern_val(False)):          # None, 0, '', False
        out.append({'ret': v})
    ps = s['params']
    out.append({'params': []})
    if ps:
        out.append({'params': list(ps[:-1])})
        out.append({'params': list(reversed(ps))})
        out.append({'params': [copy_p(p, up=False) for p in ps]})
        mixed = [copy_p(p, up=False) if i % 2 == 0 else p for i, p in enumerate(ps)]
        out.append({'params': mixed, 'ret': 12})
        # any iterable is accepted for parameters, as by inspect.Signature
        out.append({'params': list(ps), 'params_as': 'iter'})
        out.append({'params': list(reversed(ps)), 'params_as': 'gen'})
        out.append({'params': mixed, 'params_as': 'gen'})
    out.append({'params': [mkp('n1', 'PK', None, 11, ('P', 11), srcs=[102], deps={102: 0}, fn=102)] + [copy_p(p) for p in ps if p['kind'] in ('KO', 'VK')],
                'ur': A(('P', 11)), 'sources': ({}, {})})
    return out


def run_sig_replace(s, args, reg):
    """-> (impl description or None if ValueError, [(key, what)])"""
    o = build_obj(s, reg)
    kw = {}
    if 'ret' in args:
        kw['return_annotation'] = py_val(args['ret'])
    if 'ur' in args:
        kw['upgraded_return_annotation'] = build_uann(args['ur'], reg)
    if 'sources' in args:
        sm, dp = args['sources']
        src = {name_of(int(k)): [fn_of(f) for f in v] for k, v in sm.items()}
        src['+depths'] = {fn_of(int(f)): v for f, v in dp.items()}
        if args.get('sources_empty_dict'):
            src = {}
        kw['sources'] = src
    plist = None
    if 'params' in args:
        plist = [build_param(p, reg) for p in args['params']]
        kw['parameters'] = plist
    base_kw = {k: v for k, v in kw.items() if k in ('return_annotation', 'parameters')}
    if plist is not None and args.get('params_as') == 'iter':
        kw['parameters'], base_kw['parameters'] = iter(plist), iter(plist)
    elif plist is not None and args.get('params_as') == 'gen':
        kw['parameters'], base_kw['parameters'] = (q for q in plist), (q for q in plist)
    plain = inspect.Signature(list(o.parameters.values()), return_annotation=o.return_annotation)
    try:
        want = plain.replace(**base_kw)
        want_err = None
    except Exception as e:  # noqa: BLE001
        want, want_err = None, type(e).__name__
    bad = []
    try:
        with warnings.catch_warnings():
            warnings.simplefilter('ignore')
            r = o.replace(**kw)
    except Exception as e:  # noqa: BLE001
        if want_err != type(e).__name__:
            bad.append(('C14:replace-raises', 'replace raised %s: %s, the plain signature %s' % (
                type(e).__name__, e, 'raises ' + want_err if want_err else 'accepts the same arguments')))
        return None, bad
    if want_err:
        bad.append(('C14:replace-raises', 'replace accepted arguments for which the plain signature raises ' + want_err))
        return _desc(describe_sig, r, bad), bad
    if type(r) is not type(o):
        bad.append(('C14:replace-type', 'replace returned a %s' % type(r).__name__))
        return None, bad
    if any(type(p) is not UP for p in r.parameters.values()):
        bad.append(('C14:replace-type', 'replace returned a signature holding non-upgraded parameters'))
    # plain data as inspect does it
    if [(p.name, p.kind, p.default, p.annotation) for p in r.parameters.values()] != \
            [(p.name, p.kind, p.default, p.annotation) for p in want.parameters.values()] \
            or r.return_annotation != want.return_annotation:
        bad.append(('C14:replace-data', 'replace gives %s, the plain signature gives %s' % (r, want)))
    # provenance and upgraded annotations kept unless overridden
    if 'sources' in kw:
        if r.sources is not kw['sources']:
            bad.append(('C14:replace-sources', 'sources passed to replace are not the result\'s sources'))
    elif r.sources != o.sources:
        bad.append(('C14:replace-sources', 'replace lost the sources: %r -> %r' % (o.sources, r.sources)))
    if 'upgraded_return_annotation' in kw:
        if r.upgraded_return_annotation is not kw['upgraded_return_annotation']:
            bad.append(('C14:replace-upgraded-annotation', 'upgraded_return_annotation passed to replace is not used'))
    elif r.upgraded_return_annotation is not o.upgraded_return_annotation:
        bad.append(('C14:replace-upgraded-annotation', 'replace did not keep upgraded_return_annotation: %r -> %r' % (
            o.upgraded_return_annotation, r.upgraded_return_annotation)))
    given = plist
    olds = list(o.parameters.values()) if given is None else given
    for old, new in zip(olds, r.parameters.values()):
        if isinstance(old, UP):
            if new is not old:
                bad.append(('C14:replace-parameters', 'upgraded parameter %s was not kept as is' % old.name))
        elif not (isinstance(new, UP) and new.upgraded_annotation is S.EmptyAnnotation and new.sources == []):
            bad.append(('C14:replace-parameters', 'plain parameter %s was not upgraded to an empty upgraded parameter' % old.name))
    return _desc(describe_sig, r, bad), bad


def cq_sreplace(args):
    return '(mkSR %s %s %s %s)' % (
        cq_some(args.get('params'), lambda ps: cq_list([cq_p(p) for p in ps])),
        '(Some %s)' % cq_opt(args['ret']) if 'ret' in args else 'None',
        cq_some(args.get('sources'), lambda sd: '(%s, %s)' % (cq_srcmap(sd[0]), cq_deps(sd[1]))),
        cq_some(args.get('ur'), cq_a))


def param_replace_cases(rng, p):
    out = [{}]
    out.append({'name': id_of_name('z')})
    for k in ('PO', 'PK', 'VP', 'KO', 'VK'):
        if k != p['kind']:
            out.append({'kind': k})
    out.append({'def': rng.choice([0, 5])})
    out.append({'def': None})
    out.append({'ann': rng.choice([12, 13])})
    out.append({'ann': None})
    out.append({'ua': A(rng.choice([('P', 12), ('D', 3, 100), ('D', 1, 101)]))})
    out.append({'ua': A(('E',))})
    out.append({'srcs': [101, 102]})
    out.append({'srcs': []})
    out.append({'deps': {101: 3}})
    out.append({'fn': 101})
    out.append({'fn': None})
    out.append({'deps': {}})
    out.append({'ua': dict(A(('P', 12)), falsy=True)})
    out.append({'name': p['name']})
    if p['kind'] not in ('VP', 'VK'):
        for v in (0, intern_val(0), intern_str(''), intern_val(False)):      # None, 0, '', False
            out.append({'def': v})
    for v in (0, intern_val(0), intern_str('')):
        out.append({'ann': v})
    out.append({'name': id_of_name('y'), 'ann': 14, 'srcs': [102], 'ua': A(('P', 14))})
    return out


PBASE = {'name': 'name', 'kind': 'kind', 'def': 'default', 'ann': 'annotation'}


def run_param_replace(p, args, reg):
    o = build_param(p, reg)
    kw = {}
    if 'name' in args:
        kw['name'] = name_of(args['name'])
    if 'kind' in args:
        kw['kind'] = KINDS[args['kind']]
    if 'def' in args:
        kw['default'] = py_val(args['def'])
    if 'ann' in args:
        kw['annotation'] = py_val(args['ann'])
    base_kw = dict(kw)
    if 'ua' in args:
        kw['upgraded_annotation'] = build_uann(args['ua'], reg)
    if 'srcs' in args:
        kw['sources'] = [fn_of(f) for f in args['srcs']]
    if 'deps' in args:
        kw['source_depths'] = {fn_of(int(f)): v for f, v in args['deps'].items()}
    if 'fn' in args:
        kw['function'] = None if args['fn'] is None else fn_of(args['fn'])
    plain = plain_param_of(o)
    try:
        want, want_err = plain.replace(**base_kw), None
    except Exception as e:  # noqa: BLE001
        want, want_err = None, type(e).__name__
    bad = []
    try:
        r = o.replace(**kw)
    except Exception as e:  # noqa: BLE001
        if want_err != type(e).__name__:
            bad.append(('C14:replace-raises', 'Parameter.replace raised %s: %s, the plain parameter %s' % (
                type(e).__name__, e, 'raises ' + want_err if want_err else 'accepts the same arguments')))
        return None, bad
    if want_err:
        bad.append(('C14:replace-raises', 'Parameter.replace accepted arguments for which the plain parameter raises ' + want_err))
        return _desc(describe_param, r, bad), bad
    if type(r) is not type(o):
        bad.append(('C14:replace-type', 'Parameter.replace returned a %s' % type(r).__name__))
        return None, bad
    if (r.name, r.kind, r.default, r.annotation) != (want.name, want.kind, want.default, want.annotation):
        bad.append(('C14:replace-data', 'Parameter.replace gives %s, the plain parameter gives %s' % (r, want)))
    for field, attr in (('upgraded_annotation', 'upgraded_annotation'), ('sources', 'sources'),
                        ('source_depths', 'source_depths'), ('function', '_function')):
        if field in kw:
            if getattr(r, attr) is not kw[field]:
                bad.append(('C14:replace-' + field.replace('_', '-'), '%s passed to Parameter.replace is not used' % field))
        elif getattr(r, attr) is not getattr(o, attr) and getattr(r, attr) != getattr(o, attr):
            bad.append(('C14:replace-' + field.replace('_', '-'), 'Parameter.replace did not keep %s: %r -> %r' % (
                field, getattr(o, attr), getattr(r, attr))))
        elif field == 'upgraded_annotation' and field not in kw and r.upgraded_annotation is not o.upgraded_annotation:
            bad.append(('C14:replace-upgraded-annotation', 'Parameter.replace did not keep upgraded_annotation'))
    return _desc(describe_param, r, bad), bad


def cq_preplace(args):
    def oo(k):       # option (option N)
        return '(Some %s)' % cq_opt(args[k]) if k in args else 'None'
    return '(mkPR %s %s %s %s %s %s %s %s)' % (
        cq_some(args.get('name'), str), cq_some(args.get('kind'), str), oo('def'), oo('ann'), oo('fn'),
        cq_some(args.get('srcs'), lambda l: cq_list([str(x) for x in l])),
        cq_some(args.get('deps'), cq_deps), cq_some(args.get('ua'), cq_a))


# ------------------------------------------------------------------ the run
def eq_case(rep, a_d, b_d, lab, level, terms, metas, hist):
    """run one comparison pair: direct decision + model case"""
    reg = {}
    a = build_obj(a_d, reg)
    b = build_obj(b_d, reg)
    evil = b_d.get('foreign') == 'raise'
    outs, bad = decide_pair(a, b, evil)
    for key, what in bad:
        hist[key] = hist.get(key, 0) + 1
        _viol(rep, key, '%s  with a = %s, b = %s (%s)' % (what, show(a_d), show(b_d), lab),
                      {'kind': 'pair', 'level': level, 'a': a_d, 'b': b_d, 'label': lab})
    if 'X' in outs:
        return outs
    if 'real' in a_d:
        a_d = describe_sig(a)
    if 'real' in b_d:
        b_d = describe_sig(b)
    terms.append('(%s, %s, %s, (%s, %s, %s, %s))' % (cq_env([a_d, b_d]), cq_any(a_d, level), cq_any(b_d, level),
                                                     OUT[outs[0]], OUT[outs[1]], OUT[outs[2]], OUT[outs[3]]))
    metas.append((a_d, b_d, lab, outs))
    return outs


def run(ctx, rep):
    rng = ctx.rng('run')
    hist = {}
    rep.rule = ('signatures: U(2,{a,b}) exhaustively + a sample of U(3,{a,b,c}), two thirds decorated with defaults from {None,1,2,[801]}, '
                'annotations pre-evaluated / postponed (resolving, resolving differently per function, not resolving) / unhashable, with sources; '
                'plus signatures really retrieved (functions, methods, partials, wraps, forwards, modifiers, postponed module with TYPE_CHECKING-only names). '
                'Each x menagerie (itself, fresh copy, plain counterpart, plain over the same parameter objects, copies differing in exactly one field '
                'incl. only the upgraded annotation / only sources, None, str, bytes, int, float, object, tuple, list, dict, NotImplemented, Ellipsis, the empty marker, '
                'a class, a function, a BoundArguments, an object of the other level (parameter for a signature, signature for a parameter, plain and upgraded), '
                '__eq__ returning NotImplemented / True / False / raising), every comparison under warnings escalated to errors; '
                'twin namespaces (one source executed twice: different __globals__ dicts with equal content up to a module-level object whose == is ambiguous / raises / '
                'is a signalling NaN / leads back to the compared signatures) x unevaluable postponed annotations, really retrieved and built; '
                'annotation values whose == answers an object of ambiguous truth or an expression object (eager, postponed, modifiers.annotate, forwarded, partial, method) '
                'against plain counterparts, copies, second retrievals. '
                'non-trivial = a pair whose == is True between distinct objects, or False between objects with equal plain data, or that involves a foreign __eq__')
    rep.assumptions = [
        'default values and evaluated annotations compare with a total, symmetric == consistent with their hash (the model interns them as numbers)',
        'a partner whose own __eq__ raises is exempt from "never raises" (plain inspect objects propagate it too)',
        'section H (annotation values whose == does not answer a bool) is outside the model; there the objects must answer what their plain counterparts (same sharing of objects) answer whenever those answer without raising',
        'a comparison that emits a warning counts as raising (python -W error, the filterwarnings = error of sigtools\' pytest.ini)',
        'the model of CPython\'s comparison protocol (Model/Eq.v richcmp, tuple_eq, dict_eq) is trusted; it is compared with CPython on ad-hoc classes in every run',
    ]
    evaluations = 0
    termlists = []

    # ---- P: protocol
    pcases, pterms = run_protocol(rep)
    termlists.append(('ok_proto', pterms))
    evaluations += len(pcases)
    rep.coverage['protocol_cases'] = len(pcases)

    # ---- class-level facts the model states (has_hash)
    for cls_, base in ((US, inspect.Signature), (UP, inspect.Parameter)):
        defines_eq = '__eq__' in vars(cls_)
        defines_hash = vars(cls_).get('__hash__') is not None
        model_has_hash = (not defines_eq) or defines_hash
        if (cls_.__hash__ is not None) != model_has_hash:
            rep.corr_break('class hash slot', cls_.__name__, str(model_has_hash), str(cls_.__hash__ is not None))
        if not (defines_eq and defines_hash):
            rep.corr_break('usig_cls/uparam_cls = mkCls true true', cls_.__name__, 'defines __eq__ and __hash__',
                           'defines_eq=%s defines_hash=%s' % (defines_eq, defines_hash))

    # ---- E: signatures
    sigs = gen_sigs(ctx)
    reals = []
    failed = []
    for modname, nm in real_specs():
        trio = [{'real': (modname, nm, variant)} for variant in ('r0', 'r1', 'inspect')]
        try:
            for r in trio:
                describe_sig(resolve_real(r))      # also: well-formed enough to be described
        except Exception as e:  # noqa: BLE001  (retrieval itself is C07's subject)
            failed.append('%s: %s' % (nm, type(e).__name__))
            continue
        reals.extend(trio)
    rep.coverage['real_retrieval_failed'] = failed
    eterms, emetas = [], []
    hterms, hmetas = [], []
    bterms, bmetas = [], []
    n_shapes_total = 0
    limit = 10 if ctx.quick else 40
    own_params = []
    for s in sigs:
        o = build_obj(s, {})
        hashable, bad = decide_single(o)
        for key, what in bad:
            hist[key] = hist.get(key, 0) + 1
            _viol(rep, key, '%s  with x = %s' % (what, show(s)), {'kind': 'single', 'level': 's', 'a': s})
        hterms.append('(%s, %s)' % (cq_s(s), 'true' if hashable else 'false'))
        hmetas.append(s)
        for lab, t in partners_for_sig(rng, s, limit):
            if t is None:
                t = s['params'][0]
                # a parameter as partner of a signature: foreign to it
                a = build_obj(s, {})
                outs, bad = decide_pair(a, list(a.parameters.values())[0], False)
                for key, what in bad:
                    _viol(rep, key, '%s  with a = %s, b = its first parameter' % (what, show(s)),
                                  {'kind': 'pair', 'level': 's', 'a': s, 'b': {'own-parameter': True}, 'label': lab})
                evaluations += 1
                continue
            outs = eq_case(rep, s, t, lab, 's', eterms, emetas, hist)
            evaluations += 1
            if 'foreign' in t or (outs[0] == 'T' and t is not s) or (outs[0] == 'F' and not t.get('up', True)):
                rep.distinct.add(('E', s['id'], lab))
        for p in s['params']:
            own_params.append(p)
    # really retrieved signatures
    for r in reals:
        o = resolve_real(r)
        d = describe_sig(o)
        if r['real'][2] != 'inspect':
            hashable, bad = decide_single(o)
            for key, what in bad:
                hist[key] = hist.get(key, 0) + 1
                _viol(rep, key, '%s  with x = sigtools.signature(%s)' % (what, r['real'][1]), {'kind': 'single', 'level': 's', 'a': r})
            hterms.append('(%s, %s)' % (cq_s(d), 'true' if hashable else 'false'))
            hmetas.append(d)
        for p in d['params']:
            own_params.append(p)
    for r in reals:
        if r['real'][2] == 'inspect':
            continue
        mod, nm, var = r['real']
        partners = [('itself', r), ('second-retrieval', {'real': (mod, nm, 'r1' if var == 'r0' else 'r0')}),
                    ('inspect.signature', {'real': (mod, nm, 'inspect')})]
        if mod in TWIN_OF:
            partners += [('twin-namespace', {'real': (TWIN_OF[mod], nm, 'r0')}),
                         ('twin-namespace:inspect.signature', {'real': (TWIN_OF[mod], nm, 'inspect')})]
        others = [x for x in reals if x['real'][1] != nm]
        partners += [('other:' + x['real'][1], x) for x in rng.sample(others, min(6, len(others)))]
        partners += [('foreign:' + fk, {'id': fresh(), 'foreign': fk}) for fk in foreign_kinds('s')]
        d = describe_sig(resolve_real(r))
        for lab, t in sig_variants(rng, d, 8):
            partners.append(('upgraded:' + lab, t))
        for lab, t in partners:
            outs = eq_case(rep, r, t, lab, 's', eterms, emetas, hist)
            evaluations += 1
            rep.distinct.add(('real', nm, var, lab))
    termlists.append(('ok_eq', eterms))
    termlists.append(('ok_shash', hterms))

    # ---- Q: parameters
    qterms, qmetas = [], []
    phterms, phmetas = [], []
    seen = set()
    plist = []
    for p in own_params:
        key = (p['name'], p['kind'], p['def'], p['ann'], p['ua']['u'], p['up'])
        if key in seen:
            continue
        seen.add(key)
        plist.append(p)
    if ctx.quick and len(plist) > 160:
        keep = [p for p in plist if p['ua']['u'][0] == 'D' and p['ua']['u'][2] in TWIN_FN]
        rest = [p for p in plist if not any(p is k for k in keep)]
        plist = rng.sample(rest, min(160, len(rest))) + keep
    for p in plist:
        o = build_param(p, {})
        if p['up']:
            hashable, bad = decide_single(o)
            for key, what in bad:
                hist[key] = hist.get(key, 0) + 1
                _viol(rep, key, '%s  with x = %s' % (what, show(p)), {'kind': 'single', 'level': 'p', 'a': p})
        else:
            hashable = hash_out(o) is not None
        phterms.append('(%s, %s)' % (cq_p(p), 'true' if hashable else 'false'))
        phmetas.append(p)
        partners = [('itself', p), ('fresh-copy', copy_p(p)), ('plain-same-data', copy_p(p, up=False)),
                    ('upgraded-same-data', copy_p(p, up=True))]
        for lab, q in param_variants(p):
            if valid(q):
                partners.append(('upgraded:' + lab, q))
                if lab in ('name', 'kind', 'default', 'annotation'):
                    partners.append(('plain:' + lab, copy_p(q, up=False)))
        for fk in foreign_kinds('p'):
            partners.append(('foreign:' + fk, {'id': fresh(), 'foreign': fk}))
        for lab, q in partners:
            outs = eq_case(rep, p, q, lab, 'p', qterms, qmetas, hist)
            evaluations += 1
            if 'foreign' in q or (outs[0] == 'T' and q is not p) or (outs[0] == 'F' and not q.get('up', True)):
                rep.distinct.add(('Q', p['id'], lab))
    # ---- G: twin namespaces (built objects; the really retrieved ones went through E and Q)
    n_twin = 0
    for fam, fa, fb in twin_pairs():
        for raw in [3, intern_str('Ctx')] + BAD_RAWS:
            for level, a_d, b_d, lab in twin_cases(raw, fa, fb):
                eq_case(rep, a_d, b_d, 'twin-namespace[%s]:%s' % (fam, lab), level,
                        eterms if level == 's' else qterms, emetas if level == 's' else qmetas, hist)
                evaluations += 1
                n_twin += 1
                rep.distinct.add(('G', fam, raw, level, lab))
    rep.coverage['twin_namespace_pairs'] = n_twin
    termlists.append(('ok_peq', qterms))
    termlists.append(('ok_phash', phterms))

    # ---- H: annotation values whose own == does not answer a bool (harness only, no model)
    n_hostile = 0
    hostile_failed = []
    hostile_found = []       # reported after the sections inside the model's value domain
    for modname, nm in hostile_names():
        try:
            n, bad = decide_hostile(modname, nm)
        except Exception as e:  # noqa: BLE001  (retrieval itself is C07's subject)
            hostile_failed.append('%s.%s: %s: %s' % (modname, nm, type(e).__name__, e))
            continue
        n_hostile += n
        evaluations += n
        rep.distinct.add(('H', modname, nm))
        for key, what in bad:
            hist[key] = hist.get(key, 0) + 1
            hostile_found.append((key, what, {'kind': 'hostile', 'module': modname, 'name': nm}))
    rep.coverage['hostile_annotation_checks'] = n_hostile
    rep.coverage['hostile_retrieval_failed'] = hostile_failed

    # ---- F: values not equal to a re-evaluation of themselves (harness only, no model)
    n_fresh = 0
    fresh_failed = []
    for modname, nm in fresh_names():
        try:
            n, bad = decide_fresh(modname, nm)
        except Exception as e:  # noqa: BLE001  (retrieval itself is C07's subject)
            fresh_failed.append('%s: %s: %s' % (nm, type(e).__name__, e))
            continue
        n_fresh += n
        evaluations += n
        rep.distinct.add(('F', modname, nm))
        for key, what in bad:
            hist[key] = hist.get(key, 0) + 1
            _viol(rep, key, what, {'kind': 'fresh', 'module': modname, 'name': nm})
    rep.coverage['fresh_value_checks'] = n_fresh
    rep.coverage['fresh_retrieval_failed'] = fresh_failed

    # ---- W: annotation values that compare equal to everything (harness only, no model)
    n_wild = 0
    wild_hist = {}
    wild_failed = []
    for wk in sorted(_wild_values()):
        try:
            pairs = list(wild_pairs(wk))
            for sa, sb in pairs:
                wild_obj(sa), wild_obj(sb)
        except Exception as e:  # noqa: BLE001  (retrieval itself is C07's subject)
            wild_failed.append('%s: %s: %s' % (wk, type(e).__name__, e))
            continue
        for sa, sb in pairs:
            outs, bad = decide_wild_pair(sa, sb)
            n_wild += 4
            one_sided = _wild_annotated(wild_obj(sa)) != _wild_annotated(wild_obj(sb))
            cls_ = ('one side unannotated where the other is annotated' if one_sided else 'same places annotated') \
                + (', answered equal' if outs[0] == 'T' else ', answered unequal' if outs[0] == 'F' else ', other')
            wild_hist[cls_] = wild_hist.get(cls_, 0) + 1
            if one_sided and outs[0] == 'T':
                rep.distinct.add(('W', tuple(sa), tuple(sb)))
            for key, what in bad:
                hist[key] = hist.get(key, 0) + 1
                _viol(rep, key, what, {'kind': 'wild', 'a': sa, 'b': sb})
    evaluations += n_wild
    rep.coverage['wildcard_annotation_checks'] = n_wild
    rep.coverage['wildcard_annotation_pairs'] = wild_hist
    rep.coverage['wildcard_retrieval_failed'] = wild_failed

    # ---- B: str / bind / bind_partial
    bind_sigs = [(s, None) for s in sigs] + [(None, r) for r in reals if r['real'][2] != 'inspect']
    if ctx.quick:
        bind_sigs = bind_sigs[:220] + bind_sigs[-len(reals):]
    for s, r in bind_sigs:
        o = build_obj(s, {}) if s is not None else resolve_real(r)
        d = s if s is not None else describe_sig(o)
        n_shapes, bad, model = decide_bind(o)
        bad = bad + [(k, w, None) for k, w in bound_eq_bad(o, 'sig', limit=4)]
        n_shapes_total += n_shapes
        for key, what, shape in bad:
            hist[key] = hist.get(key, 0) + 1
            _viol(rep, key, '%s  with sig = %s' % (what, show(d)), {'kind': 'bind', 'a': s if s is not None else r})
        bterms.append('(%s, %s)' % (cq_s(d), cq_list(['(%d%%nat, %s, %s)' % (n, cq_list([str(k) for k in ks]), 'true' if ok else 'false')
                                                       for n, ks, ok in model])))
        bmetas.append(d)
        evaluations += 2 * n_shapes
        rep.distinct.add(('B', str(o)))
    termlists.append(('ok_bind', bterms))
    rep.coverage['bind_shapes'] = n_shapes_total

    # ---- R: replace
    srterms, srmetas = [], []
    prterms, prmetas = [], []
    rsigs = sigs if not ctx.quick else rng.sample(sigs, 120)
    rsigs = list(rsigs) + [describe_sig(resolve_real(r)) for r in reals if r['real'][2] == 'r0']
    for s in rsigs:
        for args in sig_replace_cases(rng, s):
            reg = {}
            rd, bad = run_sig_replace(s, args, reg)
            for key, what in bad:
                hist[key] = hist.get(key, 0) + 1
                _viol(rep, key, '%s  with sig = %s, replace(%s)' % (what, show(s), show_args(args)),
                              {'kind': 'sreplace', 'a': s, 'args': ser_args(args)})
            want = [0] if rd is None else [1] + enc_s(rd)
            srterms.append('(%s, %s, %s)' % (cq_s(s), cq_sreplace(args), cq_list([str(x) for x in want])))
            srmetas.append((s, args, want))
            evaluations += 1
            if args:
                rep.distinct.add(('SR', s['id'], show_args(args)))
    rparams = [p for p in plist if p['up']]
    if ctx.quick and len(rparams) > 80:
        rparams = rng.sample(rparams, 80)
    for p in rparams:
        for args in param_replace_cases(rng, p):
            reg = {}
            rd, bad = run_param_replace(p, args, reg)
            for key, what in bad:
                hist[key] = hist.get(key, 0) + 1
                _viol(rep, key, '%s  with parameter = %s, replace(%s)' % (what, show(p), show_args(args)),
                              {'kind': 'preplace', 'a': p, 'args': ser_args(args)})
            want = [0] if rd is None else [1] + enc_p(rd)
            prterms.append('(%s, %s, %s)' % (cq_p(p), cq_preplace(args), cq_list([str(x) for x in want])))
            prmetas.append((p, args, want))
            evaluations += 1
            if args:
                rep.distinct.add(('PR', p['id'], show_args(args)))
    termlists.append(('ok_srepl', srterms))
    termlists.append(('ok_prepl', prterms))
    for key, what, data in hostile_found:
        _viol(rep, key, what, data)

    # ---- the model
    bad = coq_bad(termlists)
    metas = {'ok_eq': emetas, 'ok_peq': qmetas, 'ok_shash': hmetas, 'ok_phash': phmetas, 'ok_bind': bmetas,
             'ok_srepl': srmetas, 'ok_prepl': prmetas, 'ok_proto': [c for c in pcases for _ in (0, 1)]}
    for fname, i in sorted(bad):
        m = metas[fname][i]
        if fname in ('ok_eq', 'ok_peq'):
            a_d, b_d, lab, outs = m
            rep.corr_break('== / != (%s)' % fname, 'a = %s, b = %s (%s)' % (show(a_d), show(b_d), lab),
                           'model term: ' + (eterms if fname == 'ok_eq' else qterms)[i][:400],
                           '(a==b, b==a, a!=b, b!=a) = %s' % (outs,))
        elif fname == 'ok_proto':
            rep.corr_break('comparison protocol (richcmp vs CPython)', str(m), 'richcmp differs', 'CPython: == %s, != %s' % (m[5], m[6]))
        elif fname in ('ok_srepl', 'ok_prepl'):
            rep.corr_break('replace (%s)' % fname, '%s replace(%s)' % (show(m[0]), show_args(m[1])), 'model result differs',
                           'impl encoding %s' % (m[2],))
        else:
            rep.corr_break(fname, show(m), 'model differs', 'see term')
    rep.evaluations = evaluations
    rep.coverage['finding_histogram'] = hist
    rep.coverage['eq_pairs_signatures'] = len(eterms)
    rep.coverage['eq_pairs_parameters'] = len(qterms)
    rep.coverage['replace_cases'] = len(srterms) + len(prterms)
    rep.coverage['real_signatures'] = len(reals)
    oh = {}
    for a_d, b_d, lab, outs in emetas + qmetas:
        k = lab.split(':')[0] + ':' + ''.join(outs)
        oh[k] = oh.get(k, 0) + 1
    rep.coverage['outcome_histogram'] = oh
    for a_d, b_d, lab, outs in emetas[3:6] + qmetas[3:5]:
        rep.sample({'a': show(a_d), 'b': show(b_d), 'partner': lab, 'a==b,b==a,a!=b,b!=a': ''.join(outs)})
    cleanup()


def show_args(args):
    out = []
    for k, v in args.items():
        if k == 'params':
            out.append('parameters=[%s]' % ', '.join(show(p) for p in v))
        elif k in ('ua', 'ur'):
            out.append('%s=%s' % ({'ua': 'upgraded_annotation', 'ur': 'upgraded_return_annotation'}[k], show_u(v)))
        else:
            out.append('%s=%r' % (k, v))
    return ', '.join(out)


def ser_args(args):
    return args


# ------------------------------------------------------------------ replay
def _fix(d):
    """json round trip: tuples became lists, int keys became strings"""
    if isinstance(d, dict):
        out = {}
        for k, v in d.items():
            if k == 'u':
                out[k] = tuple(v)
            elif k == 'real':
                out[k] = tuple(v)
            elif k in ('srcs', 'deps') and isinstance(v, dict):
                out[k] = {int(kk): vv for kk, vv in v.items()}
            else:
                out[k] = _fix(v)
        return out
    if isinstance(d, list):
        return [_fix(x) for x in d]
    return d


def replay(ctx, data):
    if 'replay' not in data:
        return None          # a no-failing-input-found record: nothing to re-run on the implementation
    r = _fix(data['replay'])
    key = data.get('key')
    for x in r.get('strs', []):
        intern_str(x)
    try:
        bad = _replay_bad(r)
    finally:
        cleanup()
    bad = [x for x in bad if x[0] == key] or bad
    return ('%s: %s' % (bad[0][0], bad[0][1])) if bad else None


def _replay_bad(r):
    kind = r['kind']
    reg = {}
    real_modules()           # registers the functions of the twin namespaces under their fixed ids
    if kind == 'pair':
        a = build_obj(r['a'], reg)
        if r['b'].get('own-parameter'):
            b = list(a.parameters.values())[0]
        else:
            b = build_obj(r['b'], reg)
        return decide_pair(a, b, r['b'].get('foreign') == 'raise')[1]
    if kind == 'single':
        return decide_single(build_obj(r['a'], reg))[1]
    if kind == 'bind':
        o = build_obj(r['a'], reg)
        return [(k, w) for k, w, s in decide_bind(o)[1]] + bound_eq_bad(o, 'sig', limit=4)
    if kind == 'fresh':
        return decide_fresh(r['module'], r['name'])[1]
    if kind == 'hostile':
        return decide_hostile(r['module'], r['name'])[1]
    if kind == 'wild':
        return decide_wild_pair(list(r['a']), list(r['b']))[1]
    if kind == 'sreplace':
        args = dict(r['args'])
        if 'sources' in args:
            sm, dp = args['sources']
            args['sources'] = ({int(k): v for k, v in sm.items()}, {int(k): v for k, v in dp.items()})
        return run_sig_replace(r['a'], args, reg)[1]
    if kind == 'preplace':
        return run_param_replace(r['a'], dict(r['args']), reg)[1]
    return []
