"""C11 — postponed (PEP 563) annotations resolve in their defining context throughout.

Real twin functions are compiled from generated module files (a temporary
directory is put on sys.path): every world exists three times,
  mode 'e'  every module eager,
  mode 'p'  every module starts with `from __future__ import annotations`,
  mode 'x'  modules with an odd index postponed, the others eager,
with identical text otherwise.  Modules bind the annotation spellings T U W X
to objects of a shared values module, differently per module (the same spelling
bound to different objects in different modules; two spellings of one object).

For every case and every mode the check
 (a) compares the implementation's canonicalised answer (parameters with raw
     and upgraded annotations, return annotation, source_value() of every
     wrapper, the whole evaluated() signature) with the Gallina model
     (Model/Annot.v over Model/Algebra.v, evaluated inside Coq) -> corr_break;
 (b) decides the property on the implementation's answer with what the
     generator knows: the object each annotation denotes in the globals of its
     defining function, values given to annotate, the first input's return
     annotation, evaluated() touching nothing else -> rep.violation;
 (c) checks the twin relation: evaluated() of the 'p' and 'x' worlds equals
     evaluated() of the 'e' world.  A difference is the known finding
     C11:raw-compare exactly when the model predicted both answers and two
     related annotated parameters of different inputs have raw equality
     different from value equality in that mode; otherwise C11:twin.
"""
import functools
import importlib
import inspect
import itertools
import os
import shutil
import sys
import tempfile
import types
import warnings
from concurrent.futures import ThreadPoolExecutor

from core import S, PS, id_of_name, name_of, random_sig, KIND_NAMES, classify_exc, mk_desc, tok_sigs
from algebra import ask
import coqrun
from props.c01 import mutate

import sigtools
from sigtools import modifiers

LEVEL = 'proof'
KNOWN_KEY = 'C11:raw-compare'
WRAPS_KEY = 'C11:wraps-globals'
ANNOT_KEY = 'C11:annotate-lost-in-discovery'
NNAMES = 4
# spellings 0..3 are names bound in every module; 4..7 are the string LITERALS 'T' ... 'X'
# written as annotations.  A string object has the same number whether it occurs as the raw
# annotation of a postponed function or as an annotation VALUE (eager `a: 'T'`, or postponed
# `a: 'T'` after evaluation): SPELL_BASE + its index here -- in Python they are equal strings.
# The NAMES are a property of the world (World.spell_names): the neutral T U W X, or names spelled
# like an export of typing (Any, Type, Text, Mapping, Counter, Pattern ...: what a module gets from
# `from collections.abc import Mapping`, `class Any`, `Text = bytes`) or like a builtin (int, list,
# type ...), bound by the module to its OWN objects -- what such a name denotes is what the defining
# module's globals say, whatever typing / builtins call by that name.  SPELL always holds the
# spellings of the world being built / examined (worlds are handled one after the other).
DEFAULT_NAMES = ['T', 'U', 'W', 'X']
SPELL = DEFAULT_NAMES + ["'%s'" % n for n in DEFAULT_NAMES]
TYPING_LIKE = ['Any', 'Type', 'Text', 'Mapping', 'Sequence', 'Callable', 'Counter', 'OrderedDict', 'Pattern',
               'Optional', 'Union', 'List', 'Dict', 'Set', 'Tuple', 'Iterable', 'Match', 'ChainMap', 'Deque',
               'Protocol', 'Generic', 'Final', 'Literal', 'NoReturn', 'ClassVar', 'Hashable', 'Sized', 'TypeVar',
               'AnyStr', 'IO', 'NamedTuple', 'TypedDict', 'Awaitable', 'Coroutine', 'ContextManager', 'Annotated']
BUILTIN_LIKE = ['int', 'str', 'list', 'dict', 'type', 'object', 'bytes', 'float', 'set', 'tuple', 'bool',
                'frozenset', 'complex', 'Exception', 'id', 'property', 'slice', 'range']


def pick_names(rng):
    """four distinct annotation names for a world: at least two spelled like typing exports (one
    drawn from typing.__all__ of the running interpreter), at least one like a builtin"""
    import typing
    import keyword
    exports = sorted(n for n in typing.__all__ if n.isidentifier() and not keyword.iskeyword(n))
    names = [rng.choice([n for n in TYPING_LIKE if n in typing.__all__] or exports), rng.choice(exports),
             rng.choice(BUILTIN_LIKE), rng.choice(TYPING_LIKE + BUILTIN_LIKE + DEFAULT_NAMES)]
    out = []
    for n in names:
        while n in out:
            n = rng.choice(exports)
        out.append(n)
    rng.shuffle(out)
    return out


def pick_spell(rng):
    s = rng.randrange(NNAMES)
    return s + NNAMES if rng.random() < 0.2 else s
SPELL_BASE = 500
NOBJ = 4
# objects 5, 6, 7 are the Python values 1, True, 1.0: equal but not identical.  Only 1 is ever bound to a
# spelling (X, in some modules); True and 1.0 only occur as values given to annotate on ONE function, so
# that the model's equality on numbers stays Python's equality on everything two signatures can compare.
NUM = {5: '1', 6: 'True', 7: '1.0'}
# object 8 is a wildcard: an instance whose __eq__ answers True and whose __ne__ answers False for
# everything, the inspect.Parameter.empty sentinel included (like unittest.mock.ANY).  It is an
# annotation like any other: what it DENOTES is the object itself (identity).  Only the worlds of the
# wildcard family bind a spelling to it / give it to annotate.  The model compares annotation values
# as numbers (identity), so a case in which a wildcard-annotated parameter is CONCILED with a
# parameter of another input is examined without the model (see wild_names): by the oracle (which
# concils with Python's equality: the wildcard equals everything, the left annotation is kept) and
# by the twin relation.  A failure there has the key WILD_KEY (sigtools before 4d2de25 recognised a
# missing annotation with `!= empty`, which the wildcard answers False: the annotation was dropped
# for eager functions and kept for postponed ones).
WILD = 8
WILD_KEY = 'C11:wildcard-conciled'
MODES = ('e', 'p', 'x')
NBASE = 3          # modules 0..2 hold plain functions, 3..4 hold forwarding wrappers
NMOD = 5
POS = ('PO', 'PK')
_COUNTER = itertools.count()
_WORLDS = []
inspect_empty = inspect.Parameter.empty
RAISED = object()


def mode_flag(mode, m):
    return {'e': False, 'p': True, 'x': m % 2 == 1}[mode]


def spec_flag(mode, spec):
    """the future flag of the CODE OBJECT of a function: a re-homed sibling keeps the
    flag of the module its code was compiled in, a template that of the template file"""
    return mode_flag(mode, spec.get('flagmod', spec['mod']))


TPL_MOD = 5        # pseudo module index of the template file (flag only; odd: postponed in mode x)


# ---------------------------------------------------------------- worlds
def owner(world, spec):
    """the function that DEFINED the annotations a function object carries: for a
    functools.wraps / update_wrapper wrapper, the wrapped function"""
    w = spec.get('wraps')
    return world.funcs[w['of']] if w else spec


def fn_source(spec, modalias):
    w = spec.get('wraps')
    if w:
        target = '%s.f%d' % (modalias.get(w['cmod'], 'cm%d' % w['cmod']), w['of'])
        body = 'def f%d(*args, **kwargs):\n    return %s(*args, **kwargs)\n' % (spec['fid'], target)
        if w['how'] == 'wraps':
            return '@functools.wraps(%s)\n%s' % (target, body)
        return body + 'functools.update_wrapper(f%d, %s)\n' % (spec['fid'], target)
    parts = []
    prev = None
    for nm, k, de, sp in spec['params']:
        if prev == 'PO' and k != 'PO':
            parts.append('/')
        if k == 'KO' and prev not in ('VP', 'KO'):
            parts.append('*')
        s = {'VP': '*', 'VK': '**'}.get(k, '') + name_of(nm)
        if sp is not None:
            s += ': ' + SPELL[sp]
        if de is not None:
            s += (' = ' if sp is not None else '=') + ('None' if de == 0 else str(de))
        parts.append(s)
        prev = k
    if prev == 'PO':
        parts.append('/')
    head = 'def %s(%s)' % (spec.get('defname') or 'f%d' % spec['fid'], ', '.join(parts))
    if spec['ret'] is not None:
        head += ' -> ' + SPELL[spec['ret']]
    call = spec.get('call')
    if not call:
        return head + ':\n    return None\n'
    args = [str(7 + i) for i in range(call['n'])]
    if call['va']:
        args.append('*' + call['va'])
    args += ['%s=%d' % (name_of(k), 8) for k in call['kw']]
    if call['vk']:
        args.append('**' + call['vk'])
    return head + ':\n    return %s.f%d(%s)\n' % (modalias[call['cmod']], call['callee'], ', '.join(args))


class World(object):
    """bindings: per module {spelling index: object id}; funcs: list of specs."""

    def __init__(self, bindings, funcs, spell_names=None):
        self.spell_names = list(spell_names or DEFAULT_NAMES)
        assert len(self.spell_names) == NNAMES and len(set(self.spell_names)) == NNAMES
        self.activate()
        self.bindings = [{int(k): v for k, v in b.items()} for b in bindings]
        for b in self.bindings:
            for i in range(NNAMES):
                b[NNAMES + i] = SPELL_BASE + i      # the literal 'T' denotes the string 'T' everywhere
        self.funcs = {f['fid']: f for f in funcs}
        self.uniq = 'c11w%d_%d' % (os.getpid(), next(_COUNTER))
        self.dir = tempfile.mkdtemp(prefix='verif-c11-')
        self.objs = {}
        self.fid_of = {}
        self.keep = []
        self.modnames = []
        self.seen = []           # fids in the order their signature was first retrieved
        self.sibgroup = {}       # fid -> key of the group of functions sharing one code object
        for f in funcs:
            sib = f.get('sib')
            if sib:
                key = ('tpl', sib['tpl']) if sib['kind'] == 'exec' else ('of', sib['of'])
                self.sibgroup[f['fid']] = key
                if sib['kind'] == 'rehome':
                    self.sibgroup[sib['of']] = key
        _WORLDS.append(self)
        sys.path.insert(0, self.dir)
        vals = self.uniq + '_vals'
        with open(os.path.join(self.dir, vals + '.py'), 'w') as f:
            f.write('class V(object):\n    def __init__(self, n):\n        self.n = n\n'
                    '    def __repr__(self):\n        return "v%d" % self.n\n')
            for i in range(1, NOBJ + 1):
                f.write('v%d = V(%d)\n' % (i, i))
            for i, txt in sorted(NUM.items()):
                f.write('v%d = %s\n' % (i, txt))
            f.write('class Wild(object):\n    def __eq__(self, other):\n        return True\n'
                    '    def __ne__(self, other):\n        return False\n    __hash__ = object.__hash__\n'
                    '    def __repr__(self):\n        return "WILD"\nv%d = Wild()\n' % WILD)
        importlib.invalidate_caches()
        self.vals = importlib.import_module(vals)
        self.modnames.append(vals)
        self.obj = {i: getattr(self.vals, 'v%d' % i) for i in list(range(1, NOBJ + 1)) + sorted(NUM) + [WILD]}
        self.has_wild = any(v == WILD for b in self.bindings for v in b.values())
        self.obj_id = {id(o): i for i, o in self.obj.items()}
        for i in range(len(SPELL)):
            self.obj[SPELL_BASE + i] = SPELL[i]
        for mode in MODES:
            self._build(mode)

    def _build(self, mode):
        bymod = {}
        for spec in self.funcs.values():
            if not spec.get('sib'):
                bymod.setdefault(spec['mod'], []).append(spec)
        for m in range(NMOD):
            bymod.setdefault(m, [])      # every module exists (and is in sys.modules) in every world
        names = {m: '%s_%s_m%d' % (self.uniq, mode, m) for m in range(NMOD)}
        alias = {m: 'cm%d' % m for m in range(NMOD)}
        for m in sorted(bymod):
            src = []
            if mode_flag(mode, m):
                src.append('from __future__ import annotations')
            src.append('from %s_vals import %s' % (self.uniq, ', '.join(
                'v%d as %s' % (self.bindings[m][s], SPELL[s]) for s in range(NNAMES))))
            src.append('import functools')
            for cm in sorted({sp['call']['cmod'] for sp in bymod[m] if sp.get('call')}
                             | {sp['wraps']['cmod'] for sp in bymod[m] if sp.get('wraps')}):
                src.append('import %s as %s' % (names[cm], alias[cm]))
            src.append('')
            for spec in sorted(bymod[m], key=lambda s: s['fid']):
                src.append(fn_source(spec, alias))
            with open(os.path.join(self.dir, names[m] + '.py'), 'w') as f:
                f.write('\n'.join(src))
        importlib.invalidate_caches()
        self.objs[mode] = {}
        for m in sorted(bymod):
            mod = importlib.import_module(names[m])
            self.modnames.append(names[m])
            for spec in bymod[m]:
                fn = getattr(mod, 'f%d' % spec['fid'])
                self.objs[mode][spec['fid']] = fn
                self.register(fn, spec['fid'])
        self._build_siblings(mode, names)
        # re-exported functions: __module__ names another real module (the `set_module` idiom);
        # their globals, hence what their annotations denote, stay those of the defining module
        for spec in self.funcs.values():
            if spec.get('reexport') is not None:
                self.objs[mode][spec['fid']].__module__ = names[spec['reexport']]

    def _namespace(self, m, name):
        ns = {'__name__': name}
        for s in range(NNAMES):
            ns[SPELL[s]] = self.obj[self.bindings[m][s]]
        return ns

    def _build_siblings(self, mode, names):
        """functions that SHARE ONE CODE OBJECT under different globals:
        'exec'   one template file compiled once, the code object executed in one
                 namespace per binding table;
        'rehome' types.FunctionType(f.__code__, <dict of another module>) (the eager
                 twin gets the objects the spellings denote in the new globals as
                 __annotations__, as if its def statement had run there)."""
        sibs = [sp for sp in self.funcs.values() if sp.get('sib')]
        tpls = {}
        for sp in sibs:
            if sp['sib']['kind'] == 'exec':
                tpls.setdefault(sp['sib']['tpl'], sp)
        if tpls:
            src = ['from __future__ import annotations'] if mode_flag(mode, TPL_MOD) else []
            src.append('')
            for tid in sorted(tpls):
                src.append(fn_source(tpls[tid], {}))
            path = os.path.join(self.dir, '%s_%s_tpl.py' % (self.uniq, mode))
            with open(path, 'w') as f:
                f.write('\n'.join(src))
            code = compile('\n'.join(src), path, 'exec', dont_inherit=True)     # compiled ONCE
            spaces = {}
            for sp in sibs:
                if sp['sib']['kind'] != 'exec':
                    continue
                m = sp['mod']
                if m not in spaces:
                    spaces[m] = self._namespace(m, names[(m + 1) % NBASE])   # __name__ of another real module
                    exec(code, spaces[m])                                         # executed per namespace
                fn = spaces[m][sp['defname']]
                self.objs[mode][sp['fid']] = fn
                self.register(fn, sp['fid'])
        for sp in sibs:
            if sp['sib']['kind'] != 'rehome':
                continue
            f = self.objs[mode][sp['sib']['of']]
            target = sys.modules[names[sp['mod']]] if names[sp['mod']] in sys.modules else None
            glob = target.__dict__ if target is not None else self._namespace(sp['mod'], 'rehome')
            g = types.FunctionType(f.__code__, glob, f.__name__, f.__defaults__, f.__closure__)
            g.__kwdefaults__ = dict(f.__kwdefaults__) if f.__kwdefaults__ else None
            if spec_flag(mode, sp):
                g.__annotations__ = dict(f.__annotations__)
            else:
                ann = {name_of(nm): self.obj[self.bindings[sp['mod']][s]] for nm, k, de, s in sp['params'] if s is not None}
                if sp['ret'] is not None:
                    ann['return'] = self.obj[self.bindings[sp['mod']][sp['ret']]]
                g.__annotations__ = ann
            g.__module__ = glob.get('__name__')
            self.objs[mode][sp['fid']] = g
            self.register(g, sp['fid'])

    def activate(self):
        """make this world's spellings the current ones"""
        SPELL[:] = self.spell_names + ["'%s'" % n for n in self.spell_names]

    def note(self, fid):
        if fid not in self.seen:
            self.seen.append(fid)

    def history(self, fids):
        """siblings (same code object) of the given functions whose signature was
        retrieved earlier in this process, in retrieval order"""
        keys = {self.sibgroup[f] for f in fids if f in self.sibgroup}
        return [f for f in self.seen if self.sibgroup.get(f) in keys]

    def register(self, obj, fid):
        self.keep.append(obj)
        self.fid_of[id(obj)] = fid

    def clone(self, f, fid):
        g = types.FunctionType(f.__code__, f.__globals__, f.__name__, f.__defaults__, f.__closure__)
        g.__kwdefaults__ = dict(f.__kwdefaults__) if f.__kwdefaults__ else None
        g.__annotations__ = dict(f.__annotations__)
        g.__module__ = f.__module__
        g.__qualname__ = f.__qualname__
        self.register(g, fid)
        return g

    def truth(self, spec, sp):
        return None if sp is None else self.bindings[owner(self, spec)['mod']][sp]

    def close(self):
        for n in self.modnames:
            sys.modules.pop(n, None)
        if self.dir in sys.path:
            sys.path.remove(self.dir)
        shutil.rmtree(self.dir, ignore_errors=True)

    def data(self, fids):
        need = set(fids)
        for f in list(need):
            c = self.funcs[f].get('call')
            if c:
                need.add(c['callee'])
            sib = self.funcs[f].get('sib')
            if sib and sib['kind'] == 'rehome':
                need.add(sib['of'])
            if self.funcs[f].get('wraps'):
                need.add(self.funcs[f]['wraps']['of'])
        return {'bindings': self.bindings, 'funcs': [self.funcs[f] for f in sorted(need)],
                'spell_names': self.spell_names}


def cleanup(ctx=None):
    while _WORLDS:
        _WORLDS.pop().close()


# ---------------------------------------------------------------- generation
def _annotate_spec(rng, ps, density):
    out = []
    for p in ps:
        nm, k, de = p[0], p[1], p[2]
        if de is not None:
            de = rng.choice([0, 1, 1, 2])
        pr = density * (0.5 if k in ('VP', 'VK') else 1.0)
        out.append([nm, k, de, pick_spell(rng) if rng.random() < pr else None])
    return out


def gen_world(rng, nfam=14, nrand=10, ninner=10, nwrap=24, ntpl=10, nrehome=12, nwraps=20, wild=False, spell_names=None):
    bindings = [{s: rng.randint(1, NOBJ) for s in range(NNAMES)} for _ in range(NMOD)]
    # two spellings of one object in module 0; one spelling, different objects in modules 0 / 1
    bindings[0][2] = bindings[0][0]
    if bindings[1][0] == bindings[0][0]:
        bindings[1][0] = bindings[0][0] % NOBJ + 1
    bindings[2][1] = bindings[0][0]
    for m in rng.sample(range(NMOD), 2):
        bindings[m][3] = 5          # X = 1 (the int), see NUM
    if wild:
        # a spelling denotes the wildcard object in three of the modules (not always the same
        # spelling: one spelling then denotes the wildcard here and an ordinary object there)
        for m in rng.sample(range(NMOD), 3):
            bindings[m][rng.choice([1, 2, 3]) if m else rng.choice([1, 3])] = WILD
    funcs = []
    fid = itertools.count(100)

    def add(m, ps, group, density=0.6, call=None):
        spec = {'fid': next(fid), 'mod': m, 'params': _annotate_spec(rng, ps, density),
                'ret': pick_spell(rng) if rng.random() < 0.6 else None,
                'group': group, 'call': call}
        if rng.random() < 0.15:
            spec['reexport'] = rng.choice([x for x in range(NMOD) if x != m])
        funcs.append(spec)
        return spec

    for fam in range(nfam):
        base = random_sig(rng, 'abcde', 5)
        for m in range(NBASE):
            for _ in range(rng.choice([1, 2])):
                add(m, mutate(rng, base), 'A%d' % fam, 0.7)
    for _ in range(nrand):
        for m in range(NBASE):
            add(m, random_sig(rng, 'abc', 3), 'B')
    for _ in range(ninner):
        for m in range(NBASE):
            add(m, random_sig(rng, 'efgh', 3), 'C')
    plain = list(funcs)
    # functions sharing one code object under different globals
    for tid in range(ntpl):
        base = _annotate_spec(rng, random_sig(rng, 'abcd', 4), 0.8)
        r = pick_spell(rng) if rng.random() < 0.7 else None
        for m in rng.sample(range(NBASE), rng.choice([2, 3])):
            funcs.append({'fid': next(fid), 'mod': m, 'flagmod': TPL_MOD, 'params': [list(p) for p in base], 'ret': r,
                          'group': 'S', 'call': None, 'defname': 't%d' % tid, 'sib': {'kind': 'exec', 'tpl': tid}})
    for orig in rng.sample(plain, min(nrehome, len(plain))):
        m2 = rng.choice([m for m in range(NBASE) if m != orig['mod']])
        funcs.append({'fid': next(fid), 'mod': m2, 'flagmod': orig['mod'], 'params': [list(p) for p in orig['params']],
                      'ret': orig['ret'], 'group': 'S', 'call': None, 'defname': 'f%d' % orig['fid'],
                      'sib': {'kind': 'rehome', 'of': orig['fid']}})
    # functools.wraps / update_wrapper wrappers defined in ANOTHER module (own binding table)
    for wrapped in rng.sample(plain, min(nwraps, len(plain))):
        funcs.append({'fid': next(fid), 'mod': rng.choice([3, 4]), 'params': [list(p) for p in wrapped['params']],
                      'ret': wrapped['ret'], 'group': 'V', 'call': None,
                      'wraps': {'of': wrapped['fid'], 'cmod': wrapped['mod'],
                                'how': rng.choice(['wraps', 'update_wrapper'])}})
    for _ in range(nwrap):
        m = rng.choice([3, 4])
        same_module = rng.random() < 0.3
        outer = [p for p in random_sig(rng, 'xyz', 2, star_names=(('args', 'kwargs'),)) if p[1] not in ('VP', 'VK')]
        npos = len([p for p in outer if p[1] in POS])
        va, vk = rng.choice([(True, True), (True, True), (True, False), (False, True)])
        if va:
            outer = outer[:npos] + [(id_of_name('args'), 'VP', None, None, ('E',))] + outer[npos:]
        if vk:
            outer = outer + [(id_of_name('kwargs'), 'VK', None, None, ('E',))]
        callee = rng.choice(plain)      # (never a sibling: wrappers import real modules)
        if same_module:
            m = callee['mod']       # forwarding to a function of its own module (through a self-import)
        kwable = [p[0] for p in callee['params'] if p[1] in ('PK', 'KO')]
        kw = rng.sample(kwable, 1) if kwable and rng.random() < 0.3 else []
        fva = 'args' if va and (not vk or rng.random() < 0.9) else None
        fvk = 'kwargs' if vk and (fva is None or rng.random() < 0.9) else None
        add(m, outer, 'W', 0.7, call={'callee': callee['fid'], 'cmod': callee['mod'],
                                      'n': rng.choice([0, 0, 0, 1]), 'kw': kw, 'va': fva, 'vk': fvk})
    return World(bindings, funcs, spell_names)


def given_value(rng, world, f, sp, single):
    """a value for modifiers.annotate over a parameter / return annotation spelled sp (or
    None): often one that compares EQUAL to what is already there without being it --
    the string spelled exactly like the syntax annotation (equal to the raw annotation of
    a future-flag function), or True / 1.0 over the int 1 (only when no second signature
    is involved, see NUM)"""
    if world.has_wild and rng.random() < 0.3:
        return WILD
    if sp is not None and rng.random() < 0.5:
        if single and world.truth(f, sp) == 5 and rng.random() < 0.7:
            return rng.choice([6, 7])
        return SPELL_BASE + sp
    return rng.randint(1, NOBJ)


def given_anns(rng, world, f, k, single):
    byname = {p[0]: p[3] for p in f['params']}
    ns = sorted(byname)
    # prefer parameters that already carry an annotation
    ns.sort(key=lambda x: (byname[x] is None, rng.random()))
    return [[x, given_value(rng, world, f, byname[x], single)] for x in ns[:rng.randint(0, min(k, len(ns)))]]


def gen_cases(rng, world, n):
    fs = list(world.funcs.values())
    groups = {}
    for f in fs:
        groups.setdefault(f['group'], []).append(f)
    fams = [g for g in groups if g.startswith('A')]
    plain = [f for f in fs if f['group'] not in ('W', 'V')]
    outers = [f for f in fs if f['group'] in ('B',) or f['group'].startswith('A')]
    cases = []

    def related(k):
        if rng.random() < 0.75:
            g = groups[rng.choice(fams)]
        else:
            g = groups['B']
        return [rng.choice(g)['fid'] for _ in range(k)]

    def kwnames(f, extra=True):
        ns = [p[0] for p in f['params'] if p[1] in ('PK', 'KO')]
        if extra:
            ns.append(id_of_name('z'))
        return ns

    sibsets = {}
    for fid_, key in world.sibgroup.items():
        sibsets.setdefault(key, []).append(fid_)
    sibsets = [sorted(v) for k_, v in sorted(sibsets.items()) if len(v) >= 2]

    def sibling_case():
        """one code object, several globals: retrieve a sibling first ('prime'),
        then observe / transform / combine another one; both orders occur"""
        grp = rng.choice(sibsets)
        a, b_ = rng.sample(grp, 2)
        f = world.funcs[b_]
        k2 = rng.random()
        if k2 < 0.25:
            return {'op': rng.choice(['sig', 'ssig']), 'f': [b_], 'prime': [a]}
        if k2 < 0.45:
            return {'op': 'merge', 'f': [a, b_] + ([rng.choice(grp)] if rng.random() < 0.2 else [])}
        if k2 < 0.55:
            ns = kwnames(f)
            return {'op': 'mask', 'f': [b_], 'prime': [a], 'n': rng.randint(0, 2),
                    'names': rng.sample(ns, rng.randint(0, min(1, len(ns)))), 'flags': [False] * 4}
        if k2 < 0.65:
            ns = kwnames(f)
            kw = rng.sample(ns, rng.randint(0, min(1, len(ns))))
            return {'op': 'partial', 'f': [b_], 'prime': [a], 'n': rng.randint(0, 1),
                    'kw': [[x, 5 + j] for j, x in enumerate(kw)]}
        if k2 < 0.75:
            pks = [p[0] for p in f['params'] if p[1] == 'PK']
            kwos = [x for x in pks if rng.random() < 0.5]
            if kwos:
                return {'op': 'kwo', 'f': [b_], 'prime': [a], 'posos': [], 'kwos': kwos}
            return {'op': 'sig', 'f': [b_], 'prime': [a]}
        if k2 < 0.88:
            i = rng.choice(groups['C'])
            return {'op': 'forwards', 'f': [b_, i['fid']], 'prime': [a], 'n': 0, 'names': [],
                    'ha': False, 'hk': False, 'uva': True, 'uvk': True, 'partial': False}
        anns = given_anns(rng, world, f, 1, True)
        return {'op': 'annot', 'f': [b_], 'prime': [a], 'anns': anns,
                'retv': given_value(rng, world, f, f['ret'], True) if not anns else None}

    def wraps_case():
        """a wraps-wrapper through signatures.signature, sigtools.signature and the algebra"""
        w = rng.choice(groups['V'])
        k2 = rng.random()
        if k2 < 0.25:
            return {'op': 'sig', 'f': [w['fid']]}
        if k2 < 0.5:
            return {'op': 'wauto', 'f': [w['fid']]}
        if k2 < 0.6:
            ns = kwnames(w)
            return {'op': 'mask', 'f': [w['fid']], 'n': rng.randint(0, 2),
                    'names': rng.sample(ns, rng.randint(0, min(1, len(ns)))), 'flags': [False] * 4}
        if k2 < 0.7:
            ns = kwnames(w)
            kw = rng.sample(ns, rng.randint(0, min(1, len(ns))))
            return {'op': 'partial', 'f': [w['fid']], 'n': rng.randint(0, 1), 'kw': [[x, 5 + j] for j, x in enumerate(kw)]}
        if k2 < 0.85:
            g_ = world.funcs[w['wraps']['of']]['group']
            other = rng.choice(groups[g_] if g_ in groups and not g_.startswith('S') else groups['B'])
            f = [w['fid'], other['fid']]
            if rng.random() < 0.5:
                f.reverse()
            return {'op': 'merge', 'f': f}
        o = rng.choice(outers)
        return {'op': 'forwards', 'f': [o['fid'], w['fid']], 'n': 0, 'names': [],
                'ha': False, 'hk': False, 'uva': True, 'uvk': True, 'partial': False}

    for _ in range(n):
        k = rng.random()
        if sibsets and rng.random() < 0.12:
            cases.append(sibling_case())
            continue
        if groups.get('V') and rng.random() < 0.08:
            cases.append(wraps_case())
            continue
        if rng.random() < 0.06:
            w = rng.choice(groups['W'])
            anns = given_anns(rng, world, w, 2, False)
            retv = given_value(rng, world, w, w['ret'], False) if rng.random() < 0.5 or not anns else None
            c = {'op': 'annauto', 'f': [w['fid']], 'anns': anns, 'retv': retv}
            pks = [p[0] for p in w['params'] if p[1] == 'PK']
            if pks and rng.random() < 0.3:
                c['kwos'] = [x for x in pks if rng.random() < 0.6] or [pks[-1]]
            cases.append(c)
            continue
        if k < 0.30:
            cases.append({'op': 'merge', 'f': related(rng.choice([2, 2, 2, 3]))})
        elif k < 0.42:
            f = [rng.choice(outers)['fid'], rng.choice(groups['C'])['fid']]
            if rng.random() < 0.2:
                f.append(rng.choice(groups['C'])['fid'])
            cases.append({'op': 'embed', 'f': f, 'uva': rng.random() < 0.85, 'uvk': rng.random() < 0.85})
        elif k < 0.50:
            f = rng.choice(plain)
            ns = kwnames(f)
            cases.append({'op': 'mask', 'f': [f['fid']], 'n': rng.randint(0, 3),
                          'names': rng.sample(ns, rng.randint(0, min(2, len(ns)))),
                          'flags': [rng.random() < 0.12 for _ in range(4)]})
        elif k < 0.60:
            o, i = rng.choice(outers), rng.choice(groups['C'])
            ns = kwnames(i, False)
            cases.append({'op': 'forwards', 'f': [o['fid'], i['fid']], 'n': rng.randint(0, 2),
                          'names': rng.sample(ns, rng.randint(0, min(1, len(ns)))),
                          'ha': rng.random() < 0.1, 'hk': rng.random() < 0.1,
                          'uva': rng.random() < 0.85, 'uvk': rng.random() < 0.85,
                          'partial': rng.random() < 0.2})
        elif k < 0.68:
            f = rng.choice(plain)
            ns = kwnames(f)
            kw = rng.sample(ns, rng.randint(0, min(2, len(ns))))
            cases.append({'op': 'partial', 'f': [f['fid']], 'n': rng.randint(0, 2),
                          'kw': [[x, 5 + j] for j, x in enumerate(kw)]})
        elif k < 0.72:
            cases.append({'op': 'sig', 'f': [rng.choice(fs)['fid']]})
        elif k < 0.76:
            cases.append({'op': 'ssig', 'f': [rng.choice(plain)['fid']]})
        elif k < 0.84:
            f = rng.choice(plain)
            pks = [p[0] for p in f['params'] if p[1] == 'PK']
            npo = rng.randint(0, len(pks)) if rng.random() < 0.5 else 0
            posos = pks[:npo]
            kwos = [x for x in pks[npo:] if rng.random() < 0.5]
            if not posos and not kwos:
                cases.append({'op': 'sig', 'f': [f['fid']]})
            else:
                cases.append({'op': 'kwo', 'f': [f['fid']], 'posos': posos, 'kwos': kwos})
        elif k < 0.92:
            fids = related(2)
            f = world.funcs[fids[0]]
            single = rng.random() < 0.5
            anns = given_anns(rng, world, f, 2, single)
            retv = given_value(rng, world, f, f['ret'], single) if rng.random() < 0.5 or not anns else None
            c = {'op': 'annot', 'f': [fids[0]], 'anns': anns, 'retv': retv}
            if not single:
                c['f'].append(fids[1])
            cases.append(c)
        else:
            cases.append({'op': 'auto', 'f': [rng.choice(groups['W'])['fid']]})
    # the names the annotations spell are bound (or bound to what they finally denote) only AFTER the
    # signatures were retrieved: see impl_call
    for c in cases:
        if rng.random() < 0.12:
            c['late'] = rng.choice(['unbound', 'stale'])
    return cases


# ---------------------------------------------------------------- implementation side
def impl_call(world, case, mode):
    """With case['late']: while the operation runs -- explicit retrieval by signatures.signature /
    sigtools.signature, decoration-time retrieval by kwoargs / posoargs / annotate, every
    combination -- the spellings are not bound yet ('unbound': a forward reference) or still bound
    to something else ('stale') in the globals of every function involved; the final bindings are
    made afterwards, before anything is evaluated.  A postponed annotation denotes what its spelling
    is bound to in the defining globals WHEN IT IS EVALUATED (the code evaluates lazily in the live
    __globals__), so answers, model and oracle are those of the same case without 'late'; eager
    functions evaluated their annotations when they were defined and are not concerned."""
    if not case.get('late'):
        return impl_call_now(world, case, mode)
    F = world.objs[mode]
    spaces = {}
    for f in all_fids(world, case):
        fn = F[f]
        glob = getattr(fn, '__globals__', None)
        if glob is not None:
            spaces[id(glob)] = glob
    saved = []
    for glob in spaces.values():
        for i in range(NNAMES):
            nm = SPELL[i]
            if nm in glob:
                saved.append((glob, nm, glob[nm]))
                if case['late'] == 'unbound':
                    del glob[nm]
                else:
                    glob[nm] = world.obj[1 + (i + 1) % NOBJ] if glob[nm] is not world.obj[1 + (i + 1) % NOBJ] \
                        else world.obj[1 + (i + 2) % NOBJ]
    try:
        return impl_call_now(world, case, mode)
    finally:
        for glob, nm, val in saved:
            glob[nm] = val


def impl_call_now(world, case, mode):
    F = world.objs[mode]
    fs = case['f']
    op = case['op']

    def sg(fid):
        world.note(fid)
        return PS.signature(F[fid])
    for f in case.get('prime', ()):
        sg(f)                      # retrieved first; its result is not used
    for f in fs:
        world.note(f)
    if op == 'sig':
        return sg(fs[0])
    if op in ('ssig', 'wauto'):
        return sigtools.signature(F[fs[0]])
    if op == 'merge':
        return PS.merge(*[sg(f) for f in fs])
    if op == 'embed':
        return PS.embed(*[sg(f) for f in fs], use_varargs=case['uva'], use_varkwargs=case['uvk'])
    if op == 'mask':
        ha, hk, hva, hvk = case['flags']
        return PS.mask(sg(fs[0]), case['n'], *[name_of(x) for x in case['names']],
                       hide_args=ha, hide_kwargs=hk, hide_varargs=hva, hide_varkwargs=hvk)
    if op == 'forwards':
        return PS.forwards(sg(fs[0]), sg(fs[1]), case['n'], *[name_of(x) for x in case['names']],
                           hide_args=case['ha'], hide_kwargs=case['hk'], use_varargs=case['uva'],
                           use_varkwargs=case['uvk'], partial=case['partial'])
    if op == 'partial':
        par = functools.partial(F[fs[0]], *([7] * case['n']), **{name_of(x): v for x, v in case['kw']})
        world.register(par, 3000)
        return PS.signature(par)
    if op == 'kwo':
        c = world.clone(F[fs[0]], fs[0])
        if case['posos']:
            c = modifiers.posoargs(*[name_of(x) for x in case['posos']])(c)
        if case['kwos']:
            c = modifiers.kwoargs(*[name_of(x) for x in case['kwos']])(c)
        world.register(c, 4000)
        return sigtools.signature(c)
    if op == 'annot':
        c = world.clone(F[fs[0]], fs[0])
        args = [world.obj[case['retv']]] if case['retv'] is not None else []
        modifiers.annotate(*args, **{name_of(x): world.obj[v] for x, v in case['anns']})(c)
        s = PS.signature(c)
        if len(fs) > 1:
            s = PS.merge(s, sg(fs[1]))
        return s
    if op == 'auto':
        return sigtools.signature(F[fs[0]])
    if op == 'annauto':
        # modifiers.annotate on a forwarding function (optionally with a kwoargs translator
        # underneath), then automatic discovery
        c = world.clone(F[fs[0]], fs[0])
        if case.get('kwos'):
            c = modifiers.kwoargs(*[name_of(x) for x in case['kwos']])(c)
            world.register(c, 4000)
        args = [world.obj[case['retv']]] if case['retv'] is not None else []
        modifiers.annotate(*args, **{name_of(x): world.obj[v] for x, v in case['anns']})(c)
        return sigtools.signature(c)
    raise ValueError(op)


def c_ann(world, v):
    if v is inspect_empty:
        return None
    if isinstance(v, str):
        return SPELL_BASE + SPELL.index(v) if v in SPELL else 990
    return world.obj_id.get(id(v), 9999)


def c_def(v):
    if v is inspect_empty:
        return None
    if v is None:
        return 0
    if isinstance(v, int) and not isinstance(v, bool) and 0 < v < 100:
        return v
    return 9997


def c_uann(world, u):
    if isinstance(u, S._EmptyAnnotation):
        return ('E',)
    if isinstance(u, S._PreEvaluatedAnnotation):
        return ('P', c_ann(world, u._annotation) if u._annotation is not inspect_empty else 9996)
    if isinstance(u, S._PostponedAnnotation):
        return ('D', c_ann(world, u._raw_annotation), world.fid_of.get(id(u._function), 9995))
    return ('P', 9994)


def canon_params(world, sig):
    return [(id_of_name(p.name), KIND_NAMES[p.kind], c_def(p.default), c_ann(world, p.annotation),
             c_uann(world, getattr(p, 'upgraded_annotation', None))) for p in sig.parameters.values()]


def run_impl(world, case, mode):
    """-> answer dict; every direct observation the oracle needs is taken here."""
    try:
        with warnings.catch_warnings():
            warnings.simplefilter('ignore')
            sig = impl_call(world, case, mode)
    except Exception as e:  # noqa: BLE001
        return {'ok': False, 'err': classify_exc(e), 'msg': '%s: %s' % (type(e).__name__, str(e)[:120])}
    notes = []
    ans = {'ok': True, 'notes': notes, 'text': str(sig)}
    try:
        with warnings.catch_warnings():
            warnings.simplefilter('ignore')
            ans['params'] = canon_params(world, sig)
            ans['ret'] = c_ann(world, sig.return_annotation)
            ans['uret'] = c_uann(world, getattr(sig, 'upgraded_return_annotation', None))
            svs = []
            svobj = []
            raised = []

            def value_of(u, what):
                try:
                    return u.source_value()
                except Exception as e:  # noqa: BLE001
                    raised.append('%s: %s: %s' % (what, type(e).__name__, str(e)[:80]))
                    return RAISED
            for p in sig.parameters.values():
                v = value_of(p.upgraded_annotation, p.name)
                svobj.append(v)
                svs.append(None if v is RAISED else c_ann(world, v))
            ans['svs'] = svs
            rv = value_of(sig.upgraded_return_annotation, 'return')
            ans['svr'] = None if rv is RAISED else c_ann(world, rv)
            if raised:
                # the model has no exceptions: an unresolvable wrapper evaluates to None there, and
                # evaluated() is the parameters with these values.  The raise itself is reported.
                notes.append(('C11:eval-raises', 'source_value() raised for ' + '; '.join(raised)))
                ans['raised'] = True
                ans['etext'] = '<evaluated() raises: %s>' % '; '.join(raised)
                ans['eps'] = [(p[0], p[1], p[2], sv, p[4]) for p, sv in zip(ans['params'], svs)]
                ans['eret'] = ans['svr']
                return ans
            ev = sig.evaluated()
            ans['etext'] = str(ev)
            ans['eps'] = canon_params(world, ev)
            ans['eret'] = c_ann(world, ev.return_annotation)
            # evaluated() replaces each annotation by the wrapper's value and touches nothing else
            evp = list(ev.parameters.values())
            sp = list(sig.parameters.values())
            if len(evp) != len(sp):
                notes.append(('C11:evaluated-other', 'evaluated() changed the number of parameters'))
            for a, b_, v in zip(sp, evp, svobj):
                if b_.annotation is not v:
                    notes.append(('C11:evaluated-value', 'evaluated() gives %s the annotation %r, source_value() is %r' % (a.name, b_.annotation, v)))
                if (a.name, a.kind) != (b_.name, b_.kind) or a.default is not b_.default:
                    notes.append(('C11:evaluated-other', 'evaluated() changed name/kind/default of %s' % a.name))
                if b_.upgraded_annotation is not a.upgraded_annotation:
                    notes.append(('C11:evaluated-other', 'evaluated() replaced the upgraded annotation of %s' % a.name))
            if ev.return_annotation is not rv:
                notes.append(('C11:evaluated-value', 'evaluated() return annotation %r, source_value() is %r' % (ev.return_annotation, rv)))
            if ev.upgraded_return_annotation is not sig.upgraded_return_annotation:
                notes.append(('C11:evaluated-other', 'evaluated() replaced the upgraded return annotation'))
            if getattr(ev, 'sources', None) != getattr(sig, 'sources', None):
                notes.append(('C11:evaluated-other', 'evaluated() changed the sources'))
            if case['op'] == 'annot' and len(case['f']) == 1:
                for x, v in case['anns']:
                    p = sig.parameters[name_of(x)]
                    if p.annotation is not world.obj[v] or p.upgraded_annotation.source_value() is not world.obj[v]:
                        notes.append(('C11:annotate-verbatim', 'annotate(%s=%s) reports %r / %r' % (
                            name_of(x), vname(v), p.annotation, p.upgraded_annotation.source_value())))
                if case['retv'] is not None and (sig.return_annotation is not world.obj[case['retv']] or rv is not world.obj[case['retv']]):
                    notes.append(('C11:annotate-verbatim', 'annotate(%s) reports return annotation %r / %r' % (
                        vname(case['retv']), sig.return_annotation, rv)))
    except Exception as e:  # noqa: BLE001
        return {'ok': True, 'broken': True, 'notes': [('C11:eval-raises', 'observing the result raised %s: %s' % (type(e).__name__, str(e)[:160]))],
                'text': str(sig), 'params': [], 'ret': None, 'uret': ('E',), 'svs': [], 'svr': None, 'eps': [], 'eret': None}
    return ans


# ---------------------------------------------------------------- model side (terms for Coq)
def c_opt(x):
    return 'None' if x is None else '(Some %d)' % x


def c_u(u):
    if u[0] == 'E':
        return 'UEmpty'
    if u[0] == 'P':
        return '(UPre %d)' % u[1]
    return '(UPost %d %d)' % (u[1], u[2])


def c_param(p):
    return '(mkParam %d %s %s %s %s)' % (p[0], p[1], c_opt(p[2]), c_opt(p[3]), c_u(p[4]))


def c_names(ns):
    return '[' + '; '.join(str(x) for x in ns) + ']'


def c_b(x):
    return 'true' if x else 'false'


def raw_of(world, spec, sp, mode):
    if sp is None:
        return None
    o = owner(world, spec)      # the raw annotation is what the DEFINING function's code stores
    return SPELL_BASE + sp if spec_flag(mode, o) else world.bindings[o['mod']][sp]


def sig_term(world, fid, mode):
    spec = world.funcs[fid]
    ps = '; '.join('(%d, %s, %s, %s)' % (nm, k, c_opt(de), c_opt(raw_of(world, spec, sp, mode)))
                   for nm, k, de, sp in spec['params'])
    return '(upgrade_sig (Some %s) %d [%s] %s)' % (c_b(spec_flag(mode, spec)), fid, ps,
                                                    c_opt(raw_of(world, spec, spec['ret'], mode)))


def model_term(world, case, mode):
    fs = case['f']
    op = case['op']
    T = lambda f: sig_term(world, f, mode)  # noqa: E731
    if op == 'wauto' or (op == 'ssig' and world.funcs[fs[0]].get('wraps')):
        # sigtools.signature of a wraps-wrapper: its own ( *args, **kwargs) signature (with __wrapped__
        # removed, but __annotations__ copied) forwards to the wrapped function; UnknownForwards ->
        # the plain signature, which follows __wrapped__
        spec = world.funcs[fs[0]]
        own = '(upgrade_sig (Some %s) %d [%s] %s)' % (
            c_b(spec_flag(mode, spec)), fs[0],
            '; '.join('(%d, %s, None, %s)' % (nm, k, c_opt(raw_of(world, spec, sp, mode))) for nm, k, de, sp in own_view(spec)),
            c_opt(raw_of(world, spec, spec['ret'], mode)))
        return ('(Ok (match (do f <- forwards %s %s 0%%nat [] false false true true false ;; merge [f]) with '
                'Ok r => r | Err _ => %s end))' % (own, T(spec['wraps']['of']), T(fs[0])))
    if op in ('sig', 'ssig'):
        return '(Ok %s)' % T(fs[0])
    if op == 'merge':
        return '(merge [%s])' % '; '.join(T(f) for f in fs)
    if op == 'embed':
        return '(embed [%s] %s %s)' % ('; '.join(T(f) for f in fs), c_b(case['uva']), c_b(case['uvk']))
    if op == 'mask':
        return '(mask %s %d%%nat %s (mkHide %s))' % (T(fs[0]), case['n'], c_names(case['names']),
                                                    ' '.join(c_b(x) for x in case['flags']))
    if op == 'forwards':
        return '(forwards %s %s %d%%nat %s %s)' % (
            T(fs[0]), T(fs[1]), case['n'], c_names(case['names']),
            ' '.join(c_b(case[x]) for x in ('ha', 'hk', 'uva', 'uvk', 'partial')))
    if op == 'partial':
        return '(sig_partial %s %d%%nat [%s] 3000)' % (
            T(fs[0]), case['n'], '; '.join('(%d, %d)' % (x, v) for x, v in case['kw']))
    if op == 'kwo':
        return '(pok_prepare %s %s 4000 %d %s)' % (c_names(case['posos']), c_names(case['kwos']), fs[0], T(fs[0]))
    if op == 'annot':
        t = '(annotate %s [%s] %s)' % (
            'None' if case['retv'] is None else '(Some (Some %d))' % case['retv'],
            '; '.join('(%d, Some %d)' % (x, v) for x, v in case['anns']), T(fs[0]))
        if len(fs) > 1:
            t = '(do a <- %s ;; merge [a; %s])' % (t, T(fs[1]))
        return t
    if op == 'annauto':
        # annotate stores the annotated signature as func.__signature__; autoforwards_function sets
        # __signature__ aside and reads the function's OWN signature; only UnknownForwards falls back to
        # the annotated one.  A translator (kwoargs) hands its own, annotated, signature to discovery.
        spec = world.funcs[fs[0]]
        c = spec['call']
        ann = '(annotate %s [%s] %s)' % (
            'None' if case['retv'] is None else '(Some (Some %d))' % case['retv'],
            '; '.join('(%d, Some %d)' % (x, v) for x, v in case['anns']), T(fs[0]))
        tail = '%s %d%%nat %s false false %s %s false' % (
            T(c['callee']), c['n'], c_names(c['kw']), c_b(bool(c['va'])), c_b(bool(c['vk'])))
        if case.get('kwos'):
            return ('(do a <- %s ;; do o <- pok_prepare [] %s 4000 %d a ;; '
                    'Ok (match (do f <- forwards o %s ;; merge [f]) with Ok r => r | Err _ => o end))' % (
                        ann, c_names(case['kwos']), fs[0], tail))
        return ('(do a <- %s ;; Ok (match (do f <- forwards %s %s ;; merge [f]) with Ok r => r | Err _ => a end))' % (
            ann, T(fs[0]), tail))
    if op == 'auto':
        spec = world.funcs[fs[0]]
        c = spec['call']
        return '(Ok (auto_one %s %s %d%%nat %s false false %s %s))' % (
            T(fs[0]), T(c['callee']), c['n'], c_names(c['kw']), c_b(bool(c['va'])), c_b(bool(c['vk'])))
    raise ValueError(op)


ERRCODE = {'Incompatible': 1, 'ValueError': 2}


def impl_term(ans):
    if not ans['ok']:
        return '(IErr %d)' % ERRCODE.get(ans['err'], 3)
    return '(IOk [%s] %s %s [%s] %s [%s] %s)' % (
        '; '.join(c_param(p) for p in ans['params']), c_opt(ans['ret']), c_u(ans['uret']),
        '; '.join(c_param(p) for p in ans['eps']), c_opt(ans['eret']),
        '; '.join(c_opt(x) for x in ans['svs']), c_opt(ans['svr']))


def preamble(world):
    fmod = '; '.join('(%d, %d)' % (f, s['mod']) for f, s in sorted(world.funcs.items()))
    mbind = '; '.join('(%d, [%s])' % (m, '; '.join('(%d, %d)' % (SPELL_BASE + s, o) for s, o in sorted(b.items())))
                      for m, b in enumerate(world.bindings))
    return '''From Sigtools.Model Require Import Base Bind Algebra Annot.
Open Scope N_scope.
Fixpoint alookup {A} (k : N) (l : list (N * A)) : option A :=
  match l with [] => None | (k', v) :: l' => if N.eqb k k' then Some v else alookup k l' end.
Definition fmod : list (N * N) := [%s].
Definition mbind : list (N * list (N * N)) := [%s].
Definition g : genv := fun f raw =>
  match alookup f fmod with
  | Some m => match alookup m mbind with Some b => alookup raw b | None => None end
  | None => None end.
Inductive ians :=
| IOk (ps : list param) (r : option N) (u : uann) (eps : list param) (er : option N)
      (svs : list (option N)) (svr : option N)
| IErr (e : N).
Fixpoint list_eqb {A} (e : A -> A -> bool) (a b : list A) : bool :=
  match a, b with
  | [], [] => true
  | x :: a', y :: b' => e x y && list_eqb e a' b'
  | _, _ => false end.
Definition errcode (e : err) : N := match e with Incompatible => 1 | ValueErr => 2 | OtherErr _ => 3 end.
Definition agree (m : res sigT) (a : ians) : bool :=
  match m, a with
  | Ok s, IOk ps r u eps er svs svr =>
      list_eqb param_eqb (params s) ps && opt_N_eqb (ret s) r && uann_eqb (uret s) u
      && list_eqb param_eqb (params (evaluated g s)) eps && opt_N_eqb (ret (evaluated g s)) er
      && list_eqb opt_N_eqb (map (fun p => source_value g (puann p)) (params s)) svs
      && opt_N_eqb (source_value g (uret s)) svr
  | Err e, IErr c => N.eqb (errcode e) c
  | _, _ => false end.
Fixpoint bad_idx (i : nat) (l : list (res sigT * ians)) : list nat :=
  match l with [] => [] | c :: l' => (if agree (fst c) (snd c) then [] else [i]) ++ bad_idx (S i) l' end.
Definition show (m : res sigT) :=
  match m with
  | Ok s => inl (params s, ret s, uret s, map (fun p => source_value g (puann p)) (params s), source_value g (uret s))
  | Err e => inr (errcode e) end.
''' % (fmod, mbind)


def model_disagreements(world, items, shard=400):
    """items: list of (case, mode, ans). -> {index: model answer text} for the
    items on which the model's answer differs from the implementation's."""
    pre = preamble(world)
    shards = [items[i:i + shard] for i in range(0, len(items), shard)]

    def one(sh):
        body = 'Definition cases : list (res sigT * ians) := [\n%s\n].\n' % ';\n'.join(
            '(%s, %s)' % (model_term(world, c, m), impl_term(a)) for c, m, a in sh)
        out = coqrun.coq_eval(pre + body, ['bad_idx 0%nat cases'])
        return coqrun.parse_nat_list(out[0])
    with ThreadPoolExecutor(min(12, max(1, len(shards)))) as ex:
        bads = list(ex.map(one, shards))
    res = {}
    for si, bad in enumerate(bads):
        for j in bad:
            res[si * shard + j] = None
    for idx in sorted(res)[:4]:
        c, m, a = items[idx]
        try:
            res[idx] = coqrun.coq_eval(pre, ['show %s' % model_term(world, c, m)])[0][:700]
        except Exception as e:  # noqa: BLE001
            res[idx] = 'model evaluation failed: %s' % str(e)[:300]
    return res


# ---------------------------------------------------------------- ground truth (generator knowledge)
def own_view(spec):
    """the parameters of a wraps-wrapper's OWN code, (*args, **kwargs), with the
    annotations the copied __annotations__ gives them by name"""
    byname = {nm: sp for nm, k, de, sp in spec['params']}
    return [[id_of_name('args'), 'VP', None, byname.get(id_of_name('args'))],
            [id_of_name('kwargs'), 'VK', None, byname.get(id_of_name('kwargs'))]]


def inputs_of(world, case):
    """The input signatures of a case with what the generator knows:
    per parameter (name, kind, spelling or None, truth, fixed) where truth is the
    object the annotation denotes in the defining function's globals and fixed
    marks a value given to annotate (reported verbatim in every mode)."""
    fids = list(case['f'])
    if case['op'] in ('auto', 'annauto'):
        fids.append(world.funcs[fids[0]]['call']['callee'])
    if case['op'] == 'wauto':
        fids.append(world.funcs[fids[0]]['wraps']['of'])
    ins = []
    for idx, fid in enumerate(fids):
        spec = world.funcs[fid]
        ps = [[nm, k, sp, world.truth(spec, sp), False] for nm, k, de, sp in spec['params']]
        if case['op'] == 'wauto' and idx == 0:
            ps = [[nm, k, sp, world.truth(spec, sp), False] for nm, k, de, sp in own_view(spec)]
        r = world.truth(spec, spec['ret'])
        if case['op'] in ('annot', 'annauto') and idx == 0:
            given = dict((x, v) for x, v in case['anns'])
            for p in ps:
                if p[0] in given:
                    p[2], p[3], p[4] = None, given[p[0]], True
            if case['retv'] is not None:
                r = case['retv']
        o = owner(world, spec)
        ins.append({'fid': fid, 'mod': o['mod'], 'flagmod': o.get('flagmod', o['mod']), 'params': ps, 'ret': r})
    return ins


def klass(k):
    return 'pos' if k in POS else k


def related(p, q):
    return p[0] == q[0] or (klass(p[1]) == klass(q[1]) and klass(p[1]) in ('pos', 'VP', 'VK'))


def aligned(ins):
    seqs = [[p[0] for p in i['params'] if p[1] in POS] for i in ins]
    for a, b_ in itertools.combinations(seqs, 2):
        if any(x != y for x, y in zip(a, b_)):
            return False
    return True


def is_multi(case):
    return case['op'] == 'merge' or (case['op'] == 'annot' and len(case['f']) > 1)


def shape_desc(world, fid):
    return mk_desc([(nm, k, de, None, ('E',)) for nm, k, de, sp in world.funcs[fid]['params']], fid)


def aligned_rolecons(world, cases):
    """{case index: inputs are name-aligned and role-consistent} for the merging
    cases, decided by the extracted verified deciders (as C10 does): only then
    are the contributors of a result parameter the input parameters of its name."""
    idx = [i for i, c in enumerate(cases) if is_multi(c)]
    if not idx:
        return {}
    reqs = [tok_sigs([shape_desc(world, f) for f in cases[i]['f']]) for i in idx]
    al = ask(['aligned ' + r for r in reqs])
    rc = ask(['rolecons ' + r for r in reqs])
    return {i: a == 'T' and r == 'T' for i, a, r in zip(idx, al, rc)}


def oracle(world, case, mode, ans, alrc=False):
    """Violations of C11 visible on one answer (independent of the model):
    (key, text, subject) with subject = (parameter name id, kind), 'return' or None."""
    out = [(k_, w_, None) for k_, w_ in ans.get('notes', ())]
    if not ans['ok'] or ans.get('broken'):
        return out
    ins = inputs_of(world, case)
    op = case['op']
    multi = is_multi(case)
    al = (alrc and aligned(ins)) if multi else True
    for (nm, k, de, an, ua), sv, ep in zip(ans['params'], ans['svs'], ans['eps']):
        cons = [(i, p) for i in ins for p in i['params'] if p[0] == nm]
        star = k in ('VP', 'VK')
        cand = {p[3] for i in ins for p in i['params'] if p[3] is not None and related((nm, k), p)}
        if sv is not None and sv not in cand:
            out.append(('C11:wrong-context', 'parameter %s reports %s, which no contributing annotation denotes in its defining function\'s globals (possible: %s)' % (
                name_of(nm), vname(sv), sorted(vname(x) for x in cand)), (nm, k)))
            continue
        exact = None
        if not star and len(cons) == 1 and (not multi or al or cons[0][1][1] == 'KO'):
            exact = (cons[0][1][3],)
        elif not star and not cons and op in ('partial',):
            exact = (None,)
        elif not star and multi and al and mode == 'e' and cons:
            acc = cons[0][1][3]
            for _, q in cons[1:]:
                if acc is not None and q[3] is not None:
                    # Python equality of the two objects: the wildcard equals everything
                    acc = acc if (acc == q[3] or WILD in (acc, q[3])) else None
                elif acc is None:
                    acc = q[3]
            exact = (acc,)
        if exact is not None and sv != exact[0]:
            key = 'C11:lost' if sv is None else 'C11:wrong-context'
            out.append((key, 'parameter %s reports %s; its annotation denotes %s in the defining function\'s globals' % (
                name_of(nm), vname(sv), vname(exact[0])), (nm, k)))
    if ans['svr'] != ins[0]['ret']:
        out.append(('C11:return', 'return annotation reports %s; the first input\'s denotes %s' % (vname(ans['svr']), vname(ins[0]['ret'])), 'return'))
    return out


def vname(v):
    if v is None:
        return 'empty'
    if v == WILD:
        return 'WILD (an object that compares equal to everything)'
    if v >= SPELL_BASE:
        return 'the string %r' % SPELL[v - SPELL_BASE] if v - SPELL_BASE < len(SPELL) else '<%d>' % v
    return NUM.get(v, 'v%d' % v)


def observe(ans):
    if not ans['ok']:
        return ('err', ans['err'])
    return ('ok', tuple((p[0], p[1], p[2], p[3]) for p in ans['eps']), ans['eret'])


def diff_names(a, b_):
    """names of the parameters on which two observations differ (None = all)"""
    if a[0] != 'ok' or b_[0] != 'ok' or len(a[1]) != len(b_[1]):
        return None
    names = {x[0] for x, y in zip(a[1], b_[1]) if x != y} | {y[0] for x, y in zip(a[1], b_[1]) if x != y}
    # positional and star parameters are conciled by position / by kind, so the
    # annotation of a differently named parameter of that class can be involved
    return names | {klass(x[1]) for x, y in zip(a[1], b_[1]) if x != y and klass(x[1]) in ('pos', 'VP', 'VK')}


def raw_class_pair(world, case, mode, names=None):
    """A pair of related annotated parameters of different inputs whose raw
    annotations compare differently from the objects they denote, in this mode
    (the negation of the hypothesis of C11_pep563_partial), or None.  With
    names: only pairs that involve one of these parameter names."""
    if case['op'] == 'annauto' and not case.get('kwos'):
        # discovery of a plain function conciles the function's OWN annotations (see
        # C11:annotate-lost-in-discovery), not the values given to annotate
        case = {'op': 'auto', 'f': case['f']}
    ins = inputs_of(world, case)

    def raw(i, p):
        # the number of the raw annotation object, as in the model: the object itself for an
        # eager / annotate-given annotation, the spelling string for a postponed one
        if p[4] or not mode_flag(mode, i['flagmod']):
            return p[3]
        return SPELL_BASE + p[2]
    for a, b_ in itertools.combinations(ins, 2):
        for p in a['params']:
            for q in b_['params']:
                if p[3] is None or q[3] is None or not related(p, q):
                    continue
                if names is not None and p[0] not in names and q[0] not in names and not (
                        klass(p[1]) == klass(q[1]) and klass(p[1]) in names):
                    continue
                # Python equality on both sides (the wildcard object equals everything; a spelling
                # string is never the wildcard)
                if (raw(a, p) == raw(b_, q) or WILD in (raw(a, p), raw(b_, q))) != (p[3] == q[3] or WILD in (p[3], q[3])):
                    return 'f%d.%s: %s = %s  vs  f%d.%s: %s = %s' % (
                        a['fid'], name_of(p[0]), vname(raw(a, p)), vname(p[3]),
                        b_['fid'], name_of(q[0]), vname(raw(b_, q)), vname(q[3]))
    return None


def wild_names(world, case):
    """The wildcard family.  Names and classes ('pos', 'VP', 'VK') of the parameters of `case`
    that are involved in a conciliation with a wildcard-annotated parameter: a parameter of one
    input denoting WILD that is related (same name; both positional; star parameters of one
    kind) to a parameter of ANOTHER input.  Empty: the wildcard, if present at all, travels
    alone and the case is examined like any other (model included)."""
    views = [case]
    if case['op'] == 'annauto' and not case.get('kwos'):
        views.append({'op': 'auto', 'f': case['f']})      # discovery conciles the function's own annotations
    names = set()
    for view in views:
        ins = inputs_of(world, view)
        for a, b_ in itertools.combinations(ins, 2):
            for p in a['params']:
                for q in b_['params']:
                    if WILD in (p[3], q[3]) and related(p, q):
                        names.update((p[0], q[0]))
                        if klass(p[1]) == klass(q[1]) and klass(p[1]) in ('pos', 'VP', 'VK'):
                            names.add(klass(p[1]))
    return names


def in_wild(wn, nm, k):
    return nm in wn or klass(k) in wn


def wild_eligible(world, case):
    """wildcard-conciled cases the generator keeps: no other delimited class (wraps wrappers,
    annotate under discovery, raw spelling vs value equality) can be involved, because those
    are recognised with the help of the model, which is not run on these cases"""
    if case['op'] not in ('merge', 'embed', 'forwards', 'auto', 'annot') or wraps_involved(world, case):
        return False
    return all(raw_class_pair(world, case, m) is None for m in ('p', 'x'))


def show_case(world, case):
    def src(fid):
        sp = world.funcs[fid]
        sib = ''
        if sp.get('sib'):
            sib = ', same code object as the other %s' % sp['defname'] if sp['sib']['kind'] == 'exec' else \
                ', FunctionType(f%d.__code__, globals of module %d)' % (sp['sib']['of'], sp['mod'])
        if sp.get('reexport') is not None:
            sib += ', __module__ set to module %d' % sp['reexport']
        if sp.get('wraps'):
            sib += ', functools.%s around f%d (defined in module %d)' % (sp['wraps']['how'], sp['wraps']['of'], sp['wraps']['cmod'])
        return 'f%d = ' % fid + fn_source(sp, {m: 'cm%d' % m for m in range(NMOD)}).split(':\n')[0].replace('\n', ' ') + \
            '  [globals %d: %s%s]' % (sp['mod'], ', '.join(
                '%s=%s' % (SPELL[s], vname(o)) for s, o in sorted(world.bindings[sp['mod']].items()) if s < NNAMES), sib)
    extra = {k: v for k, v in case.items() if k not in ('f', 'op', 'prime')}
    fids = list(case['f'])
    if case['op'] in ('auto', 'annauto'):
        fids.append(world.funcs[fids[0]]['call']['callee'])
    for f in list(fids):
        if world.funcs[f].get('wraps') and world.funcs[f]['wraps']['of'] not in fids:
            fids.append(world.funcs[f]['wraps']['of'])
    first = ''
    if case.get('prime'):
        first = ' after first retrieving signature(%s)' % ' ; '.join(
            src(f) if f not in fids else 'f%d' % f for f in case['prime'])
    return '%s %s over %s%s' % (case['op'], extra or '', ' ; '.join(src(f) for f in fids), first)


# ---------------------------------------------------------------- examination
def examine(world, cases, rep=None):
    """-> (violations [(key, what, case)], corr breaks [(case, mode, model, impl)], stats)"""
    world.activate()
    answers = []
    items = []
    rcases = []      # the case as written to a replay file: with the retrieval history that matters
    wilds = []       # per case: wild_names
    item_of = {}     # (case index, mode) -> index in items
    for ci, c in enumerate(cases):
        hist = world.history(all_fids(world, c))
        rcases.append(dict(c, prime=hist + [f for f in c.get('prime', ()) if f not in hist]) if hist else c)
        wn = wild_names(world, c)
        wilds.append(wn)
        row = {}
        for m in MODES:
            row[m] = run_impl(world, c, m)
            if not wn:
                item_of[(ci, m)] = len(items)
                items.append((c, m, row[m]))
        answers.append(row)
    dis = model_disagreements(world, items)
    alrc = aligned_rolecons(world, cases)
    viol, breaks = [], []
    stats = {'ok': 0, 'err': 0, 'twin_diff': 0, 'by_op': {}, 'surviving_annotations': 0,
             'wildcard_cases': 0, 'wildcard_conciled_cases': 0, 'wildcard_values_reported': 0}
    for ci, (c, row) in enumerate(zip(cases, answers)):
        stats['by_op'][c['op']] = stats['by_op'].get(c['op'], 0) + 1
        wn = wilds[ci]
        if wn:
            stats['wildcard_conciled_cases'] += 1
        if any(p[3] == WILD for i in inputs_of(world, c) for p in i['params']) or any(i['ret'] == WILD for i in inputs_of(world, c)):
            stats['wildcard_cases'] += 1
        if row['e']['ok']:
            stats['wildcard_values_reported'] += sum(1 for x in row['e']['svs'] + [row['e']['svr']] if x == WILD)
        agree = {}
        for mi, m in enumerate(MODES):
            idx = item_of.get((ci, m))
            # a wildcard-conciled case is not given to the model: nothing is known about agreement
            agree[m] = idx is not None and idx not in dis
            if idx is not None and not agree[m]:
                breaks.append((c, m, dis[idx], row[m]))
            for key, what, subject in oracle(world, c, m, row[m], alrc.get(ci, False)):
                if wn and key in ('C11:lost', 'C11:wrong-context') and isinstance(subject, tuple) and in_wild(wn, *subject):
                    key = WILD_KEY
                elif key in WRAPS_SYMPTOMS and agree[m] and wraps_involved(world, c):
                    key = WRAPS_KEY
                elif agree[m] and annotate_lost(world, c, key, subject):
                    key = ANNOT_KEY
                viol.append((key, '[mode %s] %s -> %s: %s' % (m, show_case(world, rcases[ci]), row[m].get('text'), what), rcases[ci]))
        stats['ok' if row['e']['ok'] else 'err'] += 1
        if row['e']['ok']:
            stats['surviving_annotations'] += sum(1 for x in row['e']['svs'] if x is not None)
        for m in ('p', 'x'):
            if observe(row[m]) == observe(row['e']):
                continue
            stats['twin_diff'] += 1
            oe, om = observe(row['e']), observe(row[m])
            only_params = oe[0] == 'ok' and om[0] == 'ok' and oe[2] == om[2]
            pair = raw_class_pair(world, c, m, diff_names(oe, om)) if only_params else None
            if wn and only_params and len(oe[1]) == len(om[1]) and \
                    all(in_wild(wn, x[0], x[1]) and in_wild(wn, y[0], y[1]) for x, y in zip(oe[1], om[1]) if x != y):
                viol.append((WILD_KEY, what_twin(world, rcases[ci], m, row) + '  (a wildcard-annotated parameter is conciled: %s)' % sorted(
                    x if isinstance(x, str) else name_of(x) for x in wn), rcases[ci]))
                continue
            what = what_twin(world, rcases[ci], m, row)
            if pair is not None and agree[m] and agree['e']:
                viol.append((KNOWN_KEY, what + '  (raw equality differs from value equality on %s)' % pair, rcases[ci]))
            elif agree[m] and agree['e'] and wraps_involved(world, c):
                viol.append((WRAPS_KEY, what, rcases[ci]))
            else:
                viol.append(('C11:twin', what, rcases[ci]))
    return viol, breaks, stats


def what_twin(world, rcase, m, row):
    return '%s: evaluated() on the %s twins gives %s, on the eager twins %s' % (
        show_case(world, rcase), {'p': 'postponed', 'x': 'mixed eager/postponed'}[m],
        row[m].get('etext', row[m].get('err')), row['e'].get('etext', row['e'].get('err')))


# what the known finding C11:wraps-globals looks like on one answer
WRAPS_SYMPTOMS = ('C11:wrong-context', 'C11:lost', 'C11:return', 'C11:eval-raises')


def wraps_involved(world, case):
    """the delimited class of C11:wraps-globals: an input of the case is retrieved from a
    functools.wraps / update_wrapper wrapper (it carries __wrapped__ and the copied
    __annotations__ of the wrapped function) whose own globals are not the wrapped
    function's.  Together with `the model, which upgrades every raw annotation against the
    object whose signature was asked for, predicted the implementation's answer exactly`."""
    for f in case['f']:
        sp = world.funcs[f]
        if sp.get('wraps') and sp['mod'] != world.funcs[sp['wraps']['of']]['mod']:
            return True
    return False


def annotate_lost(world, case, key, subject):
    """the delimited class of C11:annotate-lost-in-discovery: modifiers.annotate was applied to a
    PLAIN function (no translator underneath) that automatic discovery then resolves, and the
    symptom is that a parameter named in annotate( ...) / the return annotation given to annotate
    does not report the given value (the function's own syntax annotation, or nothing, instead).
    Together with `the model predicted the implementation's answer exactly`."""
    if case['op'] != 'annauto' or case.get('kwos'):
        return False
    if key not in ('C11:lost', 'C11:wrong-context', 'C11:return'):
        return False
    if subject == 'return':
        return case['retv'] is not None
    if subject is None:
        return False
    given = {x for x, v in case['anns']}
    # a star parameter of the result stands for the function's own star parameter of that kind
    # whatever its name (it is conciled with the callee's star parameter, which gives the name)
    star_kinds = {k for nm, k, de, sp in world.funcs[case['f'][0]]['params'] if nm in given and k in ('VP', 'VK')}
    return subject[0] in given or subject[1] in star_kinds


def case_key(world, c):
    return repr(sorted(c.items()))


def run(ctx, rep):
    rng = ctx.rng('world')
    nworlds = 3 if ctx.quick else 8
    ncases = 2500 if ctx.quick else 8000
    rep.rule = ('random operations (merge 2-3, embed, mask, forwards, functools.partial, kwoargs/posoargs, annotate, annotate+merge, '
                'automatic discovery through a forwarding wrapper, signatures.signature, sigtools.signature) over real functions compiled '
                'from generated modules in three worlds (all eager / all postponed / mixed), plus worlds in which a spelling denotes / annotate is given '
                'an object that compares equal to everything; non-trivial = the inputs carry an annotation '
                'and the operation combines or transforms a signature; distinct = distinct (operation, functions, arguments)')
    total = 0
    hist = {}
    agg = {}
    # the wildcard family: further worlds in which a spelling denotes, and annotate is given, an
    # object that compares equal to everything
    wrng = ctx.rng('wildworld')
    srng = ctx.rng('spellings')
    spellings = []
    nwild = 1 if ctx.quick else 3
    nwcases = 1800 if ctx.quick else 5000
    try:
        for w in range(nworlds + nwild):
            if w < nworlds:
                # the first world spells its annotations T U W X; the others like exports of typing and
                # like builtins (the modules bind those names to their own objects)
                world = gen_world(rng, spell_names=pick_names(srng) if w else None)
                spellings.append(list(world.spell_names))
                cases = gen_cases(rng, world, ncases)
            else:
                world = gen_world(wrng, wild=True)
                cases = [c for c in gen_cases(wrng, world, nwcases)
                         if not wild_names(world, c) or wild_eligible(world, c)]
            viol, breaks, stats = examine(world, cases)
            total += len(cases) * len(MODES)
            for c in cases:
                if any(p[3] is not None for f in c['f'] for p in world.funcs[f]['params']) or c['op'] in ('annot', 'annauto'):
                    rep.distinct.add((w, case_key(world, c)))
            for k, v in stats.items():
                if isinstance(v, dict):
                    d = agg.setdefault(k, {})
                    for kk, vv in v.items():
                        d[kk] = d.get(kk, 0) + vv
                else:
                    agg[k] = agg.get(k, 0) + v
            for c, m, model, impl in breaks:
                rep.corr_break('annotations, source_value, evaluated (mode %s)' % m, show_case(world, c),
                               str(model), str({k: v for k, v in impl.items() if k != 'notes'})[:600])
            # (the conciled-wildcard finding last: any other violation is shown first)
            for key, what, c in sorted(viol, key=lambda v: v[0] == WILD_KEY):
                hist[key] = hist.get(key, 0) + 1
                rep.violation(key, what, dict(world.data(all_fids(world, c)), case=c))
            for c in cases[:3]:
                a = run_impl(world, c, 'p')
                rep.sample({'case': show_case(world, c), 'postponed': a.get('text', a.get('err'))})
            world.close()
            _WORLDS.remove(world)
        # the fixed cases of the wildcard family, on every run
        for r in WILD_WITNESS['cases']:
            viol, breaks = _rerun(r)
            total += len(MODES)
            for key, what, c in viol:
                hist[key] = hist.get(key, 0) + 1
                rep.violation(key, what, dict(bindings=r['bindings'], funcs=r['funcs'], case=c))
    finally:
        cleanup()
    rep.evaluations = total
    rep.coverage['finding_histogram'] = hist
    rep.coverage['annotation_names_per_world'] = spellings
    rep.coverage['c11_stats'] = agg
    rep.assumptions = [
        'annotation objects compare by identity (instances of a plain class), except the wildcard object of the wildcard family, which compares equal to '
        'everything: cases in which a wildcard-annotated parameter is conciled with a parameter of another input are decided by the oracle and the twin '
        'relation only, not compared with the model; annotation spellings are plain names bound in every module (neutral ones, and ones spelled like exports of typing / builtins)',
        'the environment g of the model is the generator\'s table of module bindings; modules are not rebound after the functions are defined',
    ]


def all_fids(world, c):
    fids = list(c['f'])
    if c['op'] in ('auto', 'annauto'):
        fids.append(world.funcs[fids[0]]['call']['callee'])
    for f in list(fids):
        if world.funcs[f].get('wraps'):
            fids.append(world.funcs[f]['wraps']['of'])
    return fids + [f for f in c.get('prime', ()) if f not in fids]


# ---------------------------------------------------------------- replay
def _rerun(r):
    world = World(r['bindings'], r['funcs'], r.get('spell_names'))
    try:
        case = r['case']
        viol, breaks, stats = examine(world, [case])
        return viol, breaks
    finally:
        world.close()
        if world in _WORLDS:
            _WORLDS.remove(world)


def replay(ctx, data):
    viol, breaks = _rerun(data['replay'])
    same = [v for v in viol if v[0] == data.get('key')] or [v for v in viol if v[0] != KNOWN_KEY]
    return same[0][1] if same else None


def replay_known(ctx, k):
    w = k['witness']
    ws = w['cases'] if 'cases' in w else [w]
    for r in ws:
        viol, breaks = _rerun(r)
        if any(v[0] == k['key'] for v in viol):
            return True
    return False


KNOWN_WITNESS = {'cases': [
    {   # one spelling, two objects: postponed keeps the left one's, eager drops
        'bindings': [{'0': 1, '1': 2, '2': 1, '3': 3}, {'0': 2, '1': 2, '2': 3, '3': 3}, {'0': 1, '1': 1, '2': 1, '3': 1},
                     {'0': 1, '1': 1, '2': 1, '3': 1}, {'0': 1, '1': 1, '2': 1, '3': 1}],
        'funcs': [{'fid': 100, 'mod': 0, 'params': [[1, 'PK', None, 0]], 'ret': None, 'group': 'B', 'call': None},
                  {'fid': 101, 'mod': 1, 'params': [[1, 'PK', None, 0]], 'ret': None, 'group': 'B', 'call': None}],
        'case': {'op': 'merge', 'f': [100, 101]}},
    {   # two spellings of one object: postponed drops, eager keeps
        'bindings': [{'0': 1, '1': 2, '2': 1, '3': 3}, {'0': 2, '1': 2, '2': 3, '3': 3}, {'0': 1, '1': 1, '2': 1, '3': 1},
                     {'0': 1, '1': 1, '2': 1, '3': 1}, {'0': 1, '1': 1, '2': 1, '3': 1}],
        'funcs': [{'fid': 100, 'mod': 0, 'params': [[1, 'PK', None, 0]], 'ret': None, 'group': 'B', 'call': None},
                  {'fid': 101, 'mod': 0, 'params': [[1, 'PK', None, 2]], 'ret': None, 'group': 'B', 'call': None}],
        'case': {'op': 'merge', 'f': [100, 101]}},
]}


# witness of the known finding C11:wraps-globals: f100(a: T) -> T defined in module 0 (T = v1),
# wrapped with functools.wraps by f101 defined in module 3 (T = v2); retrieved through
# signatures.signature (follows __wrapped__) and through sigtools.signature (discovery)
_WB = [{'0': 1, '1': 2, '2': 1, '3': 3}, {'0': 2, '1': 2, '2': 3, '3': 3}, {'0': 1, '1': 1, '2': 1, '3': 1},
       {'0': 2, '1': 1, '2': 1, '3': 1}, {'0': 1, '1': 1, '2': 1, '3': 1}]
_WF = [{'fid': 100, 'mod': 0, 'params': [[1, 'PK', None, 0]], 'ret': 0, 'group': 'B', 'call': None},
       {'fid': 101, 'mod': 3, 'params': [[1, 'PK', None, 0]], 'ret': 0, 'group': 'V', 'call': None,
        'wraps': {'of': 100, 'cmod': 0, 'how': 'wraps'}}]
WRAPS_WITNESS = {'cases': [
    {'bindings': _WB, 'funcs': _WF, 'case': {'op': 'sig', 'f': [101]}},
    {'bindings': _WB, 'funcs': _WF, 'case': {'op': 'wauto', 'f': [101]}},
]}


# witness of the known finding C11:annotate-lost-in-discovery:
#   module 0:  def f100(x, y, *, z)
#   module 3:  @modifiers.annotate(v3, a=v2)  def f101(a, *args, **kwargs): return cm0.f100(*args, **kwargs)
# sigtools.signature(f101) is (a, x, y, *, z): neither a: v2 nor the return annotation v3
_AF = [{'fid': 100, 'mod': 0, 'params': [[14, 'PK', None, None], [15, 'PK', None, None], [16, 'KO', None, None]],
        'ret': None, 'group': 'B', 'call': None},
       {'fid': 101, 'mod': 3, 'params': [[1, 'PK', None, None], [9, 'VP', None, None], [10, 'VK', None, None]],
        'ret': None, 'group': 'W',
        'call': {'callee': 100, 'cmod': 0, 'n': 0, 'kw': [], 'va': 'args', 'vk': 'kwargs'}}]
ANNOT_WITNESS = {'cases': [
    {'bindings': _WB, 'funcs': _AF, 'case': {'op': 'annauto', 'f': [101], 'anns': [[1, 2]], 'retv': 3}},
]}


# regression cases for C11:wildcard-conciled (fixed in sigtools 4d2de25; they must give no
# violation): module 0 binds U to the wildcard object.
#   module 0: def f100(a: U)      module 1: def f101(a)
# merge(signature(f100), signature(f101)): before the fix the eager twins gave (a) -- _concile_meta
# asked `left.annotation != left.empty`, which the wildcard answers False -- and the postponed twins
# (raw annotation 'U', a string) gave (a: 'U'), evaluated() -> (a: WILD).
# Second case: f100(a: U) merged with f102(a: U), U = v2 in module 1: the eager twins reported v2 for
# a (the wildcard on the left counted as no annotation), the postponed twins WILD.
_XB = [{'0': 1, '1': 8, '2': 1, '3': 3}, {'0': 2, '1': 2, '2': 3, '3': 3}, {'0': 1, '1': 1, '2': 1, '3': 1},
       {'0': 1, '1': 1, '2': 1, '3': 1}, {'0': 1, '1': 1, '2': 1, '3': 1}]
_XF = [{'fid': 100, 'mod': 0, 'params': [[1, 'PK', None, 1]], 'ret': None, 'group': 'B', 'call': None},
       {'fid': 101, 'mod': 1, 'params': [[1, 'PK', None, None]], 'ret': None, 'group': 'B', 'call': None},
       {'fid': 102, 'mod': 1, 'params': [[1, 'PK', None, 1]], 'ret': None, 'group': 'B', 'call': None}]
WILD_WITNESS = {'cases': [
    {'bindings': _XB, 'funcs': _XF[:2], 'case': {'op': 'merge', 'f': [100, 101]}},
    {'bindings': _XB, 'funcs': [_XF[0], _XF[2]], 'case': {'op': 'merge', 'f': [100, 102]}},
]}
