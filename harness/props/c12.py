"""C12 — kwoargs / posoargs / autokwoargs: advertised signature equals call behaviour.

For every generated function (real `def`, body returns its arguments by name),
every decorator form and every call shape with distinguishable values:

 (a) the advertised signature (sigtools.signature and inspect.signature of the
     decorated callable) is compared with an independent spec written from the
     property (spec_decorate below) and with the Gallina model `decorate`;
 (b) the decorated callable is really called; "TypeError or the name->value
     map" is compared with an independent oracle (CPython really calling a plain
     `def` that natively has the advertised signature) and with the model's
     prediction `pok_call` + `bindv` evaluated inside Coq;
 (c) the same through instance access (bound method, first parameter = self);
 (d) the value-level binder `bindv` itself is compared with real CPython calls;
 (e) every call shape is run again with argument VALUES an implementation could
     take for "not given" (None, inspect.Parameter.empty, 0, False, '', ...,
     compared by identity): every named value None, and a random subset of the
     arguments special;
 (f) stacks of two / three decorators (named, start=, end=, autokwoargs layers):
     the layers together are one selection of the original function, so a stack
     whose layers are each admissible but together mark a parameter with both
     kinds must raise ValueError at decoration time; admissible stacks go
     through (a)-(c),(e) and through the model (merge_other + prepare).

A mismatch impl <-> oracle/spec is a concrete violation; a mismatch with the
model only is a correspondence break.
"""
import functools
import inspect
import itertools
import os
import random
import warnings
from concurrent.futures import ThreadPoolExecutor

from core import universe, id_of_name, name_of, show_sig, KIND_NAMES
import coqrun
import sigtools
from sigtools import modifiers

LEVEL = 'proof'
FOREIGN = id_of_name('z')
SELFVAL = 999
EXCL = 7            # placeholder sent for excluded calls
# Instance access of a translator that went through functools.wraps(other
# translator) fails on the unchanged tree (custom_getter / insts live in the
# instance __dict__ and are copied from the other translator).  Counted in the
# evidence; reported as violation C12:wraps-bound-copy only when this is True.
REPORT_WRAPS_BOUND = True
# Instance access of a STACK of decorators with a start= / end= layer can fail
# on the unchanged tree: the Combination of getters runs the outer getter on the
# plain bound method first (an outer end= form then selects parameters an inner
# layer made keyword-only: "both kinds"), and an inner start= / end= getter then
# re-runs its selection on the translator the outer getter built, where the
# parameters are already moved ("'c' not found").
# Reported as C12:stack-bound-rerun only when this is True.
REPORT_STACK_BOUND = os.environ.get('C12_REPORT_STACK_BOUND', '1') != '0'   # reported unless switched off explicitly


# ---------------------------------------------------------------- argument values
class _AlwaysEq(object):
    """A falsy object that compares equal to everything."""
    __hash__ = None

    def __eq__(self, other):
        return True

    def __ne__(self, other):
        return False

    def __bool__(self):
        return False

    __nonzero__ = __bool__

    def __repr__(self):
        return 'ALWAYS_EQ'


ALWAYS_EQ = _AlwaysEq()
# Values an implementation could mistake for "not given" / "no default": the
# property promises delivery of EVERY argument.  Identified by identity.
SPECIALS = [None, inspect.Parameter.empty, 0, False, '', NotImplemented,
            getattr(sigtools._util, 'UNSET', Ellipsis), ALWAYS_EQ]
SPECIAL_NAMES = ['None', 'inspect.Parameter.empty', '0', 'False', "''", 'NotImplemented',
                 'sigtools._util.UNSET', 'ALWAYS_EQ (a falsy object equal to everything)']
SPECIAL_BASE = 400          # special number i is interned as 400 + i for the model
VALUE_SEED = [0]            # set from ctx.rng in run()


def vnum(v):
    for i, sp in enumerate(SPECIALS):
        if v is sp:
            return SPECIAL_BASE + i
    if type(v) is int:
        return v
    return SELFVAL


# ---------------------------------------------------------------- functions
def decorate_ps(ps, rng=None, annotate=False):
    """universe parameter list -> distinguishable defaults (100 + name id) and,
    optionally, annotations (10 + name id)."""
    out = []
    for nm, k, de, an, ua in ps:
        de2 = None if de is None else 100 + nm
        an2 = (10 + nm) if (annotate and k not in ('VP', 'VK') and rng.random() < 0.5) else None
        out.append((nm, k, de2, an2))
    return tuple(out)


def fn_source(ps, name='f'):
    parts = []
    prev = None
    for nm, k, de, an in ps:
        if prev == 'PO' and k != 'PO':
            parts.append('/')
        if k == 'KO' and prev not in ('VP', 'KO'):
            parts.append('*')
        s = {'VP': '*', 'VK': '**'}.get(k, '') + name_of(nm)
        if an is not None:
            s += ': %d' % an
        if de is not None:
            s += ' = %d' % de
        parts.append(s)
        prev = k
    if prev == 'PO':
        parts.append('/')
    body = ', '.join('%r: %s' % (name_of(p[0]), name_of(p[0])) for p in ps)
    return 'def %s(%s):\n    return {%s}\n' % (name, ', '.join(parts), body)


_FN_CACHE = {}


def make_fn(ps, fresh=False):
    """A real function with parameters ps returning its arguments by name."""
    if not fresh and ps in _FN_CACHE:
        return _FN_CACHE[ps]
    ns = {}
    exec(fn_source(ps), ns)
    f = ns['f']
    if not fresh:
        _FN_CACHE[ps] = f
    return f


def show_ps(ps):
    return show_sig({'params': [(nm, k, de, an, ('E',)) for nm, k, de, an in ps]})


def describe_params(sig):
    out = []
    for p in sig.parameters.values():
        de = None if p.default is inspect.Parameter.empty else p.default
        an = None if p.annotation is inspect.Parameter.empty else p.annotation
        if de is not None and not isinstance(de, int):
            de = -1
        if an is not None and not isinstance(an, int):
            an = -1
        out.append((id_of_name(p.name), KIND_NAMES[p.kind], de, an))
    return tuple(out)


# ---------------------------------------------------------------- forms
# ('X', posos, kwos, order)  explicit; order 0: a single public decorator or,
#                            when both sets are non-empty, the translator class;
#                            1: posoargs(*p)(kwoargs(*k)(f)); 2: kwoargs(*k)(posoargs(*p)(f))
# ('S', start, names0)       kwoargs(start=..., *names0)
# ('E', end, names0)         posoargs(end=..., *names0)
# ('A', exceptions)          autokwoargs(exceptions=...)
# ('K', inner, outer)        outer(inner(f)): a stack of two decorators; inner may be a stack itself
def show_form(form, arg='f'):
    return _show_form(form).replace('(f)', '(%s)' % arg)


def _show_form(form):
    n = lambda l: ', '.join(repr(name_of(x)) for x in l)  # noqa: E731
    if form[0] == 'K':
        inner = _show_form(form[1])
        outer = _show_form(form[2])
        return outer[:-3] + '(' + inner + ')'
    if form[0] == 'X':
        p, k, o = form[1], form[2], form[3]
        if o == 1:
            return 'posoargs(%s)(kwoargs(%s)(f))' % (n(p), n(k))
        if o == 2:
            return 'kwoargs(%s)(posoargs(%s)(f))' % (n(k), n(p))
        if p and k:
            return '_PokTranslator(f, posoargs=(%s), kwoargs=(%s))' % (n(p), n(k))
        if p:
            return 'posoargs(%s)(f)' % n(p)
        return 'kwoargs(%s)(f)' % n(k)
    if form[0] == 'S':
        return 'kwoargs(%sstart=%r)(f)' % (n(form[2]) + ', ' if form[2] else '', name_of(form[1]))
    if form[0] == 'E':
        return 'posoargs(%send=%r)(f)' % (n(form[2]) + ', ' if form[2] else '', name_of(form[1]))
    return 'autokwoargs(exceptions=[%s])(f)' % n(form[1])


def decorator_for(form):
    """The decorator OBJECT of a form (it can be applied to several functions)."""
    nm = lambda l: [name_of(x) for x in l]  # noqa: E731
    if form[0] == 'K':
        di, do = decorator_for(form[1]), decorator_for(form[2])
        return lambda f: do(di(f))
    if form[0] == 'X':
        p, k, o = nm(form[1]), nm(form[2]), form[3]
        if o == 1:
            dp, dk = modifiers.posoargs(*p), modifiers.kwoargs(*k)
            return lambda f: dp(dk(f))
        if o == 2:
            dp, dk = modifiers.posoargs(*p), modifiers.kwoargs(*k)
            return lambda f: dk(dp(f))
        if p and k:
            return lambda f: modifiers._PokTranslator(f, posoargs=p, kwoargs=k)
        if p:
            return modifiers.posoargs(*p)
        return modifiers.kwoargs(*k)
    if form[0] == 'S':
        return modifiers.kwoargs(*nm(form[2]), start=name_of(form[1]))
    if form[0] == 'E':
        return modifiers.posoargs(*nm(form[2]), end=name_of(form[1]))
    return modifiers.autokwoargs(exceptions=nm(form[1]))


def apply_form(f, form):
    """Really decorate f.  Returns the decorated callable (exceptions propagate)."""
    return decorator_for(form)(f)


def forms_for(ps, rng, full):
    pk = [p[0] for p in ps if p[1] == 'PK']
    others = [p[0] for p in ps if p[1] != 'PK'] + [FOREIGN]
    allnames = [p[0] for p in ps] + [FOREIGN]
    out = []
    # every assignment of the regular parameters to none / posoargs / kwoargs
    for assign in itertools.product((0, 1, 2), repeat=len(pk)):
        posos = tuple(n for n, a in zip(pk, assign) if a == 1)
        kwos = tuple(n for n, a in zip(pk, assign) if a == 2)
        if not posos and not kwos:
            continue
        out.append(('X', posos, kwos, 0))
        if posos and kwos:
            out.append(('X', posos, kwos, 1))
            out.append(('X', posos, kwos, 2))
    # irregular selections: native PO / KO names, star names, unknown, both at once
    for x in others:
        out.append(('X', (x,), (), 0))
        out.append(('X', (), (x,), 0))
    if pk:
        x = rng.choice(others)
        out.append(('X', (x,), (pk[-1],), 0))
        out.append(('X', (pk[0],), (x,), 0))
    for x in pk:
        out.append(('X', (x,), (x,), 0))
    # names given in another order than the parameters, and twice
    if len(pk) >= 2:
        out.append(('X', (), tuple(reversed(pk)), 0))
        out.append(('X', tuple(reversed(pk[:2])), (), 0))
        out.append(('X', (), (pk[0], pk[1], pk[0]), 0))
    for x in pk + [rng.choice(others)]:
        out.append(('S', x, ()))
        out.append(('E', x, ()))
    if pk:
        out.append(('S', pk[-1], (pk[0],)))
        out.append(('E', pk[0], (pk[-1],)))
        out.append(('S', pk[-1], (others[0],)))
    dflt = [p[0] for p in ps if p[1] == 'PK' and p[2] is not None]
    for r in range(len(dflt) + 1):
        for ex in itertools.combinations(dflt, r):
            out.append(('A', ex))
    out.append(('A', (rng.choice([x for x in allnames if x not in dflt]),)))
    if not full and len(out) > 40:
        out = [o for o in out if rng.random() < 40.0 / len(out)] or out[:5]
    return out


def simple_pool(ps):
    """Single decorators over the regular parameters of ps (layers of a stack)."""
    pk = [p[0] for p in ps if p[1] == 'PK']
    pool = []
    for r in (1, 2):
        for c in itertools.combinations(pk, r):
            pool.append(('X', c, (), 0))
            pool.append(('X', (), c, 0))
    for x in pk:
        pool.append(('S', x, ()))
        pool.append(('E', x, ()))
    dflt = [p[0] for p in ps if p[1] == 'PK' and p[2] is not None]
    pool.append(('A', ()))
    for x in dflt:
        pool.append(('A', (x,)))
    return pool


_STACK_CACHE = {}


def stack_classes(ps):
    """Two-layer stacks over simple_pool(ps) whose inner layer alone is an
    admissible, non-empty selection, by what the property says about them:
      both : each layer alone is admissible for f, together they mark a parameter with both kinds
      bad  : inadmissible for another reason
      ok   : admissible, and the outer layer selects something"""
    if ps in _STACK_CACHE:
        return _STACK_CACHE[ps]
    pool = simple_pool(ps)
    both, bad, ok = [], [], []
    for inner in pool:
        r1 = spec_stack(ps, inner)
        if r1 is None or not (r1[0] or r1[1]):
            continue
        for outer in pool:
            fm = ('K', inner, outer)
            r = spec_stack(ps, fm)
            sel2 = spec_select(r1[2], outer)
            if r is not None:
                if sel2[0] or sel2[1]:
                    ok.append(fm)
                continue
            alone = spec_decorate(ps, outer)
            if sel2 is not None and alone is not None and ((r1[0] | sel2[0]) & (r1[1] | sel2[1])):
                both.append(fm)
            else:
                bad.append(fm)
    _STACK_CACHE[ps] = (both, bad, ok, pool)
    return _STACK_CACHE[ps]


def stack_forms_for(ps, rng, quick):
    both, bad, ok, pool = stack_classes(ps)
    nb, nbad, nok, n3 = (3, 1, 3, 1) if quick else (8, 3, 8, 3)
    out = rng.sample(both, min(nb, len(both))) + rng.sample(bad, min(nbad, len(bad))) \
        + rng.sample(ok, min(nok, len(ok)))
    # three layers: a third decorator on top of an admissible stack
    for fm in rng.sample(ok, min(n3, len(ok))):
        out.append(('K', fm, rng.choice(pool)))
    return out


# ---------------------------------------------------------------- independent spec (written from the property)
def spec_select(ps, form):
    """(posos, kwos) as sets, or None when the decorator must raise ValueError."""
    if form[0] == 'K':
        r = spec_stack(ps, form)
        return None if r is None else (r[0], r[1])
    pk = [p for p in ps if p[1] == 'PK']
    pkn = [p[0] for p in pk]
    if form[0] == 'X':
        return set(form[1]), set(form[2])
    if form[0] == 'S':
        if form[1] not in pkn:
            return None
        return set(), set(form[2]) | set(pkn[pkn.index(form[1]):])
    if form[0] == 'E':
        if form[1] not in pkn:
            return None
        return set(form[2]) | set(pkn[:pkn.index(form[1]) + 1]), set()
    dflt = [p[0] for p in pk if p[2] is not None]
    if not set(form[1]) <= set(dflt):
        return None
    return set(), set(dflt) - set(form[1])


def spec_advertised(ps, posos, kwos):
    """The signature the property promises, or None for an inadmissible selection."""
    kinds = {p[0]: p[1] for p in ps}
    if posos & kwos:
        return None
    for x in posos:
        if kinds.get(x) not in ('PK', 'PO'):
            return None
    for x in kwos:
        if kinds.get(x) not in ('PK', 'KO'):
            return None
    regular = False
    for nm, k, de, an in ps:
        if k != 'PK':
            continue
        if nm in posos:
            if regular:
                return None
        elif nm not in kwos:
            regular = True
    body = [(nm, 'PO' if (k == 'PK' and nm in posos) else k, de, an)
            for nm, k, de, an in ps if not (k == 'PK' and nm in kwos) and k != 'VK']
    moved = [(nm, 'KO', de, an) for nm, k, de, an in ps if k == 'PK' and nm in kwos]
    tail = [p for p in ps if p[1] == 'VK']
    return tuple(body + moved + tail)


SPEC_DISAGREE = []


def spec_stack(ps, form):
    """(posos, kwos, advertised) of a decorator stack, or None when decorating
    must raise ValueError.  The outer decorator's start= / end= / exceptions=
    selection is taken on what it decorates (the inner result); the selections
    of all layers together are then ONE selection of the original function:
    every rule for inadmissible selections applies to the combined one."""
    if form[0] != 'K':
        adv = spec_decorate(ps, form)
        if adv is None:
            return None
        sel = spec_select(ps, form)
        return sel[0], sel[1], adv
    r1 = spec_stack(ps, form[1])
    if r1 is None:
        return None
    p1, k1, adv1 = r1
    sel2 = spec_select(adv1, form[2])
    if sel2 is None:
        return None
    seq = spec_advertised(adv1, sel2[0], sel2[1])          # the outer layer alone, on what it decorates
    posos, kwos = p1 | sel2[0], k1 | sel2[1]
    uni = spec_advertised(ps, posos, kwos)                 # the combined selection, on the original
    if (seq is None) != (uni is None):
        SPEC_DISAGREE.append((ps, form))
    if seq is None or uni is None:
        return None
    return posos, kwos, uni


def form_parts(form):
    """The non-stack forms of a form, innermost first."""
    if form[0] == 'K':
        return form_parts(form[1]) + form_parts(form[2])
    return [form]


def names_first(form, first):
    """Does the decorator text itself name the parameter `first`?"""
    for fm in form_parts(form):
        if fm[0] in 'XA' or fm[1] == first or first in fm[2]:
            return True
    return False


def inner_rerun(form):
    """A stack with a start= / end= form among its layers."""
    return form[0] == 'K' and any(fm[0] in 'SE' for fm in form_parts(form))


def spec_decorate(ps, form):
    if form[0] == 'K':
        r = spec_stack(ps, form)
        return None if r is None else r[2]
    sel = spec_select(ps, form)
    if sel is None:
        return None
    posos, kwos = sel
    if form[0] == 'X' and form[3] == 1 and spec_advertised(ps, set(), kwos) is None:
        return None       # the inner decorator alone must be admissible
    if form[0] == 'X' and form[3] == 2 and spec_advertised(ps, posos, set()) is None:
        return None
    return spec_advertised(ps, posos, kwos)


def drop_first(ps):
    if ps and ps[0][1] in ('PO', 'PK'):
        return tuple(ps[1:])
    return tuple(ps)


# ---------------------------------------------------------------- calls
def sublists(l):
    if not l:
        return [[]]
    r = sublists(l[1:])
    return [[l[0]] + s for s in r] + r


def calls_for(maxpos, knames):
    out = []
    subs = sublists(list(knames))
    for n in range(maxpos + 2):
        for ks in subs:
            out.append((n, tuple(ks)))
    return out


def call_args(call):
    """call = (n, ks): distinguishable values; (n, ks, pv, kv): value number j of
    the positional / named arguments is SPECIALS[pv[j]] / SPECIALS[kv[j]] unless
    that index is negative."""
    if len(call) == 4:
        n, ks, pv, kv = call
        return ([200 + j if pv[j] < 0 else SPECIALS[pv[j]] for j in range(n)],
                {name_of(k): (300 + k if kv[i] < 0 else SPECIALS[kv[i]]) for i, k in enumerate(ks)})
    n, ks = call
    return [200 + j for j in range(n)], {name_of(k): 300 + k for k in ks}


def vcalls_for(calls, vrng):
    """For every call shape: (1) every named argument is None; (2) a random
    non-empty subset of the arguments carries random special values."""
    out = []
    ns = len(SPECIALS)
    for n, ks in calls:
        if ks:
            out.append((n, ks, (-1,) * n, (0,) * len(ks)))
        m = n + len(ks)
        if m:
            pick = [vrng.randrange(ns) if vrng.random() < 0.5 else -1 for _ in range(m)]
            if all(x < 0 for x in pick):
                pick[vrng.randrange(m)] = vrng.randrange(ns)
            out.append((n, ks, tuple(pick[:n]), tuple(pick[n:])))
    return out


def canon_result(res, order, values=False):
    """dict name -> value  ->  tuple of (name id, tagged value) in `order`.
    values=True: every value goes through vnum (special values by identity,
    exact ints, anything else SELFVAL)."""
    out = []
    for nm in order:
        v = res[name_of(nm)]
        if values:
            if type(v) is tuple:
                out.append((nm, ('T', tuple(vnum(x) for x in v))))
            elif type(v) is dict:
                out.append((nm, ('D', tuple((id_of_name(k), vnum(x)) for k, x in v.items()))))
            else:
                out.append((nm, ('V', vnum(v))))
        elif isinstance(v, tuple):
            out.append((nm, ('T', tuple(v))))
        elif isinstance(v, dict):
            out.append((nm, ('D', tuple((id_of_name(k), x) for k, x in v.items()))))
        elif isinstance(v, int):
            out.append((nm, ('V', v)))
        else:
            out.append((nm, ('V', SELFVAL)))
    return tuple(out)


def really_call(f, call):
    """'TypeError' | dict"""
    a, k = call_args(call)
    try:
        return f(*a, **k)
    except TypeError:
        return None


def encode(canon):
    """Injective encoding of a canonical result as one number (mirrors enc_res
    in the Coq preamble)."""
    if canon is None:
        return 0
    acc = 1
    for nm, (tag, v) in canon:
        toks = [nm]
        if tag == 'V':
            toks += [1, v]
        elif tag == 'T':
            toks += [2, len(v)] + list(v)
        else:
            toks += [3, len(v)]
            for k, x in v:
                toks += [k, x]
        for t in toks:
            assert 0 <= t < 1000
            acc = acc * 1000 + t
    return acc


def excluded(adv, call):
    if not any(p[1] == 'VK' for p in adv):
        return False
    po = {p[0] for p in adv if p[1] == 'PO'}
    return bool(po & set(call[1]))


# ---------------------------------------------------------------- one decorated function
class Outcome(object):
    """Everything observed on the implementation for (ps, form, bound)."""
    __slots__ = ('ps', 'form', 'bound', 'adv', 'calls', 'results', 'order', 'maxpos', 'knames', 'error')


def observe(ps, form, bound, getter=None):
    """Decorate really; returns (decorated callable or None, advertised params or
    None for ValueError, other exception or None).  With a getter the callable
    is fetched from an already built scenario (shared function) instead."""
    f = make_fn(ps, fresh=True) if getter is None else None
    try:
        with warnings.catch_warnings():
            warnings.simplefilter('ignore')
            if getter is not None:
                g = getter()
            else:
                g = apply_form(f, form)
                if bound:
                    cls = type('C', (object,), {'m': g})
                    g = cls().m
            s1 = describe_params(sigtools.signature(g))
            s2 = describe_params(inspect.signature(g))
    except ValueError as e:
        if type(e) is not ValueError:
            return None, None, 'raised %s' % type(e).__name__
        return None, None, None
    except Exception as e:  # noqa: BLE001
        return None, None, 'raised %s: %s' % (type(e).__name__, e)
    if s1 != s2:
        return g, s1, 'sigtools.signature gives %s but inspect.signature gives %s' % (show_ps(s1), show_ps(s2))
    return g, s1, None


def case_calls(ps, bound):
    pos = [p for p in ps if p[1] in ('PO', 'PK')]
    maxpos = len(pos) - (1 if bound else 0)
    named = [p[0] for p in ps if p[1] in ('PO', 'PK', 'KO')]
    if bound:
        named = named[1:]
    return maxpos, tuple(named) + (FOREIGN,)


def check_case(ps, form, bound, rep, stats, only_call=None, defer=None, getter=None, shared=None):
    """Runs one decorated function against the spec and the native-def oracle.
    Returns (advertised or None, [canonical result per call]) for the model
    comparison, or None when the case cannot be compared."""
    what0 = '%s with f%s%s' % (show_form(form), show_ps(ps), ' accessed on an instance' if bound else '')
    rdict = {'ps': [list(p) for p in ps], 'form': _form_to(form), 'bound': bound}
    if shared is not None:
        rdict['shared'] = shared
        what0 = '%s [%s]' % (what0, show_shared(shared))
    g, adv, err = observe(ps, form, bound, getter)
    spec = spec_decorate(ps, form)
    self_selected = False
    if bound and spec is not None:
        sel = spec_select(ps, form)
        first = ps[0][0]
        self_selected = first in sel[0] or first in sel[1]
        # function-level advertised signature without its first parameter; a
        # first parameter that was made keyword-only cannot be bound
        spec = drop_first(spec) if first not in sel[1] else None
    stats['decorated'] += 1
    if err is not None:
        rep.violation('C12:exception' if adv is None else 'C12:signature', '%s: %s' % (what0, err), rdict)
        return None
    if self_selected:
        # the selection names the parameter that instance access binds
        stats['self_selected'] += 1
        named_self = names_first(form, ps[0][0])
        if adv is None and not named_self:
            # start= / end= forms rerun their selection on the bound method
            rep.violation('C12:bound-rerun', '%s: accessing the method on an instance raises ValueError although the '
                          'selection does not name the first parameter' % what0, rdict)
            return ('skip', adv)
        if adv is None:
            v = ('C12:bound-self-selected',
                 '%s: accessing the method on an instance raises ValueError (the selection names the first parameter, which the bound method no longer has)' % what0, rdict)
            if defer is None:
                rep.violation(*v)
            elif len(defer) < 5:
                defer.append(v)
            return ('skip', adv)
        if spec is None:
            return ('skip', adv)
    if (adv is None) != (spec is None):
        rep.violation('C12:admissible', '%s: %s but the selection is %s' % (
            what0, 'raised ValueError' if adv is None else 'was accepted and advertises %s' % show_ps(adv),
            'admissible (expected %s)' % show_ps(spec) if spec is not None else 'inadmissible (ValueError expected)'), rdict)
        return (adv, [])
    if adv is None:
        stats['valueerror'] += 1
        return (None, [])
    if adv != spec:
        rep.violation('C12:signature', '%s: advertises %s, expected %s' % (what0, show_ps(adv), show_ps(spec)), rdict)
    # ---- calls: decorated vs a plain def that natively has the advertised signature
    full_adv = adv
    if bound:
        kind0 = 'PO' if (ps[0][1] == 'PO' or any(p[1] == 'PO' for p in adv)) else 'PK'
        full_adv = ((ps[0][0], kind0, ps[0][2], ps[0][3]),) + tuple(adv)
    try:
        native = make_fn(tuple(full_adv))
    except SyntaxError:
        rep.violation('C12:signature', '%s: advertised signature %s cannot be written as a def' % (what0, show_ps(adv)), rdict)
        return (adv, [])
    if bound:
        ncls = type('N', (object,), {'m': native})
        native = ncls().m
    order = [p[0] for p in ps]
    maxpos, knames = case_calls(ps, bound)
    results = []
    vresults = []
    shapes = calls_for(maxpos, knames)
    if only_call is not None:
        plan = [only_call]
    else:
        vrng = random.Random('%r|%r|%r|%r' % (VALUE_SEED[0], ps, form, bound))
        plan = shapes + vcalls_for(shapes, vrng)
    for call in plan:
        values = len(call) == 4
        dest = vresults if values else results
        if excluded(adv, call):
            stats['excluded_calls'] += 1
            dest.append((call, EXCL) if values else EXCL)
            continue
        stats['value_calls' if values else 'calls'] += 1
        try:
            r = really_call(g, call)
        except Exception as e:  # noqa: BLE001
            rep.violation('C12:exception', '%s: call %s raised %s: %s' % (what0, show_callv(call), type(e).__name__, e),
                          dict(rdict, call=_call_to(call)))
            dest.append((call, EXCL) if values else EXCL)
            continue
        o = really_call(native, call)
        cr = None if r is None else canon_result(r, order, values)
        co = None if o is None else canon_result(o, order, values)
        if cr is None:
            stats['typeerror'] += 1
        if cr != co:
            if cr is None or co is None:
                what = '%s: call %s %s, but a def with the advertised signature %s %s' % (
                    what0, show_callv(call), 'raises TypeError' if cr is None else 'is accepted (%s)' % show_canon(cr),
                    show_ps(adv), 'raises TypeError' if co is None else 'accepts it (%s)' % show_canon(co))
                key = 'C12:accepts'
            else:
                what = '%s: call %s delivers %s, but the advertised signature %s binds %s' % (
                    what0, show_callv(call), show_canon(cr), show_ps(adv), show_canon(co))
                key = 'C12:routing'
            if values:
                key += '-value'
            rep.violation(key, what, dict(rdict, call=_call_to(call)))
        dest.append((call, encode(cr)) if values else encode(cr))
    return (adv, results, vresults)


def _call_to(call):
    return [list(x) if isinstance(x, tuple) else x for x in call]


def _call_from(l):
    return tuple(tuple(x) if isinstance(x, list) else x for x in l)


def vresults_of(r):
    return r[2] if r is not None and len(r) > 2 else []


def _show_value(v):
    for i, sp in enumerate(SPECIALS):
        if v is sp:
            return SPECIAL_NAMES[i]
    return str(v)


def show_callv(call):
    a, k = call_args(call)
    return 'f(%s)' % ', '.join([_show_value(x) for x in a] + ['%s=%s' % (n, _show_value(v)) for n, v in k.items()])


def show_canon(c):
    out = []
    sv = lambda x: SPECIAL_NAMES[x - SPECIAL_BASE] if (type(x) is int and SPECIAL_BASE <= x < SPECIAL_BASE + len(SPECIALS)) else x  # noqa: E731
    for nm, (tag, v) in c:
        if tag == 'D':
            v = {name_of(k): sv(x) for k, x in v}
        elif tag == 'T':
            v = tuple(sv(x) for x in v)
        else:
            v = sv(v)
        out.append('%s=%s' % (name_of(nm), v))
    return ', '.join(out)


# ---------------------------------------------------------------- one function, several translators
# The descriptor cache (OverrideableDataDesc.insts) is keyed by the function
# that __get__ produced; every translator must own its cache.  Scenarios: the
# SAME function object decorated with several different admissible selections,
# used as attributes of one class (same instance, or through the class) or of
# several classes (through the class), looked up in a given order first.
#   shared = {'forms': [...], 'mode': 'instance' | 'class' | 'classes', 'order': [...], 'index': i}
def _form_to(form):
    if form[0] == 'K':
        return ['K', _form_to(form[1]), _form_to(form[2])]
    return [form[0]] + [list(x) if isinstance(x, tuple) else x for x in form[1:]]


def show_shared(sh):
    kind = sh.get('kind', 'shared')
    if kind == 'derived':
        return ('observed AFTER %s was built on top of this decorated callable (%s)'
                % (show_form(_form_from(sh['form2'])).replace('(f)', '(g)'),
                   {'direct': 'g used directly', 'instance': 'g is attribute m of a class and is looked up on an instance',
                    'class': 'g is attribute m of a class and is looked up on the class'}[sh['mode']]))
    if kind == 'annotate':
        return ('observed AFTER %s was applied on top of this decorated callable of f%s (%s)'
                % (' then '.join('annotate(%s)' % ', '.join('%s=%d' % (name_of(n), v) for n, v in step) for step in sh['steps']),
                   show_ps(tuple(tuple(p) for p in sh['ps0'])),
                   {'direct': 'g used directly', 'instance': 'g is attribute m of a class and is looked up on an instance',
                    'class': 'g is attribute m of a class and is looked up on the class'}[sh['mode']]))
    if kind == 'wraps':
        q = tuple(tuple(p) for p in sh['ps2'])
        return ('observed AFTER functools.%s copied the metadata of g2 = %s with f%s onto this decorated callable (%s)'
                % ('wraps(g2)(g)' if sh['how'] == 'wraps' else 'update_wrapper(g, g2)',
                   show_form(_form_from(sh['form2'])), show_ps(q),
                   {'direct': 'g used directly', 'instance': 'g is attribute m of a class and is looked up on an instance',
                    'class': 'g is attribute m of a class and is looked up on the class'}[sh['mode']]))
    if kind == 'owner':
        return ('attribute m of %s; looked up first on %s, then observed on the instance'
                % (OWNER_KINDS[sh['owner']][0], ', then '.join(sh['touch']) or 'nothing'))
    if kind == 'reuse':
        return ('ONE decorator object applied in turn to functions %s; this is number %d'
                % (' / '.join('f%s' % show_ps(tuple(tuple(p) for p in q)) for q in sh['pss']), sh['index']))
    forms = [show_form(_form_from(f)) for f in sh['forms']]
    where = {'instance': 'attributes m0.. of one class, looked up on one instance',
             'class': 'attributes m0.. of one class, looked up on the class',
             'classes': 'attribute m of classes C0.., looked up on the classes'}[sh['mode']]
    return 'the same function object is also decorated as %s; %s in the order %s; this is number %d' % (
        ' / '.join(forms), where, sh['order'], sh['index'])


def build_derived(ps, form, sh):
    """g = form(f); a second decorator is then built on top of g (it may be
    rejected); returns a getter for g itself."""
    f = make_fn(ps, fresh=True)
    with warnings.catch_warnings():
        warnings.simplefilter('ignore')
        g = apply_form(f, form)
        owner = None
        if sh['mode'] != 'direct':
            cls = type('K', (object,), {'m': g})
            owner = cls() if sh['mode'] == 'instance' else cls
            g = cls.__dict__['m']
        try:
            apply_form(g, _form_from(sh['form2']))
        except Exception:  # noqa: BLE001
            pass
    if owner is None:
        return lambda: g
    return lambda: getattr(owner, 'm')


def build_annotate(form, sh):
    """g = form(f) for f with parameters sh['ps0']; then modifiers.annotate(...)
    is applied on top of g once per step; returns a getter for g."""
    f = make_fn(tuple(tuple(p) for p in sh['ps0']), fresh=True)
    with warnings.catch_warnings():
        warnings.simplefilter('ignore')
        g = apply_form(f, form)
        for step in sh['steps']:
            g = modifiers.annotate(**{name_of(n): v for n, v in step})(g)
    if sh['mode'] == 'direct':
        return lambda: g
    cls = type('K', (object,), {'m': g})
    owner = cls() if sh['mode'] == 'instance' else cls
    return lambda: getattr(owner, 'm')


def annotate_scenarios(ps, rng):
    """(annotated ps, form, bound, scenario): annotate applied once or twice on
    top of a decorated callable; the advertised signature is the rewrite of
    the re-annotated parameters, the routing is unchanged."""
    forms = _translator_forms(ps, rng)
    named = [p[0] for p in ps if p[1] not in ('VP', 'VK')]
    if not forms or not named:
        return
    has_self = bool(ps) and ps[0][1] in ('PO', 'PK')
    for fm in rng.sample(forms, min(3, len(forms))):
        sel = spec_select(ps, fm)
        steps = []
        for _ in range(rng.choice([1, 1, 2])):
            chosen = rng.sample(named, rng.randint(1, min(2, len(named))))
            steps.append([[n, rng.choice([50, 60, 70]) + n] for n in chosen])
        ann = {}
        for step in steps:
            for n, v in step:
                ann[n] = v
        ps_ann = tuple((nm, k, de, ann.get(nm, an)) for nm, k, de, an in ps)
        modes = ['direct', 'direct']
        if has_self and ps[0][0] not in sel[0] and ps[0][0] not in sel[1]:
            modes += ['class', 'instance']
        mode = rng.choice(modes)
        yield ps_ann, fm, mode == 'instance', {'kind': 'annotate', 'ps0': [list(p) for p in ps],
                                                'steps': steps, 'mode': mode}


def build_wraps(ps, form, sh):
    """g = form(f), g2 = form2(f2) for another function; functools.wraps(g2)(g) /
    update_wrapper(g, g2); returns a getter for g."""
    f = make_fn(ps, fresh=True)
    f2 = make_fn(tuple(tuple(p) for p in sh['ps2']), fresh=True)
    with warnings.catch_warnings():
        warnings.simplefilter('ignore')
        g = apply_form(f, form)
        g2 = apply_form(f2, _form_from(sh['form2']))
        if sh['how'] == 'wraps':
            g = functools.wraps(g2)(g)
        else:
            functools.update_wrapper(g, g2)
    if sh['mode'] == 'direct':
        return lambda: g
    cls = type('K', (object,), {'m': g})
    owner = cls() if sh['mode'] == 'instance' else cls
    return lambda: getattr(owner, 'm')


# ---------------------------------------------------------------- the instance the method is looked up on
# Instance access binds the first parameter whatever the instance is: the
# bound signature and the call routing are those observed on a plain object()
# instance (the native oracle of check_case uses one).  The classes below vary
# what the instance says about itself: truth value, length, equality, hash,
# attribute storage.  The instance never travels through vnum as a number
# (no int / tuple / dict subclasses), it is delivered as SELFVAL.
def _owner_ns(kind):
    if kind == 'plain':
        return (object,), {}
    if kind == 'len0':
        return (object,), {'__len__': lambda self: 0}
    if kind == 'boolfalse':
        return (object,), {'__bool__': lambda self: False}
    if kind == 'emptylist':
        return (list,), {}
    if kind == 'emptyset':
        return (set,), {}
    if kind == 'emptystr':
        return (str,), {}
    if kind == 'emptybytes':
        return (bytes,), {}
    if kind == 'unhashable':
        return (object,), {'__eq__': lambda self, other: self is other, '__hash__': None}
    if kind == 'eqall':
        return (object,), {'__eq__': lambda self, other: True, '__hash__': lambda self: 1}
    if kind == 'slots':
        return (object,), {'__slots__': ()}
    if kind == 'slots-len0':
        return (object,), {'__slots__': (), '__len__': lambda self: 0}
    if kind == 'getattr':
        def ga(self, name):
            raise AttributeError(name)
        return (object,), {'__getattr__': ga, '__bool__': lambda self: False}
    raise KeyError(kind)


OWNER_KINDS = {
    'plain': ('a plain class', False),
    'len0': ('a class whose __len__ returns 0 (falsy instance)', True),
    'boolfalse': ('a class whose __bool__ returns False (falsy instance)', True),
    'emptylist': ('a list subclass, empty instance (falsy)', True),
    'emptyset': ('a set subclass, empty instance (falsy)', True),
    'emptystr': ('a str subclass, empty instance (falsy)', True),
    'emptybytes': ('a bytes subclass, empty instance (falsy)', True),
    'unhashable': ('a class with __eq__ and __hash__ = None (unhashable instance)', False),
    'eqall': ('a class whose instances are all equal with equal hashes', False),
    'slots': ('a class with empty __slots__', False),
    'slots-len0': ('a class with empty __slots__ whose __len__ returns 0 (falsy instance)', True),
    'getattr': ('a class with a raising __getattr__ and __bool__ returning False (falsy instance)', True),
}
OWNER_ORDER = ['plain', 'len0', 'boolfalse', 'emptylist', 'emptyset', 'emptystr', 'emptybytes', 'unhashable', 'eqall',
               'slots', 'slots-len0', 'getattr']


def build_owner(ps, form, sh):
    """g = form(f) is attribute m of a class of the given kind; the lookups of
    sh['touch'] ('class' / 'instance' / 'other': another instance of the same
    class) happen first; returns a getter for the lookup on THE instance."""
    f = make_fn(ps, fresh=True)
    with warnings.catch_warnings():
        warnings.simplefilter('ignore')
        g = apply_form(f, form)
    bases, ns = _owner_ns(sh['owner'])
    ns = dict(ns, m=g)
    cls = type('O', bases, ns)
    inst = cls()
    other = cls()
    keep = []
    for t in sh['touch']:
        try:
            keep.append(getattr({'class': cls, 'instance': inst, 'other': other}[t], 'm'))
        except Exception:  # noqa: BLE001
            pass
    return lambda: getattr(inst, 'm')


def owner_scenarios(ps, rng, kinds):
    """(form, True, scenario): admissible single forms that do not select the
    first parameter, the method looked up on instances of every kind."""
    if not (ps and ps[0][1] in ('PO', 'PK')):
        return
    first = ps[0][0]
    forms = []
    for fm in _translator_forms(ps, rng):
        sel = spec_select(ps, fm)
        if first in sel[0] or first in sel[1]:
            continue
        forms.append(fm)
    if not forms:
        return
    for kind in kinds:
        fm = rng.choice(forms)
        touch = rng.choice([[], [], ['class'], ['instance'], ['other'], ['class', 'other'], ['other', 'class']])
        yield fm, True, {'kind': 'owner', 'owner': kind, 'touch': touch}


def build_reuse(form, sh):
    dec = decorator_for(form)
    res = []
    with warnings.catch_warnings():
        warnings.simplefilter('ignore')
        for q in sh['pss']:
            f = make_fn(tuple(tuple(p) for p in q), fresh=True)
            try:
                res.append((True, dec(f)))
            except Exception as e:  # noqa: BLE001
                res.append((False, e))
    ok, val = res[sh['index']]

    def getter():
        if not ok:
            raise val
        return val
    return getter


def build_shared(ps, sh, form=None):
    """Builds the scenario, performs the first round of lookups in sh['order'],
    returns a getter for the translator number sh['index']."""
    kind = sh.get('kind', 'shared')
    if kind == 'derived':
        return build_derived(ps, form, sh)
    if kind == 'reuse':
        return build_reuse(form, sh)
    if kind == 'owner':
        return build_owner(ps, form, sh)
    if kind == 'wraps':
        return build_wraps(ps, form, sh)
    if kind == 'annotate':
        return build_annotate(form, sh)
    f = make_fn(ps, fresh=True)
    with warnings.catch_warnings():
        warnings.simplefilter('ignore')
        gs = [apply_form(f, _form_from(fm)) for fm in sh['forms']]
    if sh['mode'] == 'classes':
        owners = [type('C%d' % i, (object,), {'m': g}) for i, g in enumerate(gs)]
        attrs = ['m'] * len(gs)
    else:
        cls = type('C', (object,), {'m%d' % i: g for i, g in enumerate(gs)})
        owner = cls() if sh['mode'] == 'instance' else cls
        owners = [owner] * len(gs)
        attrs = ['m%d' % i for i in range(len(gs))]
    keep = []
    for i in sh['order']:
        try:
            keep.append(getattr(owners[i], attrs[i]))
        except Exception:  # noqa: BLE001
            pass
    i = sh['index']
    return lambda: getattr(owners[i], attrs[i])


def derived_scenarios(ps, rng):
    """(form, bound, scenario): an admissible first decoration, then a second
    decorator (any form, admissible or not) built on top of it."""
    forms = forms_for(ps, rng, True)
    firsts = []
    for fm in forms:
        spec = spec_decorate(ps, fm)
        sel = spec_select(ps, fm)
        if spec is None or not (sel[0] or sel[1]):
            continue
        firsts.append(fm)
    if not firsts:
        return
    has_self = bool(ps) and ps[0][1] in ('PO', 'PK')
    for fm in rng.sample(firsts, min(2, len(firsts))):
        sel = spec_select(ps, fm)
        modes = ['direct']
        if has_self and ps[0][0] not in sel[0] and ps[0][0] not in sel[1]:
            modes += ['instance', 'class']
        for f2 in rng.sample(forms, min(3, len(forms))):
            mode = rng.choice(modes)
            yield fm, mode == 'instance', {'kind': 'derived', 'form2': _form_to(f2), 'mode': mode}


def _translator_forms(ps, rng, want_kwo=False):
    out = []
    for fm in forms_for(ps, rng, True):
        spec = spec_decorate(ps, fm)
        sel = spec_select(ps, fm)
        if spec is None or not (sel[0] or sel[1]) or (want_kwo and not sel[1]):
            continue
        out.append(fm)
    return out


def wraps_scenarios(ps, fns2, rng):
    """(form, bound, scenario): a translator g of ps receives, through
    functools.wraps / update_wrapper, the metadata of a translator g2 of another
    function with another keyword-only layout."""
    firsts = _translator_forms(ps, rng)
    if not firsts:
        return
    has_self = bool(ps) and ps[0][1] in ('PO', 'PK')
    for fm in rng.sample(firsts, min(2, len(firsts))):
        sel = spec_select(ps, fm)
        for _ in range(3):
            ps2 = rng.choice(fns2)
            f2s = _translator_forms(ps2, rng, want_kwo=True)
            if not f2s:
                continue
            modes = ['direct', 'direct']
            if has_self and ps[0][0] not in sel[0] and ps[0][0] not in sel[1]:
                modes.append('class')
            mode = rng.choice(modes)
            yield fm, False, {'kind': 'wraps', 'ps2': [list(p) for p in ps2], 'form2': _form_to(rng.choice(f2s)),
                              'how': rng.choice(['wraps', 'update_wrapper']), 'mode': mode}


def reuse_scenarios(ps, fns, rng):
    """(ps_i, form, scenario): one decorator object applied to three functions."""
    forms = forms_for(ps, rng, True)
    autos = [fm for fm in forms if fm[0] == 'A' and fm[1]]
    rest = [fm for fm in forms if not (fm[0] == 'A' and fm[1])]
    chosen = autos[:3] + rng.sample(rest, min(2, len(rest)))
    for fm in chosen:
        others = []
        if fm[0] == 'A' and fm[1]:
            x = fm[1][0]
            with_x = [q for q in fns if any(p[0] == x and p[1] == 'PK' and p[2] is not None for p in q)]
            without = [q for q in fns if all(p[0] != x for p in q)]
            if with_x:
                others.append(rng.choice(with_x))
            if without:
                others.append(rng.choice(without))
        while len(others) < 2:
            others.append(rng.choice(fns))
        pss = [ps] + others
        sh0 = [[list(p) for p in q] for q in pss]
        for i in range(len(pss)):
            yield tuple(pss[i]), fm, {'kind': 'reuse', 'pss': sh0, 'index': i}


def shared_forms(ps, rng):
    """2-3 admissible selections of ps with pairwise different advertised
    signatures that do not name the first parameter."""
    first = ps[0][0]
    cands = []
    seen = set()
    forms = forms_for(ps, rng, True)
    rng.shuffle(forms)
    for fm in forms:
        spec = spec_decorate(ps, fm)
        sel = spec_select(ps, fm)
        if spec is None or not (sel[0] or sel[1]) or first in sel[0] or first in sel[1]:
            continue
        if spec in seen or spec == tuple(ps):
            continue
        seen.add(spec)
        cands.append(fm)
        if len(cands) == 3:
            break
    return cands


def shared_scenarios(ps, rng):
    forms = shared_forms(ps, rng)
    if len(forms) < 2:
        return
    n = len(forms)
    fl = [_form_to(f) for f in forms]
    for mode in ('instance', 'class', 'classes'):
        order = list(range(n))
        rng.shuffle(order)
        for index in range(n):
            yield forms[index], mode == 'instance', {'forms': fl, 'mode': mode, 'order': order, 'index': index}


# ---------------------------------------------------------------- the model, inside Coq
PREAMBLE = r'''
From Sigtools.Model Require Import Base Bind Algebra Modifiers.
Definition P (n : N) (k : kind) (d a : option N) : param := mkParam n k d a UEmpty.
Definition enc_bval (b : bval) : list N :=
  match b with
  | BV v => [1; v]
  | BTup l => 2 :: N.of_nat (length l) :: l
  | BDict l => 3 :: N.of_nat (length l) :: flat_map (fun kv => [fst kv; snd kv]) l
  end.
Definition enc_env (e : env) : N :=
  fold_left (fun acc x => acc * 1000 + x) (flat_map (fun nv => fst nv :: enc_bval (snd nv)) e) 1.
Definition enc_res (o : option env) : N := match o with Some e => enc_env e | None => 0 end.
Definition calls_for (maxpos : nat) (knames : list name) : list (list N * kwargs) :=
  flat_map (fun n => map (fun ks => (map (fun j => 200 + N.of_nat j) (seq 0 n),
                                     map (fun k => (k, 300 + k)) ks)) (sublists knames))
           (seq 0 (S (S maxpos))).
(* explicit forms built by stacking two decorators: the inner one alone must succeed *)
Definition model_decorate (bound : bool) (ps : list param) (f : form) (order : nat) :=
  let dec := if bound then decorate_bound else decorate in
  match f, order with
  | FExplicit p k, 1%nat => do _ <- decorate ps (FExplicit [] k) ;; dec ps f
  | FExplicit p k, 2%nat => do _ <- decorate ps (FExplicit p []) ;; dec ps f
  | _, _ => dec ps f
  end.
Definition param_list_eqb (a b : list param) : bool :=
  Nat.eqb (length a) (length b) && forallb (fun pq => param_eqb (fst pq) (snd pq)) (combine a b).
Fixpoint diff_idx (i : N) (got expect : list N) : list N :=
  match got, expect with
  | g :: got', e :: expect' =>
      (if N.eqb e 7 || N.eqb g e then [] else [i]) ++ diff_idx (i + 1) got' expect'
  | [], [] => []
  | _, _ => [998]
  end.
Record tcase := mkCase { c_bound : bool; c_ps : list param; c_form : form; c_order : nat;
                         c_sig : option (list param); c_maxpos : nat; c_knames : list name;
                         c_expect : list N }.
(* numbers c*1000 + j: call j of case c differs (999: the signature / ValueError differs) *)
Definition run_case (ci : N) (c : tcase) : list N :=
  match model_decorate (c_bound c) (c_ps c) (c_form c) (c_order c), c_sig c with
  | Err ValueErr, None => []
  | Ok (adv, kp, posos), Some s =>
      if param_list_eqb adv s then
        let pre := if c_bound c then [999] else [] in
        let got := map (fun ak =>
                     if excluded adv (snd ak) then 7
                     else enc_res (match pok_call kp posos (fst ak) (snd ak) with
                                   | Ok (a', k') => bindv (c_ps c) (pre ++ a') k'
                                   | Err _ => None
                                   end))
                   (calls_for (c_maxpos c) (c_knames c)) in
        map (fun j => ci * 1000 + j) (diff_idx 0 got (c_expect c))
      else [ci * 1000 + 999]
  | _, _ => [ci * 1000 + 999]
  end.
Fixpoint run_all (ci : N) (cs : list tcase) : list N :=
  match cs with [] => [] | c :: cs' => run_case ci c ++ run_all (ci + 1) cs' end.
(* bindv alone against really calling the undecorated def *)
Definition run_bind (ci : N) (c : tcase) : list N :=
  let got := map (fun ak => enc_res (bindv (c_ps c) (fst ak) (snd ak)))
                 (calls_for (c_maxpos c) (c_knames c)) in
  map (fun j => ci * 1000 + j) (diff_idx 0 got (c_expect c)).
Fixpoint run_all_bind (ci : N) (cs : list tcase) : list N :=
  match cs with [] => [] | c :: cs' => run_bind ci c ++ run_all_bind (ci + 1) cs' end.
(* stacks of decorators: the outer layer selects on what the inner one advertises,
   _merge_other unites the name sets, _prepare runs on the original parameters *)
Inductive sform := SBase (f : form) (order : nat) | SStack (inner : sform) (outer : form).
Fixpoint stack_decorate (ps : list param) (sf : sform)
  : res (list param * list (nat * param) * list name * list name) :=
  match sf with
  | SBase f order =>
      do r <- model_decorate false ps f order ;;
      do pk <- select ps f ;;
      Ok (fst (fst r), snd (fst r), fst pk, snd pk)
  | SStack i o =>
      do r1 <- stack_decorate ps i ;;
      let '(adv1, kp1, p1, k1) := r1 in
      do pk <- select adv1 o ;;
      match fst pk, snd pk with
      | [], [] => Ok r1
      | p2, k2 =>
          let pk' := merge_other p2 k2 p1 k1 in
          do r <- prepare ps (fst pk') (snd pk') ;;
          Ok (fst r, snd r, fst pk', snd pk')
      end
  end.
(* cases with an explicit call list (argument values given, not generated) *)
Record gcase := mkG { g_bound : bool; g_ps : list param; g_sf : sform; g_sig : option (list param);
                      g_calls : list (list N * kwargs); g_expect : list N }.
Definition g_decorate (c : gcase) : res (list param * list (nat * param) * list name) :=
  match g_sf c with
  | SBase f order => model_decorate (g_bound c) (g_ps c) f order
  | sf => if g_bound c then Err (OtherErr 77)
          else do r <- stack_decorate (g_ps c) sf ;;
               let '(adv, kp, p, _) := r in Ok (adv, kp, p)
  end.
Definition run_gcase (ci : N) (c : gcase) : list N :=
  match g_decorate c, g_sig c with
  | Err ValueErr, None => []
  | Ok (adv, kp, posos), Some s =>
      if param_list_eqb adv s then
        let pre := if g_bound c then [999] else [] in
        let got := map (fun ak =>
                     if excluded adv (snd ak) then 7
                     else enc_res (match pok_call kp posos (fst ak) (snd ak) with
                                   | Ok (a', k') => bindv (g_ps c) (pre ++ a') k'
                                   | Err _ => None
                                   end))
                   (g_calls c) in
        map (fun j => ci * 1000 + j) (diff_idx 0 got (g_expect c))
      else [ci * 1000 + 999]
  | _, _ => [ci * 1000 + 999]
  end.
Fixpoint run_all_g (ci : N) (cs : list gcase) : list N :=
  match cs with [] => [] | c :: cs' => run_gcase ci c ++ run_all_g (ci + 1) cs' end.
'''


def coq_names(l):
    return coqrun.coq_list(['%d' % x for x in l])


def coq_optN(x):
    return 'None' if x is None else '(Some %d)' % x


def coq_params(ps):
    return coqrun.coq_list(['P %d %s %s %s' % (nm, k, coq_optN(de), coq_optN(an)) for nm, k, de, an in ps])


def coq_form(form):
    if form[0] == 'X':
        return '(FExplicit %s %s)' % (coq_names(form[1]), coq_names(form[2]))
    if form[0] == 'S':
        return '(FStart %d %s)' % (form[1], coq_names(form[2]))
    if form[0] == 'E':
        return '(FEnd %d %s)' % (form[1], coq_names(form[2]))
    return '(FAuto %s)' % coq_names(form[1])


def coq_case(ps, form, bound, adv, results):
    maxpos, knames = case_calls(ps, bound)
    return 'mkCase %s %s %s %d%%nat %s %d%%nat %s %s' % (
        'true' if bound else 'false', coq_params(ps), coq_form(form),
        form[3] if form[0] == 'X' else 0,
        'None' if adv is None else '(Some %s)' % coq_params(adv),
        maxpos, coq_names(knames), coq_names(results))


def coq_sform(form):
    if form[0] == 'K':
        return '(SStack %s %s)' % (coq_sform(form[1]), coq_form(form[2]))
    return '(SBase %s %d%%nat)' % (coq_form(form), form[3] if form[0] == 'X' else 0)


def coq_gcase(ps, form, bound, adv, results, vpairs):
    """results (of calls_for) may be None: only the calls with values are compared."""
    maxpos, knames = case_calls(ps, bound)
    calls = []
    expect = []
    for call, enc in vpairs:
        a, k = call_args(call)
        calls.append('(%s, %s)' % (coq_names([vnum(x) for x in a]),
                                   coqrun.coq_list(['(%d, %d)' % (id_of_name(n), vnum(v)) for n, v in k.items()])))
        expect.append(enc)
    cl = coqrun.coq_list(calls)
    if adv is not None and results:
        cl = '(calls_for %d%%nat %s ++ %s)' % (maxpos, coq_names(knames), cl)
        expect = list(results) + expect
    return 'mkG %s %s %s %s %s %s' % (
        'true' if bound else 'false', coq_params(ps), coq_sform(form),
        'None' if adv is None else '(Some %s)' % coq_params(adv), cl, coq_names(expect))


def run_model(shard, fn='run_all'):
    """shard: list of Coq tcase terms -> list of (case index, call index)."""
    pre = PREAMBLE + '\nDefinition cases : list %s := %s.\n' % ('gcase' if fn == 'run_all_g' else 'tcase', coqrun.coq_list(shard))
    ans = coqrun.coq_eval(pre, ['%s 0 cases' % fn], timeout=600)
    nums = coqrun.parse_nat_list(ans[0])
    return [(x // 1000, x % 1000) for x in nums]


def run_model_sharded(terms, fn='run_all', size=300):
    shards = [terms[i:i + size] for i in range(0, len(terms), size)]
    out = []
    with ThreadPoolExecutor(min(8, max(1, len(shards)))) as ex:
        for si, res in enumerate(ex.map(lambda s: run_model(s, fn), shards)):
            out.extend((si * size + c, j) for c, j in res)
    return out


# ---------------------------------------------------------------- run
def gen_functions(ctx):
    rng = ctx.rng('functions')
    U2 = universe(2, ['a', 'b'])
    U3 = universe(3, ['a', 'b', 'c'])
    U4 = universe(4, ['a', 'b', 'c', 'd'], permute=False)
    if ctx.quick:
        sigs = U2 + rng.sample(U3, 170) + rng.sample(U4, 45)
    else:
        sigs = U2 + U3 + rng.sample(U4, 900)
    out = []
    for i, ps in enumerate(sigs):
        out.append(decorate_ps(ps, rng, annotate=(i % 3 == 0)))
    return out


def run(ctx, rep):
    rng = ctx.rng('forms')
    srng = ctx.rng('model-sample')
    fns = gen_functions(ctx)
    stats = dict.fromkeys(['decorated', 'calls', 'value_calls', 'excluded_calls', 'typeerror', 'valueerror', 'self_selected'], 0)
    formkinds = {}
    model_cases = []      # (ps, form, bound, adv, results)
    deferred = []         # the finding of the unchanged tree is reported after everything else
    budget = 2200 if ctx.quick else 9000
    total_guess = len(fns) * 50
    krng = ctx.rng('stacks')
    grng = ctx.rng('model-sample-2')
    VALUE_SEED[0] = ctx.rng('values').random()
    gcases = []           # (ps, form, bound, adv, results or None, [(call with values, result)])
    grate = 0.03 if ctx.quick else 0.01
    krate = 0.15 if ctx.quick else 0.05
    nstack = {'both_kinds_by_union': 0, 'other_inadmissible': 0, 'admissible': 0, 'bound': 0,
              'bound_with_start_end_layer': 0, 'bound_with_start_end_layer_failing': 0}
    for ps in fns:
        full = len(ps) <= 3 or not ctx.quick
        kforms = stack_forms_for(ps, krng, ctx.quick) if any(p[1] == 'PK' for p in ps) else []
        for form in forms_for(ps, rng, full) + kforms:
            isk = form[0] == 'K'
            for bound in (False, True):
                if bound and not (ps and ps[0][1] in ('PO', 'PK')):
                    continue
                if isk:
                    sel = spec_select(ps, form)
                    if not bound:
                        if sel is not None:
                            nstack['admissible'] += 1
                        elif form in stack_classes(ps)[0]:
                            nstack['both_kinds_by_union'] += 1
                        else:
                            nstack['other_inadmissible'] += 1
                    else:
                        # instance access: decided for admissible stacks that do not select the first parameter
                        if sel is None or ps[0][0] in sel[0] or ps[0][0] in sel[1]:
                            continue
                        nstack['bound'] += 1
                        if inner_rerun(form):
                            # see REPORT_STACK_BOUND
                            nstack['bound_with_start_end_layer'] += 1
                            probe = _Rep()
                            check_case(ps, form, True, probe, dict.fromkeys(stats, 0))
                            if probe.found:
                                nstack['bound_with_start_end_layer_failing'] += 1
                                if REPORT_STACK_BOUND and len([v for v in deferred if v[0] == 'C12:stack-bound-rerun']) < 3:
                                    deferred.append(('C12:stack-bound-rerun', probe.found[0][1],
                                                     {'ps': [list(p) for p in ps], 'form': _form_to(form), 'bound': True}))
                            continue
                r = check_case(ps, form, bound, rep, stats, defer=deferred)
                formkinds[form[0]] = formkinds.get(form[0], 0) + 1
                if r is None or r[0] == 'skip':
                    if r is not None and not isk:
                        # still compare the model's answer for the attribute access
                        if srng.random() < budget / float(total_guess):
                            model_cases.append((ps, form, bound, r[1], None))
                    continue
                adv, results = r[0], r[1]
                if adv is None or adv != (drop_first(ps) if bound else ps):
                    rep.distinct.add((ps, form, bound))
                vres = vresults_of(r)
                if isk:
                    # the model of stacks (merge_other + prepare) covers direct use
                    if not bound and grng.random() < krate:
                        gcases.append((ps, form, bound, adv, results, grng.sample(vres, min(12, len(vres)))))
                    continue
                if srng.random() < (2.0 if adv is not None else 0.5) * budget / float(total_guess):
                    model_cases.append((ps, form, bound, adv, results))
                if vres and grng.random() < grate:
                    gcases.append((ps, form, bound, adv, None, grng.sample(vres, min(12, len(vres)))))
    rep.coverage['stacked_decorators'] = nstack
    rep.coverage['stack_spec_union_vs_layerwise_disagree'] = len(SPEC_DISAGREE)
    # ---- the same function object behind several translators
    shrng = ctx.rng('shared')
    nshared = 0
    cand = [ps for ps in fns if ps and ps[0][1] in ('PO', 'PK') and sum(1 for p in ps if p[1] == 'PK') >= 2]
    for ps in (shrng.sample(cand, min(len(cand), 90)) if ctx.quick else cand):
        for form, bound, sh in shared_scenarios(ps, shrng):
            try:
                getter = build_shared(ps, sh)
            except Exception as e:  # noqa: BLE001
                # every form of a shared scenario is admissible for ps
                rep.violation('C12:shared-raises',
                              'decorating %s with the admissible forms %r raised %s: %s'
                              % (ps, sh['forms'],
                                 type(e).__name__, e),
                              {'kind': 'shared-raises', 'ps': ps, 'shared': sh})
                continue
            r = check_case(ps, form, bound, rep, stats, defer=deferred, getter=getter, shared=sh)
            nshared += 1
            if r is not None and r[0] != 'skip' and srng.random() < 0.15:
                model_cases.append((ps, form, bound, r[0], r[1]))
    rep.coverage['shared_function_lookups'] = nshared
    # ---- a decorated callable re-observed after a second decorator was built on top of it
    drng = ctx.rng('derived')
    nder = 0
    dcand = [ps for ps in fns if sum(1 for p in ps if p[1] == 'PK') >= 2]
    for ps in (drng.sample(dcand, min(len(dcand), 110)) if ctx.quick else dcand):
        for form, bound, sh in derived_scenarios(ps, drng):
            r = check_case(ps, form, bound, rep, stats, defer=deferred, getter=build_shared(ps, sh, form), shared=sh)
            nder += 1
            if r is not None and r[0] != 'skip' and srng.random() < 0.1:
                model_cases.append((ps, form, bound, r[0], r[1]))
    rep.coverage['reobserved_after_second_decoration'] = nder
    # ---- a translator that received another translator's metadata (functools.wraps / update_wrapper)
    wrng = ctx.rng('wraps')
    nwraps = 0
    nwraps_bound_fail = 0
    wcand = [ps for ps in fns if any(p[1] == 'PK' for p in ps)]
    for ps in (wrng.sample(wcand, min(len(wcand), 120)) if ctx.quick else wcand):
        for form, bound, sh in wraps_scenarios(ps, wcand, wrng):
            r = check_case(ps, form, bound, rep, stats, defer=deferred, getter=build_shared(ps, sh, form), shared=sh)
            nwraps += 1
            if r is not None and r[0] != 'skip' and srng.random() < 0.1:
                model_cases.append((ps, form, bound, r[0], r[1]))
            # instance access after wraps: counted, see WRAPS_BOUND below
            if ps[0][1] in ('PO', 'PK'):
                sel = spec_select(ps, form)
                if ps[0][0] not in sel[0] and ps[0][0] not in sel[1]:
                    shb = dict(sh, mode='instance')
                    probe = _Rep()
                    pstats = dict.fromkeys(stats, 0)
                    check_case(ps, form, True, probe, pstats, getter=build_shared(ps, shb, form), shared=shb)
                    if probe.found:
                        nwraps_bound_fail += 1
                        if REPORT_WRAPS_BOUND and len([v for v in deferred if v[0] == 'C12:wraps-bound-copy']) < 3:
                            deferred.append(('C12:wraps-bound-copy', probe.found[0][1],
                                             {'ps': [list(p) for p in ps], 'form': _form_to(form), 'bound': True, 'shared': shb}))
    rep.coverage['after_functools_wraps'] = nwraps
    rep.coverage['after_functools_wraps_instance_access_failing'] = nwraps_bound_fail
    # ---- modifiers.annotate applied on top of a decorated callable (re-runs _prepare)
    arng = ctx.rng('annotate')
    nann = 0
    for ps in (arng.sample(wcand, min(len(wcand), 110)) if ctx.quick else wcand):
        for ps_ann, form, bound, sh in annotate_scenarios(ps, arng):
            r = check_case(ps_ann, form, bound, rep, stats, defer=deferred, getter=build_shared(ps_ann, sh, form), shared=sh)
            nann += 1
            if r is not None and r[0] != 'skip' and srng.random() < 0.1:
                model_cases.append((ps_ann, form, bound, r[0], r[1]))
    rep.coverage['after_annotate_on_top'] = nann
    # ---- the method looked up on instances of classes with their own truth value / equality / hash / storage
    orng = ctx.rng('owner')
    nown = {}
    ocand = [ps for ps in fns if ps and ps[0][1] in ('PO', 'PK') and sum(1 for p in ps if p[1] == 'PK') >= 2]
    for ps in (orng.sample(ocand, min(len(ocand), 60)) if ctx.quick else ocand):
        kinds = OWNER_ORDER if not ctx.quick else orng.sample(OWNER_ORDER, 5)
        for form, bound, sh in owner_scenarios(ps, orng, kinds):
            r = check_case(ps, form, bound, rep, stats, defer=deferred, getter=build_shared(ps, sh, form), shared=sh)
            nown[sh['owner']] = nown.get(sh['owner'], 0) + 1
            if r is not None and r[0] != 'skip' and orng.random() < 0.1:
                model_cases.append((ps, form, bound, r[0], r[1]))
    rep.coverage['instance_kinds'] = nown
    # ---- one decorator object applied to several functions
    rrng = ctx.rng('reuse')
    nreuse = 0
    rcand = [ps for ps in fns if any(p[1] == 'PK' for p in ps)]
    for ps in (rrng.sample(rcand, min(len(rcand), 110)) if ctx.quick else rcand):
        for psi, form, sh in reuse_scenarios(ps, fns, rrng):
            r = check_case(psi, form, False, rep, stats, defer=deferred, getter=build_shared(psi, sh, form), shared=sh)
            nreuse += 1
            if r is not None and r[0] != 'skip' and srng.random() < 0.1:
                model_cases.append((psi, form, False, r[0], r[1]))
    rep.coverage['decorator_object_reuse'] = nreuse
    # ---- model correspondence inside Coq
    fixed = []
    for ps, form, bound, adv, results in model_cases:
        if results is None or (adv is not None and not results):
            # only the ValueError / advertised signature is compared
            fixed.append(coq_case_nocalls(ps, form, bound, adv))
        else:
            fixed.append(coq_case(ps, form, bound, adv, results))
    diffs = run_model_sharded(fixed)
    for ci, j in diffs[:20]:
        ps, form, bound, adv, results = model_cases[ci]
        inp = '%s with f%s%s' % (show_form(form), show_ps(ps), ' (bound)' if bound else '')
        if j == 999:
            rep.corr_break('decorate: advertised signature / ValueError', inp, 'differs (model)',
                           'ValueError' if adv is None else show_ps(adv))
        else:
            maxpos, knames = case_calls(ps, bound)
            call = calls_for(maxpos, knames)[j] if j < 998 else None
            rep.corr_break('pok_call + bindv vs really calling the decorated function', inp,
                           'differs (model) on %s' % (show_callv(call) if call else 'call family length'),
                           results[j] if call else len(results))
    # ---- model correspondence for stacks and for calls carrying special values
    gdiffs = run_model_sharded([coq_gcase(*c) for c in gcases], 'run_all_g')
    for ci, j in gdiffs[:20]:
        ps, form, bound, adv, results, vpairs = gcases[ci]
        inp = '%s with f%s%s' % (show_form(form), show_ps(ps), ' (bound)' if bound else '')
        if j == 999:
            rep.corr_break('decorate (stacks: merge_other + prepare): advertised signature / ValueError', inp,
                           'differs (model)', 'ValueError' if adv is None else show_ps(adv))
        else:
            maxpos, knames = case_calls(ps, bound)
            calls = (calls_for(maxpos, knames) if results else []) + [c for c, _ in vpairs]
            call = calls[j] if j < len(calls) else None
            rep.corr_break('pok_call + bindv vs really calling the decorated function (explicit values)', inp,
                           'differs (model) on %s' % (show_callv(call) if call else 'call family length'),
                           (list(results or []) + [e for _, e in vpairs])[j] if call else len(calls))
    rep.coverage['model_cases_in_coq_stacks_and_values'] = len(gcases)
    rep.coverage['model_calls_in_coq_stacks_and_values'] = sum(len(c[4] or []) + len(c[5]) for c in gcases)
    # ---- the binder alone against CPython
    bterms = []
    bfns = fns[::max(1, len(fns) // (250 if ctx.quick else 1500))]
    nb = 0
    for ps in bfns:
        f = make_fn(ps)
        maxpos, knames = case_calls(ps, False)
        order = [p[0] for p in ps]
        res = []
        for call in calls_for(maxpos, knames):
            r = really_call(f, call)
            res.append(encode(None if r is None else canon_result(r, order)))
            nb += 1
        bterms.append(coq_case(ps, ('X', (), (), 0), False, ps, res))
    bdiffs = run_model_sharded(bterms, 'run_all_bind')
    for ci, j in bdiffs[:10]:
        ps = bfns[ci]
        maxpos, knames = case_calls(ps, False)
        rep.corr_break('bindv vs CPython really calling the def', 'f%s %s' % (show_ps(ps), show_callv(calls_for(maxpos, knames)[j]) if j < 998 else ''),
                       'differs', 'see call')
    for v in deferred:
        rep.violation(*v)
    rep.evaluations = stats['decorated'] + stats['calls'] + stats['value_calls']
    rep.coverage.update(stats)
    rep.coverage['forms'] = formkinds
    rep.coverage['functions'] = len(fns)
    rep.coverage['model_cases_in_coq'] = len(model_cases)
    rep.coverage['model_calls_in_coq'] = sum(len(c[4] or []) for c in model_cases)
    rep.coverage['binder_calls_vs_cpython'] = nb
    rep.rule = ('functions: U(2,{a,b}) + %s (native positional-only / keyword-only / star parameters included, '
                'distinguishable defaults, annotations on a third) x decorator forms (every none/posoargs/kwoargs '
                'assignment of the regular parameters, stacked both ways, irregular names, start=, end= for every '
                'name, autokwoargs with every exceptions subset) x direct call and instance access x every call '
                'shape (positional count 0..n+1 x every keyword subset incl. foreign z) with distinguishable values, and every shape again with every named value None and with a random non-empty subset of the arguments carrying None / inspect.Parameter.empty / 0 / False / \'\' / NotImplemented / _util.UNSET / a falsy object equal to everything (compared by identity); stacks of two and three decorators over the regular parameters (named, start=, end=, autokwoargs layers) sampled from three classes: each layer admissible but together both kinds, otherwise inadmissible, admissible; '
                'plus decorated callables re-observed after a second decorator was built on top, one decorator object applied to three functions, and one function object decorated 2-3 times with different selections in one class / several classes, looked up in shuffled order on one instance and on the class; distinct = decorated functions whose advertised signature differs from the original or that raise'
                % ('samples of U(3,{a,b,c}) and U(4,{a..d})' if ctx.quick else 'U(3,{a,b,c}) + sample of U(4,{a..d})'))
    for c in model_cases[3:6] + model_cases[-3:]:
        rep.sample({'case': '%s with f%s%s' % (show_form(c[1]), show_ps(c[0]), ' (bound)' if c[2] else ''),
                    'advertised': 'ValueError' if c[3] is None else show_ps(c[3])})
    rep.assumptions = [
        'calls passing a positional-only name by keyword alongside **kwargs are excluded (version-dependent)',
        'keyword arguments of one call have pairwise different names (guaranteed by Python)',
        'bound methods: selections naming the first parameter are reported separately (C12:bound-self-selected)',
        'stacks of decorators: instance access is decided for admissible stacks that do not select the first parameter; stacks with a start= / end= layer are probed separately, their instance access fails on the unchanged tree (counted in stacked_decorators.bound_with_start_end_layer_failing, key C12:stack-bound-rerun)',
        'the start= / end= / exceptions= selection of an outer decorator of a stack is taken on the signature the inner result advertises; the layers together are one selection of the original function',
        'after functools.wraps(other translator)(translator) only direct calls and class-level lookup are decided; instance access then fails on the unchanged tree (counted as after_functools_wraps_instance_access_failing, key C12:wraps-bound-copy)',
    ]


def coq_case_nocalls(ps, form, bound, adv):
    return 'mkCase %s %s %s %d%%nat %s 0%%nat [] %s' % (
        'true' if bound else 'false', coq_params(ps), coq_form(form),
        form[3] if form[0] == 'X' else 0,
        'None' if adv is None else '(Some %s)' % coq_params(adv),
        # an empty name list and maxpos 0 give the two calls f() and f(200): expected is left open
        coq_names([EXCL, EXCL]))


# ---------------------------------------------------------------- replay
class _Rep(object):
    def __init__(self):
        self.found = []
        self.distinct = set()

    def violation(self, key, what, replay):
        self.found.append((key, what))


def _form_from(l):
    if l[0] == 'K':
        return ('K', _form_from(l[1]), _form_from(l[2]))
    if l[0] == 'X':
        return ('X', tuple(l[1]), tuple(l[2]), l[3])
    if l[0] in ('S', 'E'):
        return (l[0], l[1], tuple(l[2]))
    return ('A', tuple(l[1]))


def replay(ctx, data):
    r = data['replay']
    ps = tuple(tuple(p) for p in r['ps'])
    form = _form_from(r['form'])
    rp = _Rep()
    stats = dict.fromkeys(['decorated', 'calls', 'value_calls', 'excluded_calls', 'typeerror', 'valueerror', 'self_selected'], 0)
    call = None
    if 'call' in r:
        call = _call_from(r['call'])
    if 'shared' in r:
        check_case(ps, form, r['bound'], rp, stats, only_call=call, getter=build_shared(ps, r['shared'], form), shared=r['shared'])
    else:
        check_case(ps, form, r['bound'], rp, stats, only_call=call)
    if rp.found:
        return rp.found[0][1]
    return None


def replay_known(ctx, k):
    w = k.get('witness')
    if not w:
        return True
    return replay(ctx, {'replay': w}) is not None
