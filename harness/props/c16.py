"""C16 — retrieval and the algebra do not modify what they inspect, even when they fail.

Three parts:

 (1) algebra purity: a few thousand merge/embed/mask/forwards/sort+apply cases
     through algebra.run_cases (which snapshots every input before/after and
     checks the result for aliasing), plus direct checks of sort_params /
     apply_params.  Mutation or aliasing of an input is a C16 violation
     (PURITY_IS_VIOLATION, see harness/main.py).

 (2) the regenerated model: harness/translate_ir.py turns the Python source of
     cleanup_functools_wrapper / autoforwards_function / _AsForged.__get__ into
     IR terms (pre_obligations), Props/C16.v proves restoration for every
     configuration and crash point of that term.  The IR semantics and the
     translator are tied to CPython by running the REAL functions with their
     outside callees replaced by oracle-driven stubs on the theorem's whole
     domain and comparing outcome, final attributes, guard and counters with
     the IR interpreter (run inside Coq).

 (3) fault injection end to end: for a zoo of real callables, every boundary
     callable (inspect.signature, inspect.getsource, inspect.unwrap, ast.parse,
     user forgers, attribute getters: descriptors, plain and metaclass properties,
     data descriptors, __getattr__/__getattribute__) is wrapped so that its k-th
     crossing raises a chosen exception -- Exception leaves and kinds deriving from
     BaseException only (a custom one, asyncio.CancelledError, SystemExit,
     GeneratorExit); sigtools.signature / inspect.signature is run;
     vars() of the object and of everything reachable through
     __wrapped__/__signature__/__dict__ and the guard set are compared before
     and after.  Any difference is a concrete violation.
"""
import ast
import functools
import inspect
import os
import re
import shutil
import sys
import tempfile
import types

import sigtools
from sigtools import _autoforwards as AF
from sigtools import _signatures as SG
from sigtools import _util as UT
from sigtools import modifiers, specifiers
from sigtools import signatures as PS

import algebra
import coqrun
import translate_ir
from core import universe, mk_desc, random_sig, id_of_name, show_sig, build_sig, describe_sig
from algebra import Merge, Embed, Mask, Forwards, SortApply, run_cases, case_from_data

LEVEL = 'proof'
PURITY_IS_VIOLATION = True

REPO = os.environ.get('SIGTOOLS_REPO', '/repo')
_STATE = {'gen_dir': None, 'translation': None, 'error': None, 'model_cex': None}


class Boom(Exception):
    """the injected exception that is no AttributeError / ValueError / OSError"""


class BaseBoom(BaseException):
    """an injected exception that derives from BaseException but NOT from Exception (like
    asyncio.CancelledError, SystemExit, GeneratorExit, pytest's Skipped/Exit, trio's Cancelled):
    raised synchronously by the outside callee, hence inside the fault model"""


import asyncio  # noqa: E402

EXC = {'AttributeError': AttributeError, 'Boom': Boom, 'ValueError': ValueError,
       'TypeError': TypeError, 'OSError': OSError, 'SyntaxError': SyntaxError,
       'BaseBoom': BaseBoom, 'CancelledError': asyncio.CancelledError, 'SystemExit': SystemExit,
       'GeneratorExit': GeneratorExit}
# the kinds that `except Exception` does not catch
BASE_ONLY = ('BaseBoom', 'CancelledError', 'SystemExit', 'GeneratorExit')
assert all(not issubclass(EXC[k], Exception) for k in BASE_ONLY)


# ====================================================================== (2a) regeneration
def _ensure_vo(rel):
    """Model/IR.v and Proofs/IR.v may not be listed in _CoqProject yet."""
    v = os.path.join(coqrun.THEORIES, rel)
    vo = v + 'o'
    if os.path.exists(vo) and os.path.getmtime(vo) >= os.path.getmtime(v):
        return None
    ok, out = coqrun.compile_file(v, timeout=300)
    return None if ok else 'coqc %s failed: %s' % (rel, out[-800:])


def pre_obligations(ctx, rep):
    errors = []
    for rel in ('Model/IR.v', 'Proofs/IR.v'):
        e = _ensure_vo(rel)
        if e:
            errors.append(e)
    d = tempfile.mkdtemp(prefix='verif-c16-gen-')
    _STATE['gen_dir'] = d
    extra_q = [(d, 'SigtoolsGen')]
    try:
        text, tr = translate_ir.translate_repo(REPO)
    except translate_ir.TranslatorError as e:
        _STATE['error'] = str(e)
        rep.corr_break('regenerated model (translate_ir.py, fail-closed)',
                       'sigtools/_autoforwards.py + sigtools/specifiers.py',
                       'a term of the supported IR subset', 'TranslatorError: %s' % e)
        errors.append('translator: %s' % e)
        return extra_q, errors
    if main_forbidden(text):
        errors.append('generated file contains a forbidden vernacular')
    path = os.path.join(d, 'GenRetrieval.v')
    with open(path, 'w') as f:
        f.write(text)
    ok, out = coqrun.compile_file(path, timeout=300, extra_q=extra_q)
    if not ok:
        _STATE['error'] = 'generated file does not compile: ' + out[-800:]
        rep.corr_break('regenerated model (coqc)', path, 'compiles', out[-800:])
        errors.append(_STATE['error'])
        return extra_q, errors
    _STATE['translation'] = tr
    # model-validity condition: Model/IR.v reads a handler `except Exception` as catching EVERY
    # injected class (X_Exception, "everything of the fault model").  The fault model contains
    # classes that derive from BaseException only (BASE_ONLY), which such a handler does not
    # catch: the theorem about the regenerated term says nothing about them as soon as the
    # translated code relies on an `except Exception` handler.
    narrow = [m[5] for m in tr.methods if re.search(r'\bX_Exception\b', m[4])]
    rep.coverage['translated_methods_with_except_Exception_handlers'] = narrow
    for src in narrow:
        rep.corr_break('model validity (IR): `except Exception` is modelled as catching every injected exception class',
                       src, 'handlers of the translated code that catch every class of the fault model (bare except / '
                       'except BaseException), or none', 'an `except Exception` handler, which lets %s through' % ', '.join(BASE_ONLY))
    rep.coverage['regenerated_methods'] = [m[5] for m in tr.methods]
    rep.coverage['outside_call_sites'] = tr.ext_sites
    rep.coverage['opaque_tails (abstracted as one oracle step after a syntactic safety check)'] = tr.opaque_tails
    return extra_q, errors


def main_forbidden(text):
    text_nc = re.sub(r'\(\*.*?\*\)', '', text, flags=re.S)
    return re.search(r'\b(Admitted|admit|Axiom|Parameter|Conjecture|Variable|Hypothesis)\b', text_nc) is not None


def cleanup(ctx):
    if _STATE['gen_dir']:
        shutil.rmtree(_STATE['gen_dir'], ignore_errors=True)
        _STATE['gen_dir'] = None


# ====================================================================== (2b) IR vs CPython, unit level
SLOTS = ('Absent', 'Inst', 'ClassLevel', 'Both', 'OwnDesc')
WANT_SLOT = {'Absent': 0, 'Inst': 1, 'ClassLevel': 2, 'Both': 3, 'OwnDesc': 6}
TRACKED = ('__wrapped__', '__signature__')
EXN_IDS = {AttributeError: 1, Boom: 2, NotImplementedError: 3}
TRUE_VALUE = object()


def exn_code(e):
    if type(e) in EXN_IDS:
        return EXN_IDS[type(e)]
    if type(e) is AF.UnknownForwards:
        return 4
    return 99


class PlainDesc(object):
    """a descriptor that computes a value (stands for as_forged and the like)"""

    def __init__(self, computed):
        self.computed = computed

    def __get__(self, instance, owner):
        return self.computed


class Falsy(object):
    """an object that is false and empty"""

    def __bool__(self):
        return False

    def __len__(self):
        return 0


class EqualsAll(object):
    """an object that compares equal to everything (like unittest.mock.ANY)"""

    def __eq__(self, other):
        return True

    def __ne__(self, other):
        return False

    __hash__ = object.__hash__


# VALUES an attribute that retrieval sets aside may hold: None (which inspect reads as "no
# override" for __signature__), falsy ones, sentinels of inspect / sigtools, objects with an
# unusual truth value or equality.  The stored value is what has to be there afterwards.
UNUSUAL = {'None': None, 'False': False, '0': 0, "''": '', '()': (), 'a falsy object': Falsy(),
           'an object equal to everything': EqualsAll(), 'NotImplemented': NotImplemented,
           'sigtools._util.UNSET': UT.UNSET, 'inspect.Parameter.empty': inspect.Parameter.empty}


def make_user(cfg, hook, values=None):
    """A fresh inspected object in configuration cfg = (slot of __wrapped__, slot of
    __signature__); every read of a tracked attribute through getattr goes through
    hook(name).  -> (object, holder of its class-level attributes, original values).
    With an OwnDesc slot the inspected object is itself a CLASS (its own __dict__
    holds a descriptor) and "class level" is its metaclass.
    values: {attribute name: key of UNUSUAL} -- the value stored on the OBJECT ITSELF
    for that attribute (default: a fresh opaque object)."""
    vals = {}
    values = values or {}
    if 'OwnDesc' in cfg:
        class M(type):
            def __getattribute__(cls, name):
                if name in TRACKED:
                    hook(name)
                return type.__getattribute__(cls, name)
        o = M('KC', (object,), {'other': 7})
        holder = M
    else:
        class K(object):
            def __getattribute__(self, name):
                if name in TRACKED:
                    hook(name)
                return object.__getattribute__(self, name)

            def __call__(self, *args, **kwargs):
                pass
        o = K()
        holder = K
        o.__dict__['other'] = 7
    for name, slot in zip(TRACKED, cfg):
        vi, vc, vcomp = object(), object(), object()
        if name in values:
            vi = UNUSUAL[values[name]]
        if slot == 'OwnDesc':
            vi = PlainDesc(vcomp)
        vals[name] = (vi, vc, vcomp)
        if slot in ('Inst', 'Both', 'OwnDesc'):
            if isinstance(o, type):
                type.__setattr__(o, name, vi)
            else:
                o.__dict__[name] = vi
        if slot in ('ClassLevel', 'Both'):
            setattr(holder, name, vc)
    return o, holder, vals


def own_dict(o):
    return type.__getattribute__(o, '__dict__') if isinstance(o, type) else object.__getattribute__(o, '__dict__')


def slot_code(o, K, name, vals):
    vi, vc, vcomp = vals[name]
    d = own_dict(o)
    has_i = name in d
    i = d.get(name)
    has_c = name in K.__dict__
    c = K.__dict__.get(name)
    if not has_i and not has_c:
        return 0
    if has_i and not has_c:
        if isinstance(vi, PlainDesc):
            return 6 if i is vi else 7 if i is vcomp else 4
        return 1 if i is vi else 4
    if has_c and not has_i:
        return 2 if c is vc else 4
    if i is vi and c is vc:
        return 3
    if i is vc and c is vc:
        return 5
    return 4


class Patched(object):
    """setattr on modules for the duration of a with block"""

    def __init__(self, patches):
        self.patches = patches
        self.saved = []

    def __enter__(self):
        for mod, name, val in self.patches:
            self.saved.append((mod, name, getattr(mod, name)))
            setattr(mod, name, val)

    def __exit__(self, *exc):
        for mod, name, val in reversed(self.saved):
            setattr(mod, name, val)
        self.saved = []


_READ_SEQ = {}


def read_sequence(cfg):
    """names of the tracked attributes the real autoforwards_function reads through
    getattr, in order, for configuration cfg (no crash) -- maps "the getter of
    attribute a raised inside __enter__" to the model's read index"""
    if cfg not in _READ_SEQ:
        log = []
        unit_aff(cfg, None, [True] * 4, log)
        _READ_SEQ[cfg] = log
    return _READ_SEQ[cfg]


def unit_aff(cfg, crash, rets, read_log=None, values=None):
    """Run the real autoforwards_function with its outside callees replaced by
    oracle-driven stubs.  crash = None | ('call', k, exc) | ('get', k, exc).
    -> (result code, wrapped slot, signature slot, guard size, ncalls, ngets)"""
    st = {'calls': 0, 'gets': 0}

    def hook(name):
        k = st['gets']
        st['gets'] += 1
        if read_log is not None:
            read_log.append(name)
        if crash and crash[0] == 'get' and crash[1] == k:
            raise crash[2]('injected getter crash')

    def stub(*a, **kw):
        k = st['calls']
        st['calls'] += 1
        if crash and crash[0] == 'call' and crash[1] == k:
            raise crash[2]('injected call crash')
        return TRUE_VALUE if (rets[k] if k < len(rets) else True) else None

    o, K, vals = make_user(cfg, hook, values)
    others_before = sorted(k for k in own_dict(o) if k not in TRACKED)
    patches = [(SG, 'signature', stub), (AF, 'any_params_star', stub), (UT, 'get_ast', stub),
               (AF, 'autoforwards_ast', stub)]
    with Patched(patches):
        try:
            r = AF.autoforwards_function(o, (), {})
            rc = (0, 0) if r is None else (1, 0)
        except Exception as e:  # noqa: BLE001
            rc = (2, exn_code(e))
        except BaseException as e:  # noqa: BLE001
            if not (crash and type(e) is crash[2]):
                raise
            rc = (2, exn_code(e))
    extra = sorted(k for k in own_dict(o) if k not in TRACKED)
    return (rc, slot_code(o, K, '__wrapped__', vals), slot_code(o, K, '__signature__', vals),
            len(specifiers.as_forged.currently_computing), st['calls'], st['gets'],
            extra == others_before and own_dict(o)['other'] == 7)


CB_CHOICES = ('CbNone', 'CbSame', 'CbOther', 'CbClass')


def unit_get(on_class, crash, cbs, ret):
    """The real _AsForged.__get__ with `signature` replaced by a stub that may
    re-enter __get__ (as inspect.signature does through obj.__signature__)."""
    desc = specifiers._AsForged()
    st = {'calls': 0}

    class Owner(object):
        pass
    u1, u2 = Owner(), Owner()

    def stub(obj):
        k = st['calls']
        st['calls'] += 1
        cb = cbs[k] if k < len(cbs) else 'CbNone'
        if cb != 'CbNone':
            inst = {'CbSame': u1, 'CbOther': u2, 'CbClass': None}[cb]
            try:
                desc.__get__(inst, Owner)
            except AttributeError:
                pass
        if crash and crash[1] == k:
            raise crash[2]('injected call crash')
        return TRUE_VALUE if ret else None

    with Patched([(specifiers, 'signature', stub)]):
        try:
            r = desc.__get__(None if on_class else u1, Owner)
            rc = (0, 0) if r is None else (1, 0)
        except Exception as e:  # noqa: BLE001
            rc = (2, exn_code(e))
        except BaseException as e:  # noqa: BLE001
            if not (crash and type(e) is crash[2]):
                raise
            rc = (2, exn_code(e))
    return (rc, len(desc.currently_computing), st['calls'])


COQ_PREAMBLE = '''From Coq Require Import List NArith Bool Arith.
Import ListNotations.
From Sigtools Require Import Model.IR Proofs.IR.
From SigtoolsGen Require Import GenRetrieval.
Local Open Scope N_scope.
Definition slot_of (n : N) : slotcfg := match n with 0 => Absent | 1 => Inst | 2 => ClassLevel | 3 => Both | _ => OwnDesc end.
Definition exn_of (n : N) : N := n.
Definition crash_of (kind : N) (k : nat) (e : N) : crash :=
  match kind with 0 => NoCrash | 1 => CallCrash k e | _ => GetCrash k e end.
Definition cb_of_n (n : N) : callback :=
  cb_of (match n with 0 => CbNone | 1 => CbSame | 2 => CbOther | _ => CbClass end).
(* one case of autoforwards_function: inputs and the answer observed on CPython *)
Definition aff_answer (w s kind : N) (k : nat) (e : N) (rets : list bool) :=
  let c := {| c_wrapped := slot_of w; c_signature := slot_of s |} in
  let r := run_aff FUEL prog c (mk_oracle (crash_of kind k e) rets []) in
  (eres_code (fst r), state_code (snd r),
   match alist_get O_user (heap (snd r)) with
   | Some ob => match alist_get 99 (oinst ob) with Some v => value_eqb v (VS (VOpq 7)) | None => false end
   | None => false end).
Definition get_answer (on_class : bool) (kind : N) (k : nat) (e : N) (cbs : list N) (ret : bool) :=
  let r := run_get FUEL prog default_config (mk_oracle (crash_of kind k e) (repeat ret 8) (map cb_of_n cbs)) on_class in
  (eres_code (fst r), match guard_of (snd r) with Some l => N.of_nat (length l) | None => 99 end, ncalls (snd r)).
Definition mismatches {A B} (eqb : B -> B -> bool) (f : A -> B) (cases : list (A * B)) : list nat :=
  (fix go (i : nat) (l : list (A * B)) := match l with
     | [] => []
     | (a, b) :: l' => if eqb (f a) b then go (S i) l' else i :: go (S i) l' end) O cases.
Definition aff_eqb (x y : (N * N) * (N * N * N * nat * nat) * bool) : bool :=
  match x, y with
  | ((a1, a2), (b1, b2, b3, b4, b5), b6), ((c1, c2), (d1, d2, d3, d4, d5), d6) =>
    N.eqb a1 c1 && N.eqb a2 c2 && N.eqb b1 d1 && N.eqb b2 d2 && N.eqb b3 d3 && Nat.eqb b4 d4 && Nat.eqb b5 d5 && Bool.eqb b6 d6
  end.
Definition get_eqb (x y : (N * N) * N * nat) : bool :=
  match x, y with
  | ((a1, a2), b1, b2), ((c1, c2), d1, d2) => N.eqb a1 c1 && N.eqb a2 c2 && N.eqb b1 d1 && Nat.eqb b2 d2
  end.
'''


def _cb(b):
    return 'true' if b else 'false'


def _crash_tuple(crash):
    if crash is None:
        return 0, 0, 0
    kind = 1 if crash[0] == 'call' else 2
    return kind, crash[1], EXN_IDS[crash[2]]


def ir_correspondence(ctx, rep):
    """Exhaustive on the theorems' domains: the real functions under stubs; the
    property is decided directly on these runs (always), and they are compared
    with the IR interpreter on the regenerated term (when there is one)."""
    excs = (AttributeError, Boom)
    aff_cases = []
    for w in range(5):
        for s in range(5):
            cfg = (SLOTS[w], SLOTS[s])
            crashes = [None] + [('call', k, e) for k in range(4) for e in excs] \
                + [('get', k, e) for k in range(3) for e in excs]
            for cr in crashes:
                for bits in range(16):
                    rets = [bool(bits >> i & 1) for i in range(4)]
                    aff_cases.append(((w, s), cfg, cr, rets, unit_aff(cfg, cr, rets)))
    get_cases = []
    import itertools
    for on_class in (False, True):
        for cr in [None] + [('call', k, e) for k in range(4) for e in excs]:
            for cbs in itertools.product(range(4), repeat=3):
                for ret in (True, False):
                    get_cases.append((on_class, cr, cbs, ret,
                                      unit_get(on_class, cr, [CB_CHOICES[c] for c in cbs], ret)))
    # the property itself, decided directly on the real functions' runs
    for (w, s), cfg, cr, rets, ans in aff_cases:
        rc, sw, ss, g, nc, ng, other = ans
        restored = sw == WANT_SLOT[cfg[0]] and ss == WANT_SLOT[cfg[1]] and other
        if not restored or g != 0:
            rep.violation('C16:attrs-changed',
                          'autoforwards_function(obj): obj with __wrapped__ %s, __signature__ %s; %s; afterwards '
                          '__wrapped__ is %s, __signature__ is %s' % (
                              cfg[0], cfg[1], _show_crash(cr) or 'no crash', _slot_name(sw), _slot_name(ss)),
                          {'kind': 'unit-aff', 'cfg': list(cfg), 'crash': _crash_json(cr), 'rets': rets})
    for on_class, cr, cbs, ret, ans in get_cases:
        if ans[1] != 0:
            rep.violation('C16:guard', '_AsForged.__get__ read through %s: guard set not empty afterwards (%s, callbacks %s)' % (
                'the class (instance is None)' if on_class else 'an instance', _show_crash(cr) or 'no crash',
                [CB_CHOICES[x] for x in cbs]),
                {'kind': 'unit-get', 'on_class': on_class, 'crash': _crash_json(cr), 'cbs': list(cbs), 'ret': ret})
    rep.coverage['ir_vs_cpython_cases'] = {'autoforwards_function': len(aff_cases), '_AsForged.__get__': len(get_cases),
                                           'compared_with_model': _STATE['translation'] is not None}
    if _STATE['translation'] is None:
        return len(aff_cases) + len(get_cases)
    extra_q = [(_STATE['gen_dir'], 'SigtoolsGen')]

    def aff_term(chunk):
        items = []
        for (w, s), cfg, cr, rets, ans in chunk:
            kind, k, e = _crash_tuple(cr)
            rc, sw, ss, g, nc, ng, other = ans
            items.append('((%d, %d, %d, %d%%nat, %d, [%s]), ((%d, %d), (%d, %d, %d, %d%%nat, %d%%nat), %s))' % (
                w, s, kind, k, e, '; '.join(_cb(x) for x in rets), rc[0], rc[1], sw, ss, g, nc, ng, _cb(other)))
        return ('mismatches aff_eqb (fun a : N * N * N * nat * N * list bool => '
                'match a with (w, s, kind, k, e, rets) => aff_answer w s kind k e rets end) [%s]' % ';\n '.join(items))

    def get_term(chunk):
        items = []
        for on_class, cr, cbs, ret, ans in chunk:
            kind, k, e = _crash_tuple(cr)
            rc, g, nc = ans
            items.append('((%s, %d, %d%%nat, %d, [%s], %s), ((%d, %d), %d, %d%%nat))' % (
                _cb(on_class), kind, k, e, '; '.join(str(c) for c in cbs), _cb(ret), rc[0], rc[1], g, nc))
        return ('mismatches get_eqb (fun a : bool * N * nat * N * list N * bool => '
                'match a with (oc, kind, k, e, cbs, ret) => get_answer oc kind k e cbs ret end) [%s]' % ';\n '.join(items))

    def chunks(l, n=500):
        return [l[i:i + n] for i in range(0, len(l), n)]

    jobs = [('aff', ch) for ch in chunks(aff_cases)] + [('get', ch) for ch in chunks(get_cases)]

    def work(job):
        kind, ch = job
        term = aff_term(ch) if kind == 'aff' else get_term(ch)
        ans = coqrun.coq_eval(COQ_PREAMBLE, [term], extra_q=extra_q, name='c16cases')
        return coqrun.parse_nat_list(ans[0])
    from concurrent.futures import ThreadPoolExecutor
    with ThreadPoolExecutor(8) as ex:
        results = list(ex.map(work, jobs))
    nbad = 0
    for (kind, ch), bad in zip(jobs, results):
        for i in bad:
            nbad += 1
            c = ch[i]
            if kind == 'aff':
                inp = {'function': 'autoforwards_function', 'config': c[1], 'crash': _show_crash(c[2]), 'rets': c[3]}
                rep.corr_break('IR interpreter on the regenerated term vs CPython (stubbed callees)', inp,
                               '(see replay: differs)', str(c[4]))
            else:
                inp = {'function': '_AsForged.__get__', 'on_class': c[0], 'crash': _show_crash(c[1]),
                       'callbacks': [CB_CHOICES[x] for x in c[2]], 'ret': c[3]}
                rep.corr_break('IR interpreter on the regenerated term vs CPython (stubbed callees)', inp,
                               '(see replay: differs)', str(c[4]))
    rep.coverage['ir_vs_cpython_cases']['disagreements'] = nbad
    # what the model says about the getter crash points (empty since sigtools e783c8b)
    cex = coqrun.coq_eval(COQ_PREAMBLE, ['aff_getter_counterexamples FUEL prog'], extra_q=extra_q)[0]
    rep.coverage['model_getter_counterexamples (wrapped slot, signature slot, getter index, exception class)'] = cex
    _STATE['model_cex'] = set(tuple(int(x) for x in m) for m in
                              re.findall(r'\(\s*(\d+),\s*(\d+),\s*(\d+)%nat,\s*(\d+)(?:%N)?\s*\)', cex))
    return len(aff_cases) + len(get_cases)


def unit_values(ctx, rep):
    """The same real function under stubs, with UNUSUAL values stored on the object for the
    attributes that are set aside (every configuration with an instance-level slot, every crash
    point, success and failure paths alike).  The model has no notion of a value (it proves
    restoration for an opaque one): these runs are decided directly."""
    excs = (AttributeError, Boom)
    crashes = [None] + [('call', k, e) for k in range(4) for e in excs] \
        + [('get', k, e) for k in range(3) for e in excs]
    ret_patterns = list(range(16))
    n = 0
    hist = {}
    for w in range(5):
        for s in range(5):
            cfg = (SLOTS[w], SLOTS[s])
            own = [nm for nm, sl in zip(TRACKED, cfg) if sl in ('Inst', 'Both')]
            if not own:
                continue
            for vk in UNUSUAL:
                assigns = [{nm: vk for nm in own}]
                if len(own) == 2:
                    assigns += [{own[0]: vk}, {own[1]: vk}]
                for values in assigns:
                    for cr in crashes:
                        for bits in ret_patterns:
                            rets = [bool(bits >> i & 1) for i in range(4)]
                            rc, sw, ss, g, nc, ng, other = unit_aff(cfg, cr, rets, None, values)
                            n += 1
                            hist[vk] = hist.get(vk, 0) + 1
                            if sw == WANT_SLOT[cfg[0]] and ss == WANT_SLOT[cfg[1]] and other and g == 0:
                                continue
                            rep.violation('C16:attrs-changed',
                                          'autoforwards_function(obj): obj with __wrapped__ %s, __signature__ %s, the object itself storing %s; %s, '
                                          'result %s; afterwards __wrapped__ is %s, __signature__ is %s' % (
                                              cfg[0], cfg[1], ', '.join('%s = %s' % kv for kv in sorted(values.items())),
                                              _show_crash(cr) or 'no crash', {0: 'None', 1: 'a signature', 2: 'raised'}[rc[0]],
                                              _slot_name(sw), _slot_name(ss)),
                                          {'kind': 'unit-aff', 'cfg': list(cfg), 'crash': _crash_json(cr), 'rets': rets, 'values': values})
    rep.coverage['unit_runs_with_unusual_values'] = hist
    return n


def unit_base_exceptions(ctx, rep):
    """The same real functions under stubs, every configuration and every crash point of the
    theorems' domain, with the crossing raising an exception that derives from BaseException
    but not from Exception (BASE_ONLY).  The IR matches exception classes exactly and knows the
    two leaves AttributeError / Boom only: these runs are decided directly (restoration of both
    attributes wherever they were stored, the other attributes, the guard)."""
    import itertools
    n = 0
    hist = {}
    for w in range(5):
        for s in range(5):
            cfg = (SLOTS[w], SLOTS[s])
            for ek in BASE_ONLY:
                e = EXC[ek]
                crashes = [('call', k, e) for k in range(4)] + [('get', k, e) for k in range(3)]
                for cr in crashes:
                    for bits in range(16):
                        rets = [bool(bits >> i & 1) for i in range(4)]
                        rc, sw, ss, g, nc, ng, other = unit_aff(cfg, cr, rets)
                        n += 1
                        if rc == (2, 99):
                            hist[ek] = hist.get(ek, 0) + 1     # the injected exception came out
                        if sw == WANT_SLOT[cfg[0]] and ss == WANT_SLOT[cfg[1]] and other and g == 0:
                            continue
                        rep.violation('C16:attrs-changed',
                                      'autoforwards_function(obj): obj with __wrapped__ %s, __signature__ %s; %s (a BaseException '
                                      'that is not an Exception); afterwards __wrapped__ is %s, __signature__ is %s, guard holds %d' % (
                                          cfg[0], cfg[1], _show_crash(cr), _slot_name(sw), _slot_name(ss), g),
                                      {'kind': 'unit-aff', 'cfg': list(cfg), 'crash': _crash_json(cr), 'rets': rets})
    for on_class in (False, True):
        for ek in BASE_ONLY:
            for k in range(4):
                cr = ('call', k, EXC[ek])
                for cbs in itertools.product(range(4), repeat=3):
                    ans = unit_get(on_class, cr, [CB_CHOICES[c] for c in cbs], True)
                    n += 1
                    if ans[1] != 0:
                        rep.violation('C16:guard', '_AsForged.__get__ read through %s: guard set not empty afterwards (%s, callbacks %s)' % (
                            'the class (instance is None)' if on_class else 'an instance', _show_crash(cr),
                            [CB_CHOICES[x] for x in cbs]),
                            {'kind': 'unit-get', 'on_class': on_class, 'crash': _crash_json(cr), 'cbs': list(cbs), 'ret': True})
    rep.coverage['unit_runs_with_base_exceptions (runs in which the injected exception propagated)'] = hist
    return n


def _slot_name(code):
    return {0: 'absent', 1: 'the instance attribute', 2: 'class-level only', 3: 'instance + class-level',
            4: 'a different value', 5: 'the class-level value copied into the instance __dict__',
            6: 'the descriptor itself (own __dict__)',
            7: 'the value the descriptor computed, stored in place of the descriptor'}.get(code, str(code))


def _show_crash(cr):
    if cr is None:
        return ''
    return 'the %s #%d (counted from 0) raises %s' % (
        'outside call' if cr[0] == 'call' else 'read of a tracked attribute of obj', cr[1], cr[2].__name__)


def _crash_json(cr):
    return None if cr is None else [cr[0], cr[1], cr[2].__name__]


def _crash_unjson(j):
    return None if j is None else (j[0], j[1], EXC[j[2]])


# ====================================================================== (3) end-to-end fault injection
class Injector(object):
    def __init__(self):
        self.n = 0
        self.k = None
        self.exc = None
        self.log = []
        self.fired = None
        self.fired_in_enter = False
        self.enter_obj = None
        self.enter_attr = None
        self.active = False

    def cross(self, label):
        if not self.active:
            return
        self.n += 1
        self.log.append(label)
        if self.k is not None and self.n == self.k:
            self.fired = label
            f = sys._getframe(1)
            while f is not None:
                if f.f_code.co_name == '__enter__' and f.f_code.co_filename.endswith('_autoforwards.py'):
                    self.fired_in_enter = True
                    try:
                        self.enter_obj = f.f_locals['self'].func
                        self.enter_attr = f.f_locals.get('attr')
                    except Exception:  # noqa: BLE001
                        pass
                f = f.f_back
            raise self.exc('injected at crossing %d (%s)' % (self.n, label))


def _boundary(inj, label, fn):
    def wrapper(*a, **k):
        inj.cross(label)
        return fn(*a, **k)
    return wrapper


_ORIG = {'signature': inspect.signature, 'getsource': inspect.getsource, 'unwrap': inspect.unwrap,
         'parse': ast.parse, 'cleandoc': inspect.cleandoc}


def boundary_patches(inj):
    return [(inspect, 'signature', _boundary(inj, 'inspect.signature', _ORIG['signature'])),
            (inspect, 'getsource', _boundary(inj, 'inspect.getsource', _ORIG['getsource'])),
            (inspect, 'unwrap', _boundary(inj, 'inspect.unwrap', _ORIG['unwrap'])),
            (inspect, 'cleandoc', _boundary(inj, 'inspect.cleandoc', _ORIG['cleandoc'])),
            (ast, 'parse', _boundary(inj, 'ast.parse', _ORIG['parse']))]


class Getter(object):
    """A class-level attribute getter (descriptor) that crosses the boundary."""

    def __init__(self, inj, name, value=None, missing=False):
        self.inj, self.name, self.value, self.missing = inj, name, value, missing

    def __get__(self, instance, owner):
        self.inj.cross('getter:' + self.name)
        if self.missing:
            raise AttributeError(self.name)
        return self.value


def _inner(a, b=2, *, c=3):
    return a, b, c


def _inner2(x, y):
    return x, y


# -- the zoo.  Every factory returns (object, entry points); objects are rebuilt for every run.
def sc_wraps(inj):
    @functools.wraps(_inner)
    def outer(*args, **kwargs):
        return _inner(*args, **kwargs)
    return outer, ('sigtools',)


def sc_wraps_extra(inj):
    def outer(p, *args, **kwargs):
        return _inner(*args, **kwargs)
    outer = functools.update_wrapper(outer, _inner2)
    return outer, ('sigtools',)


def sc_wraps_and_signature(inj):
    @functools.wraps(_inner)
    def outer(*args, **kwargs):
        return _inner(*args, **kwargs)
    outer.__signature__ = _ORIG['signature'](_inner2)
    return outer, ('sigtools',)


def sc_wraps_chain(inj):
    @functools.wraps(_inner)
    def mid(*args, **kwargs):
        return _inner(*args, **kwargs)

    @functools.wraps(mid)
    def outer(*args, **kwargs):
        return mid(*args, **kwargs)
    return outer, ('sigtools',)


def sc_instance_sig(inj):
    class Obj(object):
        def __call__(self, *args, **kwargs):
            return _inner(*args, **kwargs)
    o = Obj()
    o.__signature__ = _ORIG['signature'](_inner2)
    o.__wrapped__ = _inner
    return o, ('sigtools',)


def sc_class_sig(inj):
    class Obj(object):
        __signature__ = _ORIG['signature'](_inner2)

        def __call__(self, *args, **kwargs):
            return _inner(*args, **kwargs)
    return Obj(), ('sigtools',)


def sc_class_sig_inst_wrapped(inj):
    class Obj(object):
        __signature__ = _ORIG['signature'](_inner2)

        def __call__(self, *args, **kwargs):
            return _inner(*args, **kwargs)
    o = Obj()
    o.__wrapped__ = _inner
    return o, ('sigtools',)


def sc_getter_sig(inj):
    """class-level __signature__ through a getter, instance-level __wrapped__"""
    class Obj(object):
        __signature__ = Getter(inj, '__signature__', _ORIG['signature'](_inner2))

        def __call__(self, *args, **kwargs):
            return _inner(*args, **kwargs)
    o = Obj()
    o.__wrapped__ = _inner
    return o, ('sigtools',)


def sc_getter_sig_missing(inj):
    class Obj(object):
        __signature__ = Getter(inj, '__signature__', missing=True)

        def __call__(self, *args, **kwargs):
            return _inner(*args, **kwargs)
    o = Obj()
    o.__wrapped__ = _inner
    return o, ('sigtools',)


def sc_getter_wrapped(inj):
    class Obj(object):
        __wrapped__ = Getter(inj, '__wrapped__', _inner)

        def __call__(self, *args, **kwargs):
            return _inner(*args, **kwargs)
    o = Obj()
    o.__signature__ = _ORIG['signature'](_inner2)
    return o, ('sigtools',)


def sc_getattr_hook(inj):
    class Obj(object):
        def __getattr__(self, name):
            inj.cross('getter:__getattr__:' + name)
            raise AttributeError(name)

        def __call__(self, *args, **kwargs):
            return _inner(*args, **kwargs)
    o = Obj()
    o.__wrapped__ = _inner
    o.__signature__ = _ORIG['signature'](_inner2)
    return o, ('sigtools',)


def sc_getattr_hook_missing(inj):
    """__signature__ is absent and looked up through __getattr__; __wrapped__ is an instance attribute"""
    class Obj(object):
        def __getattr__(self, name):
            inj.cross('getter:__getattr__:' + name)
            raise AttributeError(name)

        def __call__(self, *args, **kwargs):
            return _inner(*args, **kwargs)
    o = Obj()
    o.__wrapped__ = _inner
    return o, ('sigtools',)


def sc_getter_both(inj):
    """both attributes class-level through getters"""
    class Obj(object):
        __wrapped__ = Getter(inj, '__wrapped__', _inner)
        __signature__ = Getter(inj, '__signature__', _ORIG['signature'](_inner2))

        def __call__(self, *args, **kwargs):
            return _inner(*args, **kwargs)
    return Obj(), ('sigtools',)


def sc_forwards_to_function(inj):
    @specifiers.forwards_to_function(_inner)
    def outer(p, *args, **kwargs):
        return _inner(*args, **kwargs)
    return outer, ('sigtools',)


def sc_forwards_emulate(inj):
    @specifiers.forwards_to_function(_inner, emulate=True)
    def outer(p, *args, **kwargs):
        return _inner(*args, **kwargs)
    return outer, ('sigtools', 'inspect')


def sc_user_forger(inj):
    @specifiers.forger_function
    @modifiers.kwoargs('obj')
    def forger(obj):
        inj.cross('forger')
        return PS.signature(_inner2)

    @forger()
    def outer(*args, **kwargs):
        return _inner(*args, **kwargs)
    return outer, ('sigtools',)


def sc_user_forger_emulate(inj):
    @specifiers.forger_function
    @modifiers.kwoargs('obj')
    def forger(obj):
        inj.cross('forger')
        return PS.signature(_inner2)

    @forger(emulate=True)
    def outer(*args, **kwargs):
        return _inner(*args, **kwargs)
    return outer, ('sigtools', 'inspect')


def sc_kwoargs(inj):
    @modifiers.kwoargs('b')
    def f(a, b, *args, **kwargs):
        return _inner(*args, **kwargs)
    return f, ('sigtools', 'inspect')


def sc_kwoargs_method(inj):
    class Obj(object):
        @modifiers.kwoargs('b')
        def meth(self, a, b, *args, **kwargs):
            return _inner(*args, **kwargs)
    return Obj().meth, ('sigtools',)


def sc_as_forged_class(inj):
    class Obj(object):
        __signature__ = specifiers.as_forged

        @specifiers.forwards_to_method('method')
        def __call__(self, x, *args, **kwargs):
            return self.method(*args, **kwargs)

        def method(self, a, b, c):
            pass
    return Obj(), ('sigtools', 'inspect')


def sc_bound_method(inj):
    class Obj(object):
        def target(self, a, b):
            pass

        def meth(self, p, *args, **kwargs):
            return self.target(*args, **kwargs)
    return Obj().meth, ('sigtools',)


def sc_partial_wraps(inj):
    @functools.wraps(_inner)
    def outer(*args, **kwargs):
        return _inner(*args, **kwargs)
    return functools.partial(outer, 1), ('sigtools',)


def sc_callable_instance(inj):
    class Obj(object):
        def __call__(self, q, *args, **kwargs):
            return _inner(*args, **kwargs)
    o = Obj()
    o.note = 'x'
    return o, ('sigtools',)


def sc_decorated_wrapper(inj):
    """modifiers on top of functools.wraps"""
    @modifiers.autokwoargs
    @functools.wraps(_inner2)
    def outer(x, y=1, *args, **kwargs):
        return _inner(*args, **kwargs)
    return outer, ('sigtools',)


def sc_class_desc_noforger(inj):
    """a class whose own __dict__ holds the as_forged DESCRIPTOR, no forger"""
    class C(object):
        __signature__ = specifiers.as_forged

        def __init__(self, a, b=1):
            pass
    return C, ('sigtools', 'inspect')


def sc_class_desc_forger(inj):
    """the same with a forger on the class"""
    @specifiers.forwards_to_function(_inner)
    class C(object):
        __signature__ = specifiers.as_forged

        def __init__(self, p, *args, **kwargs):
            _inner(*args, **kwargs)
    return C, ('sigtools', 'inspect')


def sc_class_desc_forwarding_init(inj):
    class C(object):
        __signature__ = specifiers.as_forged

        def __init__(self, p, *args, **kwargs):
            _inner(*args, **kwargs)
    return C, ('sigtools', 'inspect')


def sc_function_forwarding_to_class(inj):
    """a function forwarding *args/**kwargs to a class read through as_forged"""
    class C(object):
        __signature__ = specifiers.as_forged

        def __init__(self, a, b=1):
            pass

    def make(q, *args, **kwargs):
        return C(*args, **kwargs)
    return make, ('sigtools',), [C]


def sc_function_forwarding_to_forged_class(inj):
    @specifiers.forwards_to_function(_inner)
    class C(object):
        __signature__ = specifiers.as_forged

        def __init__(self, p, *args, **kwargs):
            _inner(*args, **kwargs)

    def make(q, *args, **kwargs):
        return C(*args, **kwargs)
    return make, ('sigtools',), [C]


def sc_class_getter_desc(inj):
    """a class whose own __dict__ holds a boundary-crossing descriptor as __signature__"""
    class C(object):
        __signature__ = Getter(inj, '__signature__', _ORIG['signature'](_inner2))

        def __init__(self, a, b=1):
            pass
    return C, ('sigtools',)


class CachedSigCommand(object):
    """__signature__ is a property with getter/setter/deleter over a private cache"""

    def __init__(self, func):
        functools.update_wrapper(self, func)
        self._sig = _ORIG['signature'](func)

    @property
    def __signature__(self):
        return self._sig

    @__signature__.setter
    def __signature__(self, value):
        self._sig = value

    @__signature__.deleter
    def __signature__(self):
        del self._sig

    def __call__(self, *args, **kwargs):
        return self.__wrapped__(*args, **kwargs)


class SlottedWrapper(object):
    """__wrapped__ lives in a slot, everything else in __dict__"""
    __slots__ = ('__wrapped__', '__dict__')

    def __init__(self, func):
        functools.update_wrapper(self, func)
        self.__signature__ = _ORIG['signature'](func)

    def __call__(self, *args, **kwargs):
        return self.__wrapped__(*args, **kwargs)


class SlottedBoth(object):
    """both attributes in slots, plus a __dict__"""
    __slots__ = ('__wrapped__', '__signature__', '__dict__')

    def __init__(self, func):
        self.__wrapped__ = func
        self.__signature__ = _ORIG['signature'](func)
        self.note = 1

    def __call__(self, *args, **kwargs):
        return self.__wrapped__(*args, **kwargs)


class Proxy(object):
    """everything but _target is read, set and deleted on the target"""

    def __init__(self, tgt):
        object.__setattr__(self, '_target', tgt)

    def __getattr__(self, name):
        return getattr(object.__getattribute__(self, '_target'), name)

    def __setattr__(self, name, value):
        setattr(object.__getattribute__(self, '_target'), name, value)

    def __delattr__(self, name):
        delattr(object.__getattribute__(self, '_target'), name)

    def __call__(self, *args, **kwargs):
        return object.__getattribute__(self, '_target')(*args, **kwargs)


def sc_property_backed_signature(inj):
    return CachedSigCommand(_inner), ('sigtools',)


def sc_slot_backed_wrapped(inj):
    return SlottedWrapper(_inner), ('sigtools',)


def sc_slot_backed_both(inj):
    return SlottedBoth(_inner), ('sigtools',)


def sc_forwarding_proxy(inj):
    @functools.wraps(_inner)
    def wrapper(*args, **kwargs):
        return _inner(*args, **kwargs)
    wrapper.__signature__ = _ORIG['signature'](_inner)
    return Proxy(wrapper), ('sigtools',)


# -- getters of the two attributes in every place Python lets one live: a property of the
# METACLASS of an inspected class (the pattern model/ORM metaclasses use), a plain property of
# the class of an inspected instance, a data descriptor with __get__/__set__/__delete__, a
# __getattribute__ override.  The getter is outside code; it is crossed once by
# get_introspectable / inspect before anything is set aside and again inside
# cleanup_functools_wrapper.__enter__ while the other attribute may already be set aside.
class _Original(object):
    def __init__(self, a, b=2):
        self.a, self.b = a, b


def _meta_with(inj, names):
    ns = {}
    for nm, val in names.items():
        def getter(cls, nm=nm, val=val):
            inj.cross('getter:metaclass-property:' + nm)
            return val
        ns[nm] = property(getter)
    return type('Meta', (type,), ns)


def sc_metaclass_property_signature(inj):
    """a class storing __wrapped__ itself whose metaclass computes __signature__ (property)"""
    Meta = _meta_with(inj, {'__signature__': _ORIG['signature'](_inner)})

    class Decorated(metaclass=Meta):
        def __init__(self, first, *rest, **options):
            self.original = _Original(first, *rest, **options)
    Decorated.__wrapped__ = _Original
    Decorated.marker = 'm'
    return Decorated, ('sigtools',)


def sc_metaclass_property_signature_wraps_function(inj):
    """the same, __wrapped__ a plain function and a second own attribute after it"""
    sig = _ORIG['signature'](_inner2)
    Meta = _meta_with(inj, {'__signature__': sig})

    class Decorated(metaclass=Meta):
        def __init__(self, *args, **kwargs):
            _inner2(*args, **kwargs)
    Decorated.__wrapped__ = _inner2
    return Decorated, ('sigtools',)


def sc_metaclass_property_wrapped(inj):
    """a class storing __signature__ itself whose metaclass computes __wrapped__"""
    Meta = _meta_with(inj, {'__wrapped__': _Original})

    class Decorated(metaclass=Meta):
        def __init__(self, first, *rest, **options):
            self.original = _Original(first, *rest, **options)
    Decorated.__signature__ = _ORIG['signature'](_inner)
    return Decorated, ('sigtools',)


def sc_metaclass_property_both(inj):
    Meta = _meta_with(inj, {'__wrapped__': _Original, '__signature__': _ORIG['signature'](_inner)})

    class Decorated(metaclass=Meta):
        def __init__(self, first, *rest, **options):
            self.original = _Original(first, *rest, **options)
    return Decorated, ('sigtools',)


def sc_property_signature_instance_wrapped(inj):
    """an instance storing __wrapped__ whose class computes __signature__ with a plain property"""
    class Obj(object):
        @property
        def __signature__(self):
            inj.cross('getter:property:__signature__')
            return _ORIG['signature'](_inner2)

        def __call__(self, *args, **kwargs):
            return _inner(*args, **kwargs)
    o = Obj()
    o.__wrapped__ = _inner
    o.note = 1
    return o, ('sigtools',)


def sc_property_wrapped_instance_signature(inj):
    class Obj(object):
        @property
        def __wrapped__(self):
            inj.cross('getter:property:__wrapped__')
            return _inner

        def __call__(self, *args, **kwargs):
            return _inner(*args, **kwargs)
    o = Obj()
    o.__signature__ = _ORIG['signature'](_inner2)
    return o, ('sigtools',)


class StoredDesc(object):
    """a data descriptor over a private attribute: reading and deleting cross the boundary
    (the crossing comes first: a deletion that raises has deleted nothing)"""

    def __init__(self, inj, name):
        self.inj, self.name, self.key = inj, name, '_stored_' + name.strip('_')

    def __get__(self, instance, owner):
        if instance is None:
            return self
        self.inj.cross('getter:data-descriptor:' + self.name)
        try:
            return instance.__dict__[self.key]
        except KeyError:
            raise AttributeError(self.name)

    def __set__(self, instance, value):
        instance.__dict__[self.key] = value

    def __delete__(self, instance):
        self.inj.cross('getter:data-descriptor-delete:' + self.name)
        try:
            del instance.__dict__[self.key]
        except KeyError:
            raise AttributeError(self.name)


def sc_data_descriptor_signature(inj):
    """__wrapped__ stored on the instance, __signature__ behind a data descriptor"""
    class Obj(object):
        __signature__ = StoredDesc(inj, '__signature__')

        def __call__(self, *args, **kwargs):
            return _inner(*args, **kwargs)
    o = Obj()
    o.__wrapped__ = _inner
    o.__signature__ = _ORIG['signature'](_inner2)
    return o, ('sigtools',)


def sc_data_descriptor_both(inj):
    class Obj(object):
        __wrapped__ = StoredDesc(inj, '__wrapped__')
        __signature__ = StoredDesc(inj, '__signature__')

        def __call__(self, *args, **kwargs):
            return _inner(*args, **kwargs)
    o = Obj()
    o.__wrapped__ = _inner
    o.__signature__ = _ORIG['signature'](_inner2)
    return o, ('sigtools',)


def sc_getattribute_hook(inj):
    """both attributes stored on the instance, every read of them through __getattribute__"""
    class Obj(object):
        def __getattribute__(self, name):
            if name in TRACKED:
                inj.cross('getter:__getattribute__:' + name)
            return object.__getattribute__(self, name)

        def __call__(self, *args, **kwargs):
            return _inner(*args, **kwargs)
    o = Obj()
    o.__wrapped__ = _inner
    o.__signature__ = _ORIG['signature'](_inner2)
    return o, ('sigtools',)


def sc_getattribute_hook_signature_absent(inj):
    class Obj(object):
        def __getattribute__(self, name):
            if name in TRACKED:
                inj.cross('getter:__getattribute__:' + name)
            return object.__getattribute__(self, name)

        def __call__(self, *args, **kwargs):
            return _inner(*args, **kwargs)
    o = Obj()
    o.__wrapped__ = _inner
    return o, ('sigtools',)


GETTER_SCENARIOS = [sc_metaclass_property_signature, sc_metaclass_property_signature_wraps_function,
                    sc_metaclass_property_wrapped, sc_metaclass_property_both,
                    sc_property_signature_instance_wrapped, sc_property_wrapped_instance_signature,
                    sc_data_descriptor_signature, sc_data_descriptor_both,
                    sc_getattribute_hook, sc_getattribute_hook_signature_absent]


def _handbuilt_sig(with_lists, owner):
    P = SG.UpgradedParameter
    params = [P('x', P.POSITIONAL_OR_KEYWORD), P('y', P.POSITIONAL_OR_KEYWORD), P('kwargs', P.VAR_KEYWORD)]
    if with_lists:
        return SG.UpgradedSignature(params, sources={p.name: [owner] for p in params})
    return SG.UpgradedSignature(params)


def sc_partial_handbuilt_signature(inj):
    """partial of a function whose __signature__ is a hand-built UpgradedSignature
    (default sources={}: no '+depths' key); its provenance is snapshotted by value"""
    def h(x, y, **kwargs):
        pass
    h.__signature__ = _handbuilt_sig(False, h)
    return functools.partial(h, 1, z=3), ('sigtools',)


def sc_partial_handbuilt_signature_lists(inj):
    def h(x, y, **kwargs):
        pass
    h.__signature__ = _handbuilt_sig(True, h)
    return functools.partial(h, 1, z=3), ('sigtools',)


def sc_function_handbuilt_signature(inj):
    def h(x, y, **kwargs):
        pass
    h.__signature__ = _handbuilt_sig(True, h)
    return h, ('sigtools',)


def sc_function_handbuilt_signature_empty(inj):
    """a function whose __signature__ is a hand-built UpgradedSignature with the
    constructor's default provenance map {} (snapshotted by value, like every signature)"""
    def h(x, y, **kwargs):
        pass
    h.__signature__ = _handbuilt_sig(False, h)
    return h, ('sigtools',)


def sc_wraps_handbuilt_signature_empty(inj):
    """functools.wraps copies __dict__: ONE hand-built signature object (empty provenance
    map) is the __signature__ of the wrapper and of the wrapped function"""
    def h(x, y, **kwargs):
        pass
    h.__signature__ = _handbuilt_sig(False, h)

    @functools.wraps(h)
    def outer(*args, **kwargs):
        return h(*args, **kwargs)
    return outer, ('sigtools', 'sigtools-all'), [h]


def sc_forwarding_to_handbuilt_signature_empty(inj):
    """a plain function forwarding to a callee whose __signature__ is hand-built"""
    def h(x, y, **kwargs):
        pass
    h.__signature__ = _handbuilt_sig(False, h)

    def caller(q, *args, **kwargs):
        return h(*args, **kwargs)
    return caller, ('sigtools',), [h]


def sc_two_functions_one_handbuilt_signature(inj):
    """one hand-built signature object installed on two unrelated functions, inspected
    one after the other"""
    def h1(*args, **kwargs):
        pass

    def h2(*args, **kwargs):
        pass
    h1.__signature__ = h2.__signature__ = _handbuilt_sig(False, h1)
    return h1, ('sigtools', 'sigtools-all'), [h2]


def sc_partial_of_two_functions_one_handbuilt_signature(inj):
    def h1(x, y, **kwargs):
        pass

    def h2(x, y, **kwargs):
        pass
    h1.__signature__ = h2.__signature__ = _handbuilt_sig(False, h1)
    return functools.partial(h1, 1), ('sigtools', 'sigtools-all'), [functools.partial(h2, y=2)]


# -- attributes that retrieval sets aside, holding UNUSUAL values.  None is a legal
# __signature__ (inspect reads it as "no override": the success path); the other values make
# inspect raise TypeError ("unexpected object in __signature__") or make unwrapping fail: the
# failure path.  Every crossing of every scenario is also made to raise (fault_injection).
def _unusual_scenarios():
    out = []

    def add(kind, vk, factory):
        ident = re.sub(r'[^A-Za-z0-9]+', '_', vk).strip('_') or 'empty_str'
        if vk == "''":
            ident = 'empty_str'
        if vk == '()':
            ident = 'empty_tuple'
        factory.__name__ = 'sc_%s_%s' % (kind, ident)
        factory.__doc__ = '%s = %s stored on the object itself' % (kind, vk)
        out.append(factory)

    for vk in UNUSUAL:
        def fn_sig(inj, vk=vk):
            def f(a, *args, **kwargs):
                return _inner(*args, **kwargs)
            f.__signature__ = UNUSUAL[vk]
            return f, ('sigtools',)

        def wraps_sig(inj, vk=vk):
            def callee(a, b=2, *, c=3):
                return a, b, c
            callee.__signature__ = UNUSUAL[vk]

            @functools.wraps(callee)        # copies __signature__ into the wrapper's __dict__
            def mid(*args, **kwargs):
                return callee(*args, **kwargs)

            @functools.wraps(mid)
            def outer(*args, **kwargs):
                return mid(*args, **kwargs)
            return outer, ('sigtools',)

        def inst_sig(inj, vk=vk):
            class Obj(object):
                def __call__(self, q, *args, **kwargs):
                    return _inner(*args, **kwargs)
            o = Obj()
            o.__signature__ = UNUSUAL[vk]
            o.__wrapped__ = _inner2
            return o, ('sigtools',)

        def inst_wrapped(inj, vk=vk):
            class Obj(object):
                def __call__(self, q, *args, **kwargs):
                    return _inner(*args, **kwargs)
            o = Obj()
            o.__wrapped__ = UNUSUAL[vk]
            o.__signature__ = _ORIG['signature'](_inner2)
            return o, ('sigtools',)

        def slot_both(inj, vk=vk):
            o = SlottedBoth(_inner)
            o.__signature__ = UNUSUAL[vk]
            return o, ('sigtools',)

        def forwarding_to(inj, vk=vk):
            def callee(a, b=2, *, c=3):
                return a, b, c
            callee.__signature__ = UNUSUAL[vk]

            def caller(q, *args, **kwargs):
                return callee(*args, **kwargs)
            return caller, ('sigtools',), [callee]
        add('function_signature', vk, fn_sig)
        add('wraps_chain_signature', vk, wraps_sig)
        add('instance_signature', vk, inst_sig)
        add('instance_wrapped', vk, inst_wrapped)
        add('slot_signature', vk, slot_both)
        add('callee_signature', vk, forwarding_to)
    return out


UNUSUAL_SCENARIOS = _unusual_scenarios()


SCENARIOS = [sc_function_handbuilt_signature_empty, sc_wraps_handbuilt_signature_empty,
             sc_forwarding_to_handbuilt_signature_empty, sc_two_functions_one_handbuilt_signature,
             sc_partial_of_two_functions_one_handbuilt_signature] + UNUSUAL_SCENARIOS + [
             sc_property_backed_signature, sc_slot_backed_wrapped, sc_slot_backed_both, sc_forwarding_proxy,
             sc_partial_handbuilt_signature, sc_partial_handbuilt_signature_lists, sc_function_handbuilt_signature,
             sc_class_desc_noforger, sc_class_desc_forger, sc_class_desc_forwarding_init,
             sc_function_forwarding_to_class, sc_function_forwarding_to_forged_class, sc_class_getter_desc,
             sc_wraps, sc_wraps_extra, sc_wraps_and_signature, sc_wraps_chain, sc_instance_sig, sc_class_sig,
             sc_class_sig_inst_wrapped, sc_getter_sig, sc_getter_sig_missing, sc_getter_wrapped, sc_getattr_hook, sc_getattr_hook_missing, sc_getter_both,
             sc_forwards_to_function, sc_forwards_emulate, sc_user_forger, sc_user_forger_emulate, sc_kwoargs,
             sc_kwoargs_method, sc_as_forged_class, sc_bound_method, sc_partial_wraps, sc_callable_instance,
             sc_decorated_wrapper] + GETTER_SCENARIOS
SCENARIO_BY_NAME = {f.__name__: f for f in SCENARIOS}


_ATOMS = (str, bytes, int, float, bool, type(None), tuple, frozenset, inspect.Signature, inspect.Parameter)


def _interesting(v):
    """objects whose own attributes belong to the inspected structure"""
    if isinstance(v, (types.FunctionType, types.MethodType, functools.partial)):
        return True
    if isinstance(v, (type, types.ModuleType, types.BuiltinFunctionType)) or isinstance(v, _ATOMS):
        return False
    if isinstance(v, (dict, list, set)):
        return False
    if isinstance(v, (Injector, Getter, StoredDesc)):
        return False
    mod = getattr(type(v), '__module__', '')
    return mod == __name__ or mod.startswith('sigtools')


_SKIP_CLASS_KEYS = ('__dict__', '__weakref__', '__doc__', '__module__', '__qualname__')


def _own_attrs(o):
    """Where every attribute of o is STORED: the keys of its own __dict__ and its
    slots ('slot:<name>'), each with the identity of the value and, for atoms
    (incl. signatures with their provenance), the value.  None: no storage."""
    d = None
    try:
        d = object.__getattribute__(o, '__dict__')
    except AttributeError:
        pass
    attrs = None
    if isinstance(d, (dict, types.MappingProxyType)):
        attrs = {}
        for k, v in list(d.items()):
            if isinstance(o, type) and k in _SKIP_CLASS_KEYS:
                continue
            attrs[k] = (id(v), _atom(v), v)
    if not isinstance(o, type):
        for klass in type(o).__mro__:
            for sl in getattr(klass, '__slots__', ()) if isinstance(getattr(klass, '__slots__', ()), (tuple, list)) else ():
                if sl in ('__dict__', '__weakref__'):
                    continue
                desc = klass.__dict__.get(sl)
                if desc is None or not hasattr(desc, '__get__'):
                    continue
                if attrs is None:
                    attrs = {}
                try:
                    v = desc.__get__(o, type(o))
                    attrs['slot:' + sl] = (id(v), _atom(v), v)
                except AttributeError:
                    attrs['slot:' + sl] = ('<empty slot>', None, None)
    return attrs


def snapshot(root):
    """Deep snapshot by identity and value: for every object reachable from root
    through __wrapped__/__signature__/__dict__ and slots (also __func__/__self__ of
    bound methods, func of partials, and the classes of scenario instances): where
    each attribute is stored, the identity of each value and, for atoms, the value."""
    seen = {}
    order = []
    roots = root if isinstance(root, list) else [root]
    todo = [('root' if i == 0 else 'extra%d' % i, r) for i, r in enumerate(roots)][::-1]
    while todo:
        path, o = todo.pop()
        if id(o) in seen or len(seen) > 200:
            continue
        entry = {'path': path, 'type': type(o).__name__, 'obj': o, 'attrs': None}
        attrs = _own_attrs(o)
        if attrs is not None:
            entry['attrs'] = {k: v[:2] for k, v in attrs.items()}
            for k, v in attrs.items():
                if v[2] is not None and _interesting(v[2]):
                    todo.append((path + '.' + k, v[2]))
        seen[id(o)] = entry
        order.append(entry)
        if isinstance(o, types.MethodType):
            todo.append((path + '.__func__', o.__func__))
            todo.append((path + '.__self__', o.__self__))
        if isinstance(o, functools.partial):
            todo.append((path + '.func', o.func))
        if not isinstance(o, type) and getattr(type(o), '__module__', '') == __name__ and not isinstance(o, Getter):
            todo.append((path + '.__class__', type(o)))
    return order


def sig_value(sig):
    """value-level rendering of a signature INCLUDING its provenance maps (keys,
    lists, nested '+depths') and the per-parameter lists"""
    def fn(f):
        return getattr(f, '__qualname__', None) or repr(type(f))
    out = ['sig' + str(sig)]
    src = getattr(sig, 'sources', None)
    if isinstance(src, dict):
        for k in src:          # insertion order is part of the value
            v = src[k]
            if isinstance(v, dict):
                out.append('%r:{%s}' % (k, ', '.join('%s:%r' % (fn(f), d) for f, d in v.items())))
            else:
                out.append('%r:[%s]' % (k, ', '.join(fn(f) for f in v)))
    for p in sig.parameters.values():
        if hasattr(p, 'source_depths'):
            out.append('%s<%s|%s>' % (p.name, ','.join(fn(f) for f in p.sources),
                                      ','.join('%s:%r' % (fn(f), d) for f, d in p.source_depths.items())))
    return ' '.join(out)


def _atom(v):
    if isinstance(v, inspect.Signature):
        return sig_value(v)
    if isinstance(v, (str, bytes, int, float, bool, type(None))):
        return repr(v)
    return None


def compare(before):
    """-> list of differences between the snapshot and the present state"""
    out = []
    for e in before:
        if e['attrs'] is None:
            continue
        o = e['obj']
        now = {k: v[:2] for k, v in (_own_attrs(o) or {}).items()}
        for k in e['attrs']:
            if k not in now:
                out.append(('lost', e['path'], k))
            elif now[k] != e['attrs'][k]:
                if e['attrs'][k][0] == now[k][0] and e['attrs'][k][1] != now[k][1]:
                    out.append(('changed in place (%s -> %s)' % (e['attrs'][k][1], now[k][1]), e['path'], k))
                else:
                    out.append(('changed', e['path'], k))
        for k in now:
            if k not in e['attrs']:
                out.append(('gained', e['path'], k))
    return out


def run_e2e(name, entry, k, excname):
    """One fault-injection run -> dict(result, diffs, guard, crossings, fired, in_enter)"""
    inj = Injector()
    made = SCENARIO_BY_NAME[name](inj)
    obj = made[0]
    snap = snapshot([obj] + (list(made[2]) if len(made) > 2 else []))
    specifiers.as_forged.currently_computing.clear()
    inj.k = k
    inj.exc = EXC[excname] if excname else None
    fn = sigtools.signature if entry == 'sigtools' else _ORIG['signature']
    if entry == 'sigtools-all':
        # the root and then every further object of the scenario, one retrieval after the other
        def fn(o):
            return ' ; '.join(str(sigtools.signature(x)) for x in [o] + (list(made[2]) if len(made) > 2 else []))
    import warnings
    with Patched(boundary_patches(inj)):
        inj.active = True
        try:
            with warnings.catch_warnings():
                warnings.simplefilter('ignore')
                r = fn(obj)
            res = 'ok:' + str(r)
        except BaseException as e:  # noqa: BLE001
            res = 'raised:' + type(e).__name__
        finally:
            inj.active = False
    diffs = compare(snap)
    guard = len(specifiers.as_forged.currently_computing)
    specifiers.as_forged.currently_computing.clear()
    enter_cfg = None
    if inj.enter_obj is not None:
        for e in snap:
            if e['obj'] is inj.enter_obj and e['attrs'] is not None:
                def slot(nm):
                    i = nm in e['attrs']
                    c = any(nm in vars(k) for k in type(inj.enter_obj).__mro__)
                    if i and isinstance(inj.enter_obj, type) and hasattr(type(own_dict(inj.enter_obj).get(nm)), '__get__'):
                        return 4
                    return 3 if i and c else 1 if i else 2 if c else 0
                enter_cfg = (slot('__wrapped__'), slot('__signature__'), e['path'])
    return {'result': res, 'diffs': diffs, 'guard': guard, 'crossings': inj.n, 'log': inj.log,
            'fired': inj.fired, 'in_enter': inj.fired_in_enter, 'enter_cfg': enter_cfg,
            'enter_attr': inj.enter_attr}


def e2e_verdict(name, entry, k, excname, r):
    """-> (key, what) or None"""
    if not r['diffs'] and r['guard'] == 0:
        return None
    if r['diffs']:
        key = 'C16:attrs-changed'
        what = ('%s.signature(<%s>)%s: %s; result %s' % (
            entry, name[3:], (' with crossing #%d (%s) raising %s' % (k, r['fired'], excname)) if k else '',
            ', '.join('%s %s of %s' % (d[0], d[2], d[1]) for d in r['diffs'][:4]), r['result']))
        return key, what
    return 'C16:guard', ('%s.signature(<%s>)%s: as_forged.currently_computing holds %d object(s) afterwards' % (
        entry, name[3:], (' with crossing #%d (%s) raising %s' % (k, r['fired'], excname)) if k else '', r['guard']))


def fault_injection(ctx, rep, model_cex=None):
    n = 0
    n_pred = 0
    # Exception leaves and (BASE_ONLY) the kinds that derive from BaseException only, at EVERY crossing
    excs = ['AttributeError', 'Boom', 'ValueError', 'TypeError', 'OSError', 'SyntaxError'] + list(BASE_ONLY)
    per_scenario = {}
    labels = {}
    outcomes = {}
    for sc in SCENARIOS:
        name = sc.__name__
        entries = sc(Injector())[1]
        for entry in entries:
            base = run_e2e(name, entry, None, None)
            n += 1
            v = e2e_verdict(name, entry, None, None, base)
            if v:
                rep.violation(v[0], v[1], {'kind': 'e2e', 'scenario': name, 'entry': entry, 'k': None, 'exc': None})
            per_scenario['%s/%s' % (name[3:], entry)] = base['crossings']
            for lb in base['log']:
                labels[lb.split(':')[0] if lb.startswith('getter') else lb] = labels.get(
                    lb.split(':')[0] if lb.startswith('getter') else lb, 0) + 1
            # crossings may shift once an exception changes the path: go a little beyond the baseline count
            kmax = base['crossings'] + 2
            for k in range(1, kmax + 1):
                for ex in excs:
                    r = run_e2e(name, entry, k, ex)
                    n += 1
                    if r['fired'] is None:
                        continue
                    rep.distinct.add((name, entry, k, ex))
                    oc = r['result'].split(':')[0] + (':' + r['result'].split(':')[1] if r['result'].startswith('raised') else '')
                    outcomes[oc] = outcomes.get(oc, 0) + 1
                    v = e2e_verdict(name, entry, k, ex, r)
                    if v:
                        rep.violation(v[0], v[1], {'kind': 'e2e', 'scenario': name, 'entry': entry, 'k': k, 'exc': ex})
                    if (model_cex is not None and r['in_enter'] and r['enter_cfg'] and r['fired'].startswith('getter:')
                            and r['enter_attr'] in TRACKED):
                        # a getter crash inside __enter__: the IR interpreter's prediction for the
                        # same configuration and crash point (attribute index, exception class)
                        w, sg, path = r['enter_cfg']
                        seq = read_sequence((SLOTS[w], SLOTS[sg]))
                        if r['enter_attr'] not in seq:
                            continue
                        gi = seq.index(r['enter_attr'])
                        predicted_lost = (w, sg, gi, 1 if ex == 'AttributeError' else 2) in model_cex
                        really_lost = any(d[1] == path for d in r['diffs'])
                        n_pred += 1
                        if predicted_lost != really_lost:
                            rep.corr_break('IR prediction vs end-to-end fault injection (getter crash inside __enter__)',
                                           {'scenario': name, 'entry': entry, 'k': k, 'exc': ex, 'config': [w, sg], 'attr': r['enter_attr']},
                                           'attributes lost' if predicted_lost else 'attributes restored',
                                           'attributes lost' if really_lost else 'attributes restored')
    rep.coverage['e2e_enter_getter_crashes_compared_with_model'] = n_pred
    rep.coverage['e2e_crossings_per_scenario'] = per_scenario
    rep.coverage['e2e_boundary_labels'] = labels
    rep.coverage['e2e_outcomes'] = outcomes
    return n


# ====================================================================== (1) algebra purity
def gen_algebra(ctx):
    rng = ctx.rng('algebra')
    U2 = universe(2, ['a', 'b'], stars=(('args', 'kwargs'), ('a', 'b')))
    U3 = universe(3, ['a', 'b', 'c'])
    n = 4000 if ctx.quick else 60000
    cases = []

    def pick():
        k = rng.random()
        if k < 0.4:
            return rng.choice(U2)
        if k < 0.7:
            return rng.choice(U3)
        return random_sig(rng, 'abcd', 4, meta=True)
    fz = id_of_name('z')
    for _ in range(n):
        k = rng.random()
        if k < 0.3:
            cases.append(Merge([mk_desc(pick(), 100 + j) for j in range(rng.choice([2, 2, 3]))]))
        elif k < 0.5:
            cases.append(Embed([mk_desc(pick(), 100 + j) for j in range(rng.choice([2, 2, 3]))],
                               rng.random() < 0.7, rng.random() < 0.7))
        elif k < 0.7:
            ps = pick()
            names = [p[0] for p in ps] + [fz]
            ns = []
            for _j in range(rng.randint(0, 2)):
                x = rng.choice(names)
                if x not in ns:
                    ns.append(x)
            cases.append(Mask(mk_desc(ps, 100), rng.randint(0, len(ps)), ns,
                              [rng.random() < 0.25 for _ in range(4)]))
        elif k < 0.9:
            o, i = pick(), pick()
            names = [p[0] for p in i]
            ns = [rng.choice(names)] if names and rng.random() < 0.4 else []
            cases.append(Forwards(mk_desc(o, 100), mk_desc(i, 101), rng.randint(0, 2), ns,
                                  rng.random() < 0.2, rng.random() < 0.2, rng.random() < 0.8,
                                  rng.random() < 0.8, rng.random() < 0.2))
        else:
            cases.append(SortApply(mk_desc(pick(), 100)))
    return cases


def shared_identity_cases(ctx, rep):
    """Inputs that share parameter OBJECTS (a signature and its own mask, a
    signature merged with itself): _exclude_from_seq compares with `is`."""
    rng = ctx.rng('shared')
    U3 = universe(3, ['a', 'b', 'c'])
    n = 0
    for _ in range(300 if ctx.quick else 3000):
        d = mk_desc(rng.choice(U3), 100)
        s = build_sig(d)
        snap = _deep(s)
        try:
            m = PS.mask(s, min(1, len(d['params'])))
            snap_m = _deep(m)
            ops = [lambda: PS.merge(s, m), lambda: PS.merge(s, s), lambda: PS.embed(s, m), lambda: PS.embed(s, s),
                   lambda: PS.forwards(s, m), lambda: PS.mask(m, 0)]
        except ValueError:
            snap_m = None
            ops = [lambda: PS.merge(s, s), lambda: PS.embed(s, s)]
        for idx, op in enumerate(ops):
            n += 1
            try:
                r = op()
            except ValueError:
                r = None
            bad = _deep_diff(s, snap) or (snap_m is not None and _deep_diff(m, snap_m))
            if bad:
                rep.violation('C16:input-mutated', 'operation #%d on %s and its own mask: %s' % (idx, show_sig(d), bad),
                              {'kind': 'shared', 'sig': d, 'op': idx})
            if r is not None:
                al = _alias(r, [s] + ([m] if snap_m is not None else []))
                if al:
                    rep.violation('C16:aliased:shared', 'operation #%d on %s and its own mask: %s' % (idx, show_sig(d), al),
                                  {'kind': 'shared', 'sig': d, 'op': idx})
    return n


def _deep(s):
    return (list(s.parameters.values()), [id(p) for p in s.parameters.values()], id(s.sources),
            {k: (id(v), (list(v) if isinstance(v, list) else dict(v))) for k, v in s.sources.items()},
            [(id(p.sources), list(p.sources), id(p.source_depths), dict(p.source_depths)) for p in s.parameters.values()],
            str(s))


def _deep_diff(s, snap):
    now = _deep(s)
    names = ('parameters', 'parameter objects', 'sources map identity', 'sources entries',
             'per-parameter sources', 'rendering')
    for nm, a, b in zip(names, snap, now):
        if a != b:
            return '%s changed' % nm
    return None


def _alias(r, inputs):
    """identity of the provenance map, of every per-parameter list and of the
    nested '+depths' map between the result and every input (empty ones included)"""
    if not hasattr(r, 'sources'):
        return None
    for s in inputs:
        if r.sources is s.sources:
            return 'result shares its sources map with an input'
        ins = {id(v): k for k, v in s.sources.items()}
        for k, v in r.sources.items():
            if id(v) in ins:
                return 'result.sources[%r] is input.sources[%r] (the same %s object)' % (k, ins[id(v)], type(v).__name__)
    return None


def _strict_aliasing(result, built):
    """replacement for algebra._aliasing during this check (algebra.py skips empty
    containers, hence an empty '+depths' map)"""
    return _alias(result, [rec[1] for rec in built])


def direct_verdicts(d):
    """sort_params / apply_params / unary merge, embed / mask on one fresh signature,
    decided directly: -> [(key, what)]"""
    out = []
    s = build_sig(d)
    snap = _deep(s)
    sp = PS.sort_params(s, sources=True)
    PS.sort_params(s)
    bad = _deep_diff(s, snap)
    if bad:
        out.append(('C16:input-mutated', 'sort_params(%s): %s' % (show_sig(d), bad)))
    ins = {id(v): k for k, v in s.sources.items()}
    if sp.sources is s.sources or any(id(v) in ins for v in sp.sources.values()):
        out.append(('C16:aliased:sort_params',
                    'sort_params(s, sources=True).sources shares its map, a per-parameter list or the nested '
                    "'+depths' map with s.sources, s=%s" % show_sig(d)))
    # buckets are fresh containers holding the input's own parameter objects
    for bucket in (sp.posargs, sp.pokargs):
        bucket.append(None)        # must not reach the input
    sp.kwoargs['zz'] = None
    if _deep_diff(s, snap):
        out.append(('C16:aliased:sort_params', 'mutating a bucket returned by sort_params(%s) changed the input' % show_sig(d)))
    n = len(d['params'])
    ops = [('apply_params(s, *sort_params(s, sources=True))', lambda: PS.apply_params(s, *PS.sort_params(s, sources=True))),
           ('apply_params(s, *sort_params(s))', lambda: PS.apply_params(s, *PS.sort_params(s))),
           ('merge(s)', lambda: PS.merge(s)), ('embed(s)', lambda: PS.embed(s)),
           ('mask(s, 0)', lambda: PS.mask(s, 0)), ('mask(s, 1)', lambda: PS.mask(s, min(1, n))),
           ('mask(s, hide_kwargs=True)', lambda: PS.mask(s, hide_kwargs=True)),
           ('forwards(s, s)', lambda: PS.forwards(s, s))]
    for label, op in ops:
        try:
            r = op()
        except ValueError:
            r = None
        bad = _deep_diff(s, snap)
        if bad:
            out.append(('C16:input-mutated', '%s s=%s: %s' % (label, show_sig(d), bad)))
        al = _alias(r, [s]) if r is not None else None
        if al:
            out.append(('C16:aliased:' + label.split('(')[0], '%s s=%s: %s' % (label, show_sig(d), al)))
    return out


def build_handbuilt(d, mode, fid):
    """A legal hand-made input: UpgradedSignature(params) with the constructor's
    default sources={} ('empty'), or with a caller-written map that lists
    per-parameter sources only -- no '+depths' key ('lists': every parameter,
    'some': every other parameter)."""
    from core import KINDS, py_default, py_ann, name_of, fn_of
    params = [SG.UpgradedParameter(name_of(nm), KINDS[k], default=py_default(de), annotation=py_ann(an))
              for nm, k, de, an, ua in d['params']]
    if mode == 'empty':
        return SG.UpgradedSignature(params)
    names = [p.name for p in params]
    if mode == 'some':
        names = names[::2]
    return SG.UpgradedSignature(params, sources={n: [fn_of(fid)] for n in names})


def _value_snapshot(sig):
    """keys (in order), lists and nested maps of sig.sources BY VALUE, the identity of
    the map and of the parameter objects, and the per-parameter lists"""
    src = sig.sources
    return (id(src), [(k, (dict(v) if isinstance(v, dict) else list(v))) for k, v in src.items()],
            [id(p) for p in sig.parameters.values()],
            [(p.name, p.kind, list(p.sources), dict(p.source_depths)) for p in sig.parameters.values()], str(sig))


def _show_src(items):
    def one(v):
        if isinstance(v, dict):
            return '{%s}' % ', '.join('%s: %r' % (getattr(f, '__name__', '?'), d) for f, d in v.items())
        return '[%s]' % ', '.join(getattr(f, '__name__', '?') for f in v)
    return '{%s}' % ', '.join('%r: %s' % (k, one(v)) for k, v in items)


HANDBUILT_OPS = [
    ('sort_params(a, sources=True)', lambda a, b: PS.sort_params(a, sources=True)),
    ('sort_params(a)', lambda a, b: PS.sort_params(a)),
    ('apply_params(a, *sort_params(a))', lambda a, b: PS.apply_params(a, *PS.sort_params(a))),
    ('apply_params(a, *sort_params(a, sources=True))', lambda a, b: PS.apply_params(a, *PS.sort_params(a, sources=True))),
    ('mask(a, 1)', lambda a, b: PS.mask(a, 1)),
    ('mask(a, 0, hide_kwargs=True)', lambda a, b: PS.mask(a, 0, hide_kwargs=True)),
    ('mask(a, 9)', lambda a, b: PS.mask(a, 9)),                       # usually fails
    ("mask(a, 0, 'zz')", lambda a, b: PS.mask(a, 0, 'zz')),           # fails without **kwargs
    ('merge(a)', lambda a, b: PS.merge(a)),
    ('merge(a, b)', lambda a, b: PS.merge(a, b)),
    ('merge(b, a, b)', lambda a, b: PS.merge(b, a, b)),
    ('embed(a)', lambda a, b: PS.embed(a)),
    ('embed(a, b)', lambda a, b: PS.embed(a, b)),
    ('embed(b, a)', lambda a, b: PS.embed(b, a)),
    ('forwards(a, b)', lambda a, b: PS.forwards(a, b)),
    ('forwards(a, b, 1)', lambda a, b: PS.forwards(a, b, 1)),
    ('forwards(a, b, partial=True)', lambda a, b: PS.forwards(a, b, partial=True)),
]


def handbuilt_verdicts(da, db, mode, only=None):
    """Every operation on fresh hand-built inputs, succeeding or failing: the inputs'
    provenance maps must have the same keys, lists and nested maps afterwards."""
    out = []
    n = 0
    fails = 0
    for label, op in HANDBUILT_OPS:
        if only is not None and label != only:
            continue
        a, b = build_handbuilt(da, mode, 100), build_handbuilt(db, mode, 101)
        before = _value_snapshot(a), _value_snapshot(b)
        failed = ''
        import warnings
        try:
            with warnings.catch_warnings():
                warnings.simplefilter('ignore')
                op(a, b)
        except ValueError as e:
            failed = ' (which raised %s)' % type(e).__name__
            fails += 1
        n += 1
        after = _value_snapshot(a), _value_snapshot(b)
        for nm, x, y, dd in (('a', before[0], after[0], da), ('b', before[1], after[1], db)):
            if x != y:
                out.append(('C16:input-mutated',
                            "%s%s on hand-built signatures (%s provenance map, no '+depths' key), a=%s b=%s: "
                            'input %s changed: sources %s -> %s' % (
                                label, failed, {'empty': 'default empty', 'lists': 'caller-written',
                                                'some': 'caller-written partial'}[mode],
                                show_sig(da), show_sig(db), nm, _show_src(x[1]), _show_src(y[1])), label))
    return out, n, fails


def handbuilt_inputs(ctx, rep):
    rng = ctx.rng('handbuilt')
    U3 = universe(3, ['a', 'b', 'c'])
    n = 0
    nfail = 0
    for _ in range(120 if ctx.quick else 1500):
        da = mk_desc(rng.choice(U3) if rng.random() < 0.7 else random_sig(rng, 'abcd', 4, meta=True), None)
        db = mk_desc(rng.choice(U3) if rng.random() < 0.7 else random_sig(rng, 'abcd', 4, meta=True), None)
        mode = rng.choice(['empty', 'lists', 'some'])
        res, k, fails = handbuilt_verdicts(da, db, mode)
        n += k
        nfail += fails
        for key, what, label in res:
            rep.violation(key, what, {'kind': 'handbuilt', 'a': da, 'b': db, 'mode': mode, 'op': label})
    rep.coverage['handbuilt_inputs'] = {'operations': n, 'of_which_raised': nfail}
    return n


def sort_apply_direct(ctx, rep):
    rng = ctx.rng('sortapply')
    U3 = universe(3, ['a', 'b', 'c'])
    n = 0
    for _ in range(400 if ctx.quick else 4000):
        k = rng.random()
        ps = rng.choice(U3) if k < 0.6 else random_sig(rng, 'abcd', 4, meta=True)
        # with and without provenance (an empty '+depths' map must not be shared either)
        d = mk_desc(ps, 100 if rng.random() < 0.8 else None)
        n += 9
        for key, what in direct_verdicts(d):
            rep.violation(key, what, {'kind': 'sort', 'sig': d})
    return n


def run(ctx, rep):
    rep.rule = ('algebra: random merge/embed/mask/forwards/sort+apply cases over U(2), U(3) and random 4-name signatures with metadata, '
                'plus inputs sharing parameter objects; retrieval: every (scenario, entry point, crossing index, exception class) '
                'whose crossing was actually reached (= distinct non-trivial); IR: the theorems\' whole domain on the real functions')
    # (1)
    cases = gen_algebra(ctx)
    loose = algebra._aliasing
    algebra._aliasing = _strict_aliasing     # identity of nested maps and empty containers included
    try:
        tr = run_cases(cases)
    finally:
        algebra._aliasing = loose
    hist = {}
    for c, m, i in tr:
        hist[c.op] = hist.get(c.op, 0) + 1
        if (m[0], m[1] if m[0] == 'err' else None) != (i[0], i[1] if i[0] == 'err' else None):
            rep.corr_break('error class (algebra model)', c.show(), str(m[:2] if m[0] == 'err' else 'ok'),
                           str(i[:2] if i[0] == 'err' else 'ok'))
    n1 = len(tr) + shared_identity_cases(ctx, rep) + sort_apply_direct(ctx, rep) + handbuilt_inputs(ctx, rep)
    rep.coverage['algebra_cases'] = hist
    rep.coverage['algebra_inputs_snapshotted'] = n1
    # (2)
    n2 = 0
    try:
        n2 = ir_correspondence(ctx, rep)
    except coqrun.CoqError as e:
        rep.corr_break('IR interpreter run (coqc)', 'cases file', 'evaluates', str(e)[-600:])
    n2 += unit_values(ctx, rep)
    n2 += unit_base_exceptions(ctx, rep)
    # (3)
    n3 = fault_injection(ctx, rep, _STATE.get('model_cex'))
    rep.evaluations = n1 + n2 + n3
    rep.coverage['evaluations_by_part'] = {'algebra': n1, 'ir_vs_cpython': n2, 'fault_injection_runs': n3}
    rep.exhaustive = True
    rep.sample({'part': 'fault injection', 'scenario': 'getter_sig', 'run': {k: v for k, v in run_e2e('sc_getter_sig', 'sigtools', 2, 'Boom').items() if k in ('result', 'diffs', 'fired', 'in_enter')}})
    rep.sample({'part': 'IR vs CPython', 'case': str(unit_aff(('Inst', 'ClassLevel'), ('call', 0, Boom), [True] * 4))})
    for c, m, i in tr[:2]:
        rep.sample({'part': 'algebra', 'case': c.show()})
    rep.assumptions = [
        'fault model: exceptions (Exception subclasses and BaseException-only kinds raised synchronously by the callee) raised by calls that leave sigtools and by attribute getters / deleters; no asynchronous exceptions between two statements',
        'the whitelisted outside callees (_signatures.signature, any_params_star, _util.get_ast, autoforwards_ast, specifiers.signature) do not themselves change attributes of the inspected object (checked end to end by fault injection, not proved)',
        'exception classes are matched exactly in the IR (no subclass relation); injected classes are leaves',
        '__setattr__/__delattr__ of the inspected object are the default ones',
    ]


# ====================================================================== replay
def replay(ctx, data):
    r = data['replay']
    kind = r.get('kind')
    if kind == 'e2e':
        res = run_e2e(r['scenario'], r['entry'], r['k'], r['exc'])
        v = e2e_verdict(r['scenario'], r['entry'], r['k'], r['exc'], res)
        return v[1] if v else None
    if kind == 'unit-aff':
        cfg = tuple(r['cfg'])
        ans = unit_aff(cfg, _crash_unjson(r['crash']), r['rets'], None, r.get('values'))
        want = WANT_SLOT
        if ans[1] != want[cfg[0]] or ans[2] != want[cfg[1]] or not ans[6] or ans[3] != 0:
            return ('autoforwards_function(obj) with __wrapped__ %s, __signature__ %s%s, %s: afterwards __wrapped__ is %s, '
                    '__signature__ is %s' % (cfg[0], cfg[1],
                                             (', the object itself storing ' + ', '.join('%s = %s' % kv for kv in sorted(r['values'].items())))
                                             if r.get('values') else '',
                                             _show_crash(_crash_unjson(r['crash'])) or 'no crash',
                                             _slot_name(ans[1]), _slot_name(ans[2])))
        return None
    if kind == 'unit-get':
        ans = unit_get(r['on_class'], _crash_unjson(r['crash']), [CB_CHOICES[c] for c in r['cbs']], r['ret'])
        return 'guard set holds %d object(s)' % ans[1] if ans[1] else None
    if kind == 'purity':
        del algebra.PURITY_BREAKS[:]
        del algebra.ALIAS_BREAKS[:]
        c = case_from_data(r)
        loose = algebra._aliasing
        algebra._aliasing = _strict_aliasing
        try:
            c.impl()
        finally:
            algebra._aliasing = loose
        out = [pb['what'] for pb in algebra.PURITY_BREAKS + algebra.ALIAS_BREAKS]
        del algebra.PURITY_BREAKS[:]
        del algebra.ALIAS_BREAKS[:]
        return ('%s: %s' % (c.show(), out[0])) if out else None
    if kind == 'handbuilt':
        res, _, _ = handbuilt_verdicts(algebra._fix_desc(r['a']), algebra._fix_desc(r['b']), r['mode'], r['op'])
        return res[0][1] if res else None
    if kind in ('shared', 'sort'):
        rp = Collector()
        d = algebra._fix_desc(r['sig'])
        if kind == 'sort':
            _replay_sort(d, rp)
        else:
            _replay_shared(d, rp)
        return rp.first
    return None


class Collector(object):
    first = None

    def violation(self, key, what, data):
        if self.first is None:
            self.first = what


def _replay_sort(d, rp):
    for key, what in direct_verdicts(d):
        rp.violation(key, what, None)


def _replay_shared(d, rp):
    s = build_sig(d)
    snap = _deep(s)
    try:
        m = PS.mask(s, min(1, len(d['params'])))
        ops = [lambda: PS.merge(s, m), lambda: PS.merge(s, s), lambda: PS.embed(s, m), lambda: PS.embed(s, s),
               lambda: PS.forwards(s, m), lambda: PS.mask(m, 0)]
        ins = [s, m]
    except ValueError:
        ops = [lambda: PS.merge(s, s), lambda: PS.embed(s, s)]
        ins = [s]
    for idx, op in enumerate(ops):
        try:
            r = op()
        except ValueError:
            r = None
        if _deep_diff(s, snap):
            rp.violation('', 'operation #%d on %s and its own mask: %s' % (idx, show_sig(d), _deep_diff(s, snap)), None)
        if r is not None and _alias(r, ins):
            rp.violation('', 'operation #%d on %s and its own mask: %s' % (idx, show_sig(d), _alias(r, ins)), None)


def replay_known(ctx, k):
    w = k.get('witness') or {}
    if w.get('kind') == 'e2e':
        res = run_e2e(w['scenario'], w['entry'], w['k'], w['exc'])
        return e2e_verdict(w['scenario'], w['entry'], w['k'], w['exc'], res) is not None
    if w.get('kind') == 'purity':
        return replay(ctx, {'replay': w}) is not None
    if w.get('kind') == 'unit-aff':
        return replay(ctx, {'replay': w}) is not None
    return True
