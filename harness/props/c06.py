"""C06 — automatic discovery agrees with the equivalent explicit declaration."""
import warnings

import sigtools
from sigtools import signatures as PS, _autoforwards as AF

import core
from core import describe_sig, name_of
import discovery as D
import programs as PG
import discheck as DC

LEVEL = 'proof'


def canon_desc(d):
    ps = tuple((name_of(nm), k, de is not None) for nm, k, de, an, ua in d['params'])
    prov = tuple(sorted((name_of(k), tuple(DC.fn_key(core._FN[f]) for f in v))
                        for k, v in d['srcs'].items()))
    deps = tuple(sorted((DC.fn_key(core._FN[f]), v) for f, v in d['deps'].items()))
    return ps, prov, deps


def canon_sig_as_desc(sig):
    return canon_desc(describe_sig(sig))


def impl_autoforwards(p, ns):
    """the implementation's discovery on the analysed function, before the
    route's post-processing; 'UNKNOWN' for UnknownForwards"""
    fn, obj = DC.wrapper_function(p, ns)
    args = ()
    if p.route == 'method':
        args = (ns['inst'],)
    elif p.route == 'parameter':
        args = (ns[list(p.callees)[0]],)
    elif p.route == 'param_default':
        args = (0,)
    try:
        with warnings.catch_warnings():
            warnings.simplefilter('ignore')
            r = AF.autoforwards_function(fn, args, {})
    except AF.UnknownForwards:
        return 'UNKNOWN'
    except Exception as e:  # noqa: BLE001
        return 'RAISED ' + type(e).__name__
    return canon_sig_as_desc(r)


def check_program(p, rep, tag):
    """returns list of (key, what) violations; records corr breaks on rep"""
    viol = []
    ns = PG.load_module(p.source)
    try:
        fn, obj = DC.wrapper_function(p, ns)
        got = DC.get_sig(obj)
        if got[0] == 'err':
            viol.append(('C06:raises', 'sigtools.signature(wrapper) raised %s' % got[1]))
            return viol
        exp, plain = DC.expected_declared(p, ns)
        gc = DC.canon(got[1])
        # asking again gives the same answer (discovery keeps no state between queries)
        for again in (2, 3):
            g2 = DC.get_sig(obj)
            if g2[0] == 'err' or DC.canon(g2[1]) != gc:
                viol.append(('C06:requery', 'query number %d of sigtools.signature(wrapper) gives %s, the first gave %s'
                             % (again, g2[1], got[1])))
                break
        ecs = [DC.canon(e) for e in exp] if exp is not None else [gc]
        if gc not in ecs:
            pc = [e for e in ecs if e[0] == gc[0]]
            if pc:
                viol.append(('C06:provenance',
                             'discovered provenance %s differs from the declared one %s (signature %s)'
                             % (gc[1:], pc[0][1:], got[1])))
            else:
                viol.append(('C06:signature',
                             'discovered %s but the explicit declaration gives %s'
                             % (got[1], ' or '.join(sorted({str(e) for e in exp})))))
        # model correspondence: visitor, then forward_signatures/merge/fallback
        md = DC.model_discover(p, ns)
        if md['visitor_model'] != md['visitor_impl']:
            rep.corr_break('CallListerVisitor', p.source, md['visitor_model'], md['visitor_impl'])
        if md.get('final_raw') is not None:
            ia = impl_autoforwards(p, ns)
            raw = md['final_raw']
            ma = 'UNKNOWN' if raw == 'UNKNOWN' else canon_desc(D.parse_sig_line(raw))
            if ma != ia:
                rep.corr_break('forward_signatures+merge', p.source, str(ma), str(ia))
            if ma != 'UNKNOWN':
                rep.distinct.add(tag)
        return viol
    finally:
        PG.unload(ns)


def invariance_variants(p, rng):
    """semantically irrelevant variations of one program: other statement
    context, decoys, local names"""
    import copy
    out = []
    for ctx in rng.sample([c for c in PG.CONTEXTS if c not in ('ifelse2',)], 3):
        q = copy.deepcopy(p)
        q.context = ctx
        q.decoys = rng.choice([0, 1, 2])
        q.rename_locals = not p.rename_locals
        try:
            q.render()
        except Exception:  # noqa: BLE001
            continue
        out.append(q)
    return out


def run(ctx, rep):
    rng = ctx.rng('gen')
    n = 700 if ctx.quick else 6000
    progs = PG.gen_programs(rng, n, tainted=False)
    progs += PG.gen_programs(ctx.rng('unres2'), 100 if ctx.quick else 1000, tainted=False, second_unresolvable=True)
    # decorators that only wrap, stacked: one pass-through applied twice (two functions sharing a code object)
    progs += PG.gen_programs(ctx.rng('stack'), 80 if ctx.quick else 600, tainted=False, routes=['closure_stack'])
    # functools.partial of a higher-order FORWARDER whose own callee is its first bound positional:
    # functools.partial(mid_chain_pos, callee, <literals>, *args, **kwargs) written in the body
    hof = PG.gen_programs(ctx.rng('partial_hof'), 70 if ctx.quick else 600, tainted=False, routes=['chain_pos'])
    # (one forwarding call, no star argument of the program's own: the declared equivalent of the
    # two-level chain is unambiguous there)
    hof = [p_ for p_ in hof if len(p_.calls) == 1 and not (p_.calls[0].own_va or p_.calls[0].own_vk)]
    for p_ in hof:
        for c_ in p_.calls:
            c_.partial = True
        p_.render()
    progs += hof
    # decorators that only wrap, copying metadata: functools.wraps(callee) / update_wrapper over a callee
    # whose __dict__ holds a stored __signature__ (assigned, upgraded, modifiers.annotate), which the
    # wrapper inherits next to __wrapped__: the wrapper's own def is still what is analysed
    progs += PG.gen_programs(ctx.rng('wraps'), 90 if ctx.quick else 700, tainted=False, routes=['wraps_sig'])
    # a dispatcher called with a run-time-only value before two known callables (it calls the first)
    progs += PG.gen_programs(ctx.rng('pick'), 60 if ctx.quick else 500, tainted=False, routes=['chain_pick'])
    rep.rule = ('programs of the forwarding grammar (untainted): wrapper signatures with <=2 named parameters and a star, '
                'callees from U(2), 1-2 forwarding calls with 0-2 literal positionals / keyword names / own star arguments, '
                '11 statement contexts x 6 callee resolution routes (global, closure, attribute chain, self.method, parameter via partial, '
                'functools.partial in body); expected value from the generator ground truth through signatures.forwards/merge only; '
                'non-trivial = discovery produced a signature other than the fallback')
    hist = {}
    nviol = 0
    for idx, p in enumerate(progs):
        hist[(p.route, p.context)] = hist.get((p.route, p.context), 0) + 1
        for key, what in check_program(p, rep, idx):
            rep.violation(key, what + '\n' + p.source, {'kind': 'program', 'source': p.source, 'prog': p.describe(),
                                                         'route': p.route, 'spec': spec_of(p)})
        rep.evaluations += 1
        if idx < 4:
            rep.sample({'program': p.source, 'ground_truth': p.describe()})
    # invariance under irrelevant variation (parameters and provenance)
    ninv = 0
    for p in progs[:120 if ctx.quick else 800]:
        if p.context == 'ifelse2' or len(p.calls) != 1:
            continue
        ns = PG.load_module(p.source)
        try:
            base = DC.get_sig(DC.wrapper_function(p, ns)[1])
        finally:
            PG.unload(ns)
        if base[0] != 'ok':
            continue
        for q in invariance_variants(p, rng):
            ns2 = PG.load_module(q.source)
            try:
                other = DC.get_sig(DC.wrapper_function(q, ns2)[1])
            finally:
                PG.unload(ns2)
            ninv += 1
            if other[0] != 'ok' or DC.canon(other[1]) != DC.canon(base[1]):
                rep.violation('C06:invariance',
                              'discovery changed under an irrelevant variation: %s vs %s\n--- A\n%s--- B\n%s'
                              % (base[1], other[1] if other[0] == 'ok' else other[1], p.source, q.source),
                              {'kind': 'invariance', 'a': p.source, 'b': q.source, 'route': p.route})
    rep.evaluations += ninv
    rep.coverage['invariance_pairs'] = ninv
    rep.coverage['route_context_histogram'] = {'%s/%s' % k: v for k, v in sorted(hist.items())}
    rep.coverage['programs'] = len(progs)
    rep.assumptions = [
        'the order in which several forwarding calls are merged is not specified by the property: any permutation of the declared calls is accepted',
        'resolving a marker to a Python object and computing the callee signature leave the model (supplied by the harness from the generator ground truth)',
    ]


def spec_of(p):
    return None


def _sig_of_source(source, route):
    ns = PG.load_module(source)
    try:
        w = ns['wrapper']
        return DC.get_sig(w)
    finally:
        PG.unload(ns)


def replay(ctx, data):
    r = data['replay']
    if r.get('kind') == 'invariance':
        a = _sig_of_source(r['a'], r['route'])
        b = _sig_of_source(r['b'], r['route'])
        if a[0] != 'ok' or b[0] != 'ok' or DC.canon(a[1]) != DC.canon(b[1]):
            return 'discovery differs between the two variants: %s vs %s' % (a[1], b[1])
        return None
    if r.get('kind') == 'program':
        p = prog_from_description(r['prog'], r['source'])
        rep = _Null()
        v = check_program(p, rep, 0)
        return v[0][1] if v else None
    return None


class _Null(object):
    def __init__(self):
        self.distinct = set()

    def corr_break(self, *a):
        pass


def prog_from_description(d, source):
    """rebuild the ground truth of a program from its replay description"""
    from core import id_of_name
    p = PG.Prog()
    p.route = d['route']
    p.context = d['context']
    p.nosource = d.get('nosource', False)
    p.wraps_kind = d.get('wraps_kind')
    p.source = source
    p.outer = parse_params(d['outer'])
    p.callees = {k: parse_params(v) for k, v in d['callees'].items()}
    for c in d['calls']:
        cc = PG.Call(c['callee'], c['n'], [id_of_name(n) for n in c['names']], c['va'], c['vk'],
                     c['own_va'], c['own_vk'], c['partial'])
        cc.nested = c['nested']
        cc.unresolvable = c.get('unresolvable', False)
        cc.inline = c.get('inline', False)
        cc.tail = c.get('tail', 0)
        p.calls.append(cc)
    return p


def parse_params(text):
    """'(a, b=1, /, *args, x, **kw)' -> parameter tuples"""
    import inspect
    from core import mk_param, id_of_name, KIND_NAMES
    ns = {}
    exec('def f%s: pass' % text, ns)
    out = []
    for q in inspect.signature(ns['f']).parameters.values():
        de = None if q.default is q.empty else (0 if q.default is None else q.default)
        out.append(mk_param(id_of_name(q.name), KIND_NAMES[q.kind], de))
    return out
