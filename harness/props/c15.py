"""C15 — the algebra fails only with ValueError and never yields malformed output."""
import inspect
import itertools
import warnings

from core import (universe, mk_desc, show_sig, tok_sig, tok_sigs, random_sig, id_of_name, S, PS,
                  build_sig, describe_sig, name_of, classify_exc)
from algebra import (Merge, Embed, Mask, Forwards, run_cases, ask, proj_shape, proj_params,
                     case_from_data)

LEVEL = 'proof'


def gen(ctx):
    rng = ctx.rng('gen')
    U2 = universe(2, ['a', 'b'], stars=(('args', 'kwargs'), ('a', 'b'), ('va', 'vk')))
    U3 = universe(3, ['a', 'b', 'c'])
    n = 40000 if ctx.quick else 400000
    cases = []

    def pick():
        k = rng.random()
        if k < 0.35:
            return rng.choice(U2)
        if k < 0.6:
            return rng.choice(U3)
        if k < 0.75:
            # distinct default values and annotations: plain inputs must give the same parameters
            return random_sig(rng, 'abc', 3, meta=True)
        # stars named like ordinary parameters of other signatures
        return random_sig(rng, 'abcd', 4, star_names=(('args', 'kwargs'), ('a', 'b'), ('c', 'kwargs')))
    fz = id_of_name('z')
    for _ in range(n):
        k = rng.random()
        if k < 0.3:
            cases.append(Merge([mk_desc(pick(), 100 + j) for j in range(rng.choice([2, 2, 3]))]))
        elif k < 0.55:
            cases.append(Embed([mk_desc(pick(), 100 + j) for j in range(rng.choice([2, 2, 3]))],
                               rng.random() < 0.7, rng.random() < 0.7))
        elif k < 0.8:
            ps = pick()
            names = [p[0] for p in ps] + [fz]
            r = rng.randint(0, 3)
            ns = [rng.choice(names) for _ in range(r)]      # duplicates possible
            cases.append(Mask(mk_desc(ps, 100), rng.randint(0, len(ps) + 2), ns,
                              [rng.random() < 0.25 for _ in range(4)]))
        else:
            o, i = pick(), pick()
            names = [p[0] for p in i] + [fz]
            ns = [rng.choice(names) for _ in range(rng.randint(0, 2))]
            cases.append(Forwards(mk_desc(o, 100), mk_desc(i, 101), rng.randint(0, 3), ns,
                                  rng.random() < 0.2, rng.random() < 0.2, rng.random() < 0.8,
                                  rng.random() < 0.8, rng.random() < 0.2))
    return cases


def wellformed(sig):
    """Direct inspection of the object the implementation returned."""
    if not isinstance(sig, S.UpgradedSignature):
        return 'result is %s, not an UpgradedSignature' % type(sig).__name__
    params = list(sig.parameters.values())
    for p in params:
        if not isinstance(p, S.UpgradedParameter):
            return 'parameter %s is not upgraded' % p.name
    try:
        inspect.Signature(params)      # re-validate order / duplicates / defaults
    except ValueError as e:
        return 'invalid parameter list: %s' % e
    if sum(1 for p in params if p.kind == p.VAR_POSITIONAL) > 1 or sum(1 for p in params if p.kind == p.VAR_KEYWORD) > 1:
        return 'more than one star parameter of a kind'
    if not isinstance(getattr(sig, 'sources', None), dict) or '+depths' not in sig.sources:
        return "sources has no '+depths' map"
    return None


def run_one(c, upgraded):
    """-> (kind, payload, warned)"""
    c.upgraded = upgraded
    with warnings.catch_warnings(record=True) as w:
        warnings.simplefilter('always')
        try:
            r = c.thunk()()
        except Exception as e:  # noqa: BLE001
            return ('err', classify_exc(e), any(issubclass(x.category, DeprecationWarning) for x in w))
    return ('ok', r, any(issubclass(x.category, DeprecationWarning) for x in w))


def examine(c, rc):
    """All C15 clauses for one case; returns list of (key, what)."""
    out = []
    up = run_one(c, True)
    if up[0] == 'err':
        if up[1] not in ('ValueError', 'Incompatible'):
            out.append(('C15:exception', '%s raised %s' % (c.show(), up[1])))
        elif up[1] == 'ValueError' and rc and c.op in ('merge', 'embed'):
            out.append(('C15:incompatible', '%s raised a plain ValueError for role-consistent inputs (IncompatibleSignatures expected)' % c.show()))
    else:
        wf = wellformed(up[1])
        if wf:
            out.append(('C15:malformed', '%s: %s' % (c.show(), wf)))
    if c.op in ('merge', 'embed', 'mask', 'forwards'):
        pl = run_one(c, False)
        # name, kind, default, annotation (the upgraded wrappers necessarily differ)
        a = ('err', up[1]) if up[0] == 'err' else ('ok', tuple(q[:4] for q in describe_sig(up[1])['params']))
        bb = ('err', pl[1]) if pl[0] == 'err' else ('ok', tuple(q[:4] for q in describe_sig(pl[1])['params']))
        if a != bb:
            out.append(('C15:plain', '%s: plain inspect.Signature inputs give %s, upgraded inputs give %s' % (c.show(), bb, a)))
        if not pl[2]:
            out.append(('C15:warning', '%s: no DeprecationWarning for plain inspect.Signature inputs' % c.show()))
        if pl[0] == 'ok':
            wf = wellformed(pl[1])
            if wf:
                out.append(('C15:malformed', '%s (plain inputs): %s' % (c.show(), wf)))
    c.upgraded = True
    return out


def run(ctx, rep):
    cases = gen(ctx)
    rep.rule = ('random merge/embed (2-3 inputs), mask (duplicate and foreign names, n up to len+2, random hide flags) and forwards cases over '
                'U(2) with stars named like ordinary parameters, U(3) and random 4-name signatures; each also with plain inspect.Signature inputs; '
                'non-trivial = raises, or result differs from first input')
    tr = run_cases(cases)
    rep.evaluations = len(tr)
    rcs = ask([('rolecons ' + tok_sigs(c.ds)) if c.op in ('merge', 'embed') else 'rolecons 0' for c in cases])
    hist = {}
    for (c, m, i), rc in zip(tr, rcs):
        if (m[0], m[1] if m[0] == 'err' else None) != (i[0], i[1] if i[0] == 'err' else None):
            rep.corr_break('error class', c.show(), str(m[:2] if m[0] == 'err' else 'ok'), str(i[:2] if i[0] == 'err' else 'ok'))
        elif proj_params(m) != proj_params(i):
            rep.corr_break('parameters', c.show(), str(proj_params(m)), str(proj_params(i)))
        k = c.op + ':' + (i[1] if i[0] == 'err' else 'ok')
        hist[k] = hist.get(k, 0) + 1
        if i[0] == 'err' or proj_shape(i) != proj_shape(('ok', (c.ds[0] if hasattr(c, 'ds') else getattr(c, 'd', None) or c.o))):
            rep.distinct.add(c.request())
        for key, what in examine(c, rc == 'T'):
            rep.violation(key, what, dict(c.data(), kind='examine', rc=(rc == 'T')))
    rep.coverage['outcome_histogram'] = hist
    nret = retrieval_fallback(ctx, rep)
    rep.coverage['retrieval_fallback_wrappers'] = nret
    rep.evaluations += nret
    for c, m, i in tr[:5]:
        rep.sample({'case': c.show(), 'impl': show_sig(i[1]) if i[0] == 'ok' else i[1]})


RET_SRC = '''def c1(%s):
    return None
def c2(%s):
    return None
def wrapper(flag, *args, **kwargs):
    if flag:
        return c1(*args, **kwargs)
    return c2(*args, **kwargs)
'''


def retrieval_one(src):
    """signature retrieval turns failures of the algebra into its fallback"""
    import sigtools
    import programs as PG
    ns = PG.load_module(src, tag='c15')
    try:
        try:
            with warnings.catch_warnings():
                warnings.simplefilter('ignore')
                sigtools.signature(ns['wrapper'])
        except Exception as e:  # noqa: BLE001
            return '%s: %s' % (type(e).__name__, str(e)[:120])
        return None
    finally:
        PG.unload(ns)


def retrieval_fallback(ctx, rep):
    """wrappers forwarding to two callees on different branches, including callees that
    use one name in different roles (the merge then fails in the final constructor
    with a plain ValueError, or with IncompatibleSignatures): retrieval must fall back"""
    import programs as PG
    rng = ctx.rng('retrieval')
    U = universe(2, ['x', 'y'])
    n = 400 if ctx.quick else 5000
    cnt = 0
    for _ in range(n):
        a = rng.choice(U)
        if rng.random() < 0.6:
            # same names, other order / other kinds: role-inconsistent on purpose
            names = [q[0] for q in a if q[1] in ('PO', 'PK', 'KO')]
            cands = [u for u in U if sorted(q[0] for q in u if q[1] in ('PO', 'PK', 'KO')) == sorted(names) and u != a]
            b = rng.choice(cands) if cands else rng.choice(U)
        else:
            b = rng.choice(U)
        src = RET_SRC % (PG.param_list_src(a), PG.param_list_src(b))
        cnt += 1
        bad = retrieval_one(src)
        if bad:
            rep.violation('C15:retrieval-fallback',
                          'sigtools.signature(wrapper) raised %s instead of falling back\n%s' % (bad, src),
                          {'kind': 'retrieval', 'source': src})
    return cnt


def replay(ctx, data):
    r = data['replay']
    if r.get('kind') == 'retrieval':
        bad = retrieval_one(r['source'])
        return ('sigtools.signature(wrapper) raised %s' % bad) if bad else None
    c = case_from_data(r)
    res = examine(c, r.get('rc', False))
    return res[0][1] if res else None
