"""C15 — the algebra fails only with ValueError and never yields malformed output."""
import inspect
import itertools
import warnings

from core import (universe, mk_desc, show_sig, tok_sig, tok_sigs, random_sig, id_of_name, S, PS,
                  build_sig, describe_sig, name_of, classify_exc)
from algebra import (Merge, Embed, Mask, Forwards, run_cases, ask, proj_shape, proj_params,
                     case_from_data)

LEVEL = 'proof'


def gen(ctx):
    rng = ctx.rng('gen')
    U2 = universe(2, ['a', 'b'], stars=(('args', 'kwargs'), ('a', 'b'), ('va', 'vk')))
    U3 = universe(3, ['a', 'b', 'c'])
    n = 40000 if ctx.quick else 400000
    cases = []

    def pick():
        k = rng.random()
        if k < 0.35:
            return rng.choice(U2)
        if k < 0.6:
            return rng.choice(U3)
        if k < 0.75:
            # distinct default values and annotations: plain inputs must give the same parameters
            return random_sig(rng, 'abc', 3, meta=True)
        # stars named like ordinary parameters of other signatures
        return random_sig(rng, 'abcd', 4, star_names=(('args', 'kwargs'), ('a', 'b'), ('c', 'kwargs')))
    fz = id_of_name('z')
    # unary calls: merge(s) and embed(s) still go through classification, the upgrade path,
    # the validating constructor and the copy of the provenance map (mask is unary by nature)
    for _ in range(n // 10):
        ps = pick()
        d = mk_desc(ps, rng.choice([100, 100, None]))     # None: no provenance at all
        if rng.random() < 0.5:
            cases.append(Merge([d]))
        else:
            cases.append(Embed([d], rng.random() < 0.7, rng.random() < 0.7))
    for _ in range(n):
        k = rng.random()
        if k < 0.3:
            cases.append(Merge([mk_desc(pick(), 100 + j) for j in range(rng.choice([2, 2, 3]))]))
        elif k < 0.5:
            cases.append(Embed([mk_desc(pick(), 100 + j) for j in range(rng.choice([2, 2, 3]))],
                               rng.random() < 0.7, rng.random() < 0.7))
        elif k < 0.55:
            # three signatures, the LAST one declaring again (same kind, same index) leading
            # positional parameters of the FIRST, with an unrelated one in between: the name clash
            # must be reported as IncompatibleSignatures at whichever fold step meets it
            a = pick()
            pos = [q for q in a if q[1] in ('PO', 'PK')]
            if not pos:
                cases.append(Embed([mk_desc(pick(), 100 + j) for j in range(3)], True, True))
            else:
                last = list(pos[:rng.randint(1, len(pos))])
                mid = random_sig(rng, 'efg', 3, star_names=(('args', 'kwargs'),))
                cases.append(Embed([mk_desc(a, 100), mk_desc(mid, 101), mk_desc(last, 102)],
                                   rng.random() < 0.85, rng.random() < 0.85))
        elif k < 0.8:
            ps = pick()
            # foreign names include a key the provenance map uses for its own bookkeeping ('+depths' is a
            # legal keyword: f(**{'+depths': 1})) and another string that is not an identifier
            names = [p[0] for p in ps] + [fz, id_of_name('+depths'), id_of_name('not-an-identifier')]
            r = rng.randint(0, 3)
            ns = [rng.choice(names) for _ in range(r)]      # duplicates possible
            cases.append(Mask(mk_desc(ps, 100), rng.randint(0, len(ps) + 2), ns,
                              [rng.random() < 0.25 for _ in range(4)]))
        else:
            o, i = pick(), pick()
            names = [p[0] for p in i] + [fz, id_of_name('+depths')]
            ns = [rng.choice(names) for _ in range(rng.randint(0, 2))]
            cases.append(Forwards(mk_desc(o, 100), mk_desc(i, 101), rng.randint(0, 3), ns,
                                  rng.random() < 0.2, rng.random() < 0.2, rng.random() < 0.8,
                                  rng.random() < 0.8, rng.random() < 0.2))
    return cases


def wellformed(sig):
    """Direct inspection of the object the implementation returned."""
    if not isinstance(sig, S.UpgradedSignature):
        return 'result is %s, not an UpgradedSignature' % type(sig).__name__
    params = list(sig.parameters.values())
    for p in params:
        if not isinstance(p, S.UpgradedParameter):
            return 'parameter %s is not upgraded' % p.name
    try:
        inspect.Signature(params)      # re-validate order / duplicates / defaults
    except ValueError as e:
        return 'invalid parameter list: %s' % e
    if sum(1 for p in params if p.kind == p.VAR_POSITIONAL) > 1 or sum(1 for p in params if p.kind == p.VAR_KEYWORD) > 1:
        return 'more than one star parameter of a kind'
    if not isinstance(getattr(sig, 'sources', None), dict) or '+depths' not in sig.sources:
        return "sources has no '+depths' map"
    return None


def run_one(c, upgraded):
    """-> (kind, payload, warned)"""
    c.upgraded = upgraded
    with warnings.catch_warnings(record=True) as w:
        warnings.simplefilter('always')
        try:
            r = c.thunk()()
        except Exception as e:  # noqa: BLE001
            return ('err', classify_exc(e), any(issubclass(x.category, DeprecationWarning) for x in w))
    return ('ok', r, any(issubclass(x.category, DeprecationWarning) for x in w))


# ---------------------------------------------------------------- input forms
# 'U' the fully upgraded signature with a complete provenance map (what retrieval returns)
# 'P' a plain inspect.Signature
# 'H' an UpgradedSignature built by hand from upgraded parameters: its provenance map is the
#     constructor's default, {} (no '+depths')
# 'N' built by hand with a provenance map that names the parameters but has no '+depths'
FORMS = 'UPHN'


def build_form(d, form):
    if form == 'U':
        return build_sig(d, True)
    if form == 'P':
        return build_sig(d, False)
    full = build_sig(d, True)
    kw = {}
    if form == 'N':
        kw['sources'] = {k: list(v) for k, v in full.sources.items() if k != '+depths'}
    return S.UpgradedSignature(list(full.parameters.values()),
                               return_annotation=full.return_annotation,
                               upgraded_return_annotation=full.upgraded_return_annotation, **kw)


def case_inputs(c):
    if c.op in ('merge', 'embed'):
        return list(c.ds)
    if c.op == 'mask':
        return [c.d]
    return [c.o, c.i]


def call_forms(c, forms):
    """The public operation of case c on inputs built in the given forms (one letter each)."""
    sigs = [build_form(d, f) for d, f in zip(case_inputs(c), forms)]
    if c.op == 'merge':
        return PS.merge(*sigs)
    if c.op == 'embed':
        return PS.embed(*sigs, use_varargs=c.uva, use_varkwargs=c.uvk)
    if c.op == 'mask':
        ha, hk, hva, hvk = c.flags
        return PS.mask(sigs[0], c.n, *[name_of(k) for k in c.names], hide_args=ha,
                       hide_kwargs=hk, hide_varargs=hva, hide_varkwargs=hvk)
    return PS.forwards(sigs[0], sigs[1], c.n, *[name_of(k) for k in c.names],
                       hide_args=c.ha, hide_kwargs=c.hk, use_varargs=c.uva,
                       use_varkwargs=c.uvk, partial=c.partial)


def run_forms(c, forms):
    """-> (kind, payload, warned)"""
    with warnings.catch_warnings(record=True) as w:
        warnings.simplefilter('always')
        try:
            sigs_r = call_forms(c, forms)
        except Exception as e:  # noqa: BLE001
            return ('err', classify_exc(e), any(issubclass(x.category, DeprecationWarning) for x in w))
    return ('ok', sigs_r, any(issubclass(x.category, DeprecationWarning) for x in w))


def pick_forms(c, rng):
    """Two further form vectors for a case: all hand-built (H or N), and a random mix with at
    least one input that is not fully upgraded."""
    n = len(case_inputs(c))
    hand = ''.join(rng.choice('HHN') for _ in range(n))
    while True:
        mix = ''.join(rng.choice(FORMS) for _ in range(n))
        if mix != 'U' * n:
            break
    return [hand, mix]


def examine_forms(c, rc, up, forms):
    """The clauses of C15 for inputs in other forms than all-upgraded / all-plain; `up` is the
    outcome for fully upgraded inputs."""
    out = []
    label = '%s with inputs built as %s (U upgraded, P plain inspect.Signature, H hand-built UpgradedSignature without sources, N hand-built with sources lacking \'+depths\')' % (c.show(), forms)
    # building hand-made inputs from upgraded parameters emits nothing; only the operation is observed
    r = run_forms(c, forms)
    if r[0] == 'err':
        if r[1] not in ('ValueError', 'Incompatible'):
            out.append(('C15:exception', '%s raised %s' % (label, r[1])))
        elif r[1] == 'ValueError' and rc and c.op in ('merge', 'embed'):
            out.append(('C15:incompatible', '%s raised a plain ValueError for role-consistent inputs (IncompatibleSignatures expected)' % label))
    else:
        wf = wellformed(r[1])
        if wf:
            out.append(('C15:malformed', '%s: %s' % (label, wf)))
    if 'P' in forms:
        a = ('err', up[1]) if up[0] == 'err' else ('ok', tuple(q[:4] for q in describe_sig(up[1])['params']))
        bb = ('err', r[1]) if r[0] == 'err' else ('ok', tuple(q[:4] for q in describe_sig(r[1])['params']))
        if a != bb:
            out.append(('C15:plain', '%s gives %s, upgraded inputs give %s' % (label, bb, a)))
        # an operation that raises may do so before it looks at the plain input
        if not r[2] and (r[0] == 'ok' or set(forms) == {'P'}):
            out.append(('C15:warning', '%s: no DeprecationWarning although an input is a plain inspect.Signature' % label))
    return out, r


def examine(c, rc, forms=(), mism=None):
    """All C15 clauses for one case; returns list of (key, what).  `forms`: further input-form
    vectors (see FORMS); `mism` collects (forms, upgraded outcome, outcome) when inputs that
    are all upgraded objects give other parameters than the fully upgraded ones."""
    out = []
    up = run_one(c, True)
    if up[0] == 'err':
        if up[1] not in ('ValueError', 'Incompatible'):
            out.append(('C15:exception', '%s raised %s' % (c.show(), up[1])))
        elif up[1] == 'ValueError' and rc and c.op in ('merge', 'embed'):
            out.append(('C15:incompatible', '%s raised a plain ValueError for role-consistent inputs (IncompatibleSignatures expected)' % c.show()))
    else:
        wf = wellformed(up[1])
        if wf:
            out.append(('C15:malformed', '%s: %s' % (c.show(), wf)))
    if c.op in ('merge', 'embed', 'mask', 'forwards'):
        pl = run_one(c, False)
        # name, kind, default, annotation (the upgraded wrappers necessarily differ)
        a = ('err', up[1]) if up[0] == 'err' else ('ok', tuple(q[:4] for q in describe_sig(up[1])['params']))
        bb = ('err', pl[1]) if pl[0] == 'err' else ('ok', tuple(q[:4] for q in describe_sig(pl[1])['params']))
        if a != bb:
            out.append(('C15:plain', '%s: plain inspect.Signature inputs give %s, upgraded inputs give %s' % (c.show(), bb, a)))
        if not pl[2]:
            out.append(('C15:warning', '%s: no DeprecationWarning for plain inspect.Signature inputs' % c.show()))
        if pl[0] == 'ok':
            wf = wellformed(pl[1])
            if wf:
                out.append(('C15:malformed', '%s (plain inputs): %s' % (c.show(), wf)))
    c.upgraded = True
    for fv in forms:
        more, r = examine_forms(c, rc, up, fv)
        out.extend(more)
        if mism is not None and 'P' not in fv:
            a = ('err', up[1]) if up[0] == 'err' else ('ok', tuple(describe_sig(up[1])['params']))
            bb = ('err', r[1]) if r[0] == 'err' else ('ok', tuple(describe_sig(r[1])['params']))
            if a != bb:
                mism.append((fv, a, bb))
    return out


def run(ctx, rep):
    cases = gen(ctx)
    rep.rule = ('random merge/embed (1-3 inputs; unary calls with and without provenance), mask (duplicate and foreign names, n up to len+2, random hide flags) and forwards cases over '
                'U(2) with stars named like ordinary parameters, U(3) and random 4-name signatures; each also with plain inspect.Signature inputs, with hand-built UpgradedSignature inputs (no sources / sources without +depths) and with a random mix of the forms; '
                'non-trivial = raises, or result differs from first input')
    tr = run_cases(cases)
    rep.evaluations = len(tr)
    rcs = ask([('rolecons ' + tok_sigs(c.ds)) if c.op in ('merge', 'embed') else 'rolecons 0' for c in cases])
    hist = {}
    fhist = {}
    frng = ctx.rng('forms')
    for (c, m, i), rc in zip(tr, rcs):
        if (m[0], m[1] if m[0] == 'err' else None) != (i[0], i[1] if i[0] == 'err' else None):
            rep.corr_break('error class', c.show(), str(m[:2] if m[0] == 'err' else 'ok'), str(i[:2] if i[0] == 'err' else 'ok'))
        elif proj_params(m) != proj_params(i):
            rep.corr_break('parameters', c.show(), str(proj_params(m)), str(proj_params(i)))
        k = c.op + ':' + (i[1] if i[0] == 'err' else 'ok')
        hist[k] = hist.get(k, 0) + 1
        if i[0] == 'err' or proj_shape(i) != proj_shape(('ok', (c.ds[0] if hasattr(c, 'ds') else getattr(c, 'd', None) or c.o))):
            rep.distinct.add(c.request())
        forms = pick_forms(c, frng)
        for fv in forms:
            fk = '%s/%d:%s' % (c.op, len(fv), ''.join(sorted(set(fv))))
            fhist[fk] = fhist.get(fk, 0) + 1
        mism = []
        for key, what in examine(c, rc == 'T', forms, mism):
            rep.violation(key, what, dict(c.data(), kind='examine', rc=(rc == 'T'), forms=forms))
        for fv, a, bb in mism:
            # not a clause of C15, but the model has no notion of the form of an input: the
            # parameters it predicts hold for every form
            rep.corr_break('parameters independent of the form of upgraded inputs',
                           '%s inputs built as %s' % (c.show(), fv), str(a), str(bb))
    rep.coverage['outcome_histogram'] = hist
    rep.coverage['input_forms_histogram'] = fhist
    nret = retrieval_fallback(ctx, rep)
    rep.coverage['retrieval_fallback_wrappers'] = nret
    rep.evaluations += nret
    for c, m, i in tr[:5]:
        rep.sample({'case': c.show(), 'impl': show_sig(i[1]) if i[0] == 'ok' else i[1]})


RET_SRC = '''def c1(%s):
    return None
def c2(%s):
    return None
def wrapper(flag, *args, **kwargs):
    if flag:
        return c1(*args, **kwargs)
    return c2(*args, **kwargs)
'''


def retrieval_one(src):
    """signature retrieval turns failures of the algebra into its fallback"""
    import sigtools
    import programs as PG
    ns = PG.load_module(src, tag='c15')
    try:
        try:
            with warnings.catch_warnings():
                warnings.simplefilter('ignore')
                sigtools.signature(ns['wrapper'])
        except Exception as e:  # noqa: BLE001
            return '%s: %s' % (type(e).__name__, str(e)[:120])
        return None
    finally:
        PG.unload(ns)


def retrieval_fallback(ctx, rep):
    """wrappers forwarding to two callees on different branches, including callees that
    use one name in different roles (the merge then fails in the final constructor
    with a plain ValueError, or with IncompatibleSignatures): retrieval must fall back"""
    import programs as PG
    rng = ctx.rng('retrieval')
    U = universe(2, ['x', 'y'])
    n = 400 if ctx.quick else 5000
    cnt = 0
    for _ in range(n):
        a = rng.choice(U)
        if rng.random() < 0.6:
            # same names, other order / other kinds: role-inconsistent on purpose
            names = [q[0] for q in a if q[1] in ('PO', 'PK', 'KO')]
            cands = [u for u in U if sorted(q[0] for q in u if q[1] in ('PO', 'PK', 'KO')) == sorted(names) and u != a]
            b = rng.choice(cands) if cands else rng.choice(U)
        else:
            b = rng.choice(U)
        src = RET_SRC % (PG.param_list_src(a), PG.param_list_src(b))
        cnt += 1
        bad = retrieval_one(src)
        if bad:
            rep.violation('C15:retrieval-fallback',
                          'sigtools.signature(wrapper) raised %s instead of falling back\n%s' % (bad, src),
                          {'kind': 'retrieval', 'source': src})
    return cnt


def replay(ctx, data):
    r = data['replay']
    if r.get('kind') == 'retrieval':
        bad = retrieval_one(r['source'])
        return ('sigtools.signature(wrapper) raised %s' % bad) if bad else None
    c = case_from_data(r)
    res = examine(c, r.get('rc', False), r.get('forms', ()))
    return res[0][1] if res else None
