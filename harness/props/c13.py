"""C13 — wrappers.decorator / wrapper_decorator / Combination are call-transparent.

Differential execution of GENERATED programs (source text, kept for replay):
decorator functions  def w(func, <own params>, *args, **kwargs)  built with
wrappers.decorator or wrappers.wrapper_decorator, stacked 1..3 deep over a
function of the universe, placed as function / method / staticmethod /
classmethod; Combination of 1..3 functions.  For every call shape:

 (a) result or exception == the hand-written composition's (really executed)
 (b) calls accepted by sigtools.signature(obj) / inspect.signature(obj) (bind
     succeeds, non-colliding) execute without an argument-binding TypeError
 (c) bound-method signature = unbound signature minus the first parameter
 (d) wrappers.wrappers(obj) is the list of wrapping functions, outermost first
 (e) the model's signature (Model/Wrappers.v sig_of; evaluated step by step by
     the extracted driver for every object and inside Coq for a sample, which
     also evaluates the model's result terms, `get` and `wrappers`) equals the
     implementation's.

Histories: a class may be a value class (all instances ==, same hash); the member
is then looked up on INST, on a distinct equal INST2, and on INST again, and every
result is compared with the composition run on THAT instance (identity, not ==).
The decorated callable may be an INSTANCE with __call__ (function placement; ordinary, value object
with/without __hash__, dataclass): calls, wrappers() and the advertised signature are those of the same
stack over a plain function with the same parameters (twin built in the program).  Unhashable instances:
signature retrieval fails on the unchanged tree, reported under C13:unhashable-callable-signature.
A stack may use the same wrapping function in adjacent layers (the same decorator
object applied twice, or two decorators built from one raw function).
"""
import inspect
import itertools
import linecache
import os
import subprocess
import types
import warnings

from core import (universe, mk_desc, mk_param, id_of_name, name_of, show_sig, show_call,
                  tok_sig, tok_sigs, tok_names, parse_result, describe_sig, shape_of, DRIVER)
from algebra import def_source

ARG = id_of_name('arg')      # must be 17: Model/Wrappers.v n_arg
FUNC = id_of_name('func')
import sigtools  # noqa: E402
from sigtools import wrappers as W  # noqa: E402
import coqrun  # noqa: E402

LEVEL = 'proof'
ARGS, KWARGS, SELF = id_of_name('args'), id_of_name('kwargs'), id_of_name('self')
XN, YN, ZN, HN = id_of_name('x'), id_of_name('y'), id_of_name('z'), id_of_name('h')
AN, BN, CN = id_of_name('a'), id_of_name('b'), id_of_name('c')
CLS = id_of_name('cls')
INST_VAL, CLS_VAL = 77, 88
INST2_VAL = 78

KEY_SELF = 'C13:self-collision'
KEY_COMB_INSPECT = 'C13:combination-inspect'
KEY_SELF_KW = 'C13:self-keyword'
# the decorated callable is an UNHASHABLE object (an instance with __call__ whose class defines
# __eq__ without __hash__, e.g. a dataclass): signature retrieval of the decorated object raises
# TypeError('unhashable type') or degrades to the generic fallback on the unchanged tree.  Calls
# and wrappers.wrappers() are judged as for every other callable (C13:compose / C13:wrappers).
KEY_UNHASH = 'C13:unhashable-callable-signature'
DEFERRED = []
SELF_KW_MSG = "__call__() got multiple values for argument 'self'"
FALLBACKS = [0]


# ---------------------------------------------------------------- driver session
class Driver(object):
    """One persistent process of the extracted model; answers are memoised."""

    def __init__(self):
        self.p = None
        self.memo = {}
        self.n = 0

    def ask(self, line):
        if line in self.memo:
            return self.memo[line]
        if self.p is None:
            self.p = subprocess.Popen([DRIVER], stdin=subprocess.PIPE, stdout=subprocess.PIPE,
                                      universal_newlines=True, bufsize=1)
        self.p.stdin.write(line + '\n')
        self.p.stdin.flush()
        ans = self.p.stdout.readline().rstrip('\n')
        if ans.startswith('PARSE-ERROR') or ans.startswith('DRIVER-ERROR') or ans == '':
            raise RuntimeError('driver: %r for %r' % (ans, line[:200]))
        self.n += 1
        self.memo[line] = ans
        return ans

    def close(self):
        if self.p is not None:
            try:
                self.p.stdin.close()
                self.p.wait(timeout=5)
            except Exception:  # noqa: BLE001
                self.p.kill()
            self.p = None


DRV = Driver()


def cleanup(ctx):
    DRV.close()


def m_res(line):
    return parse_result(DRV.ask(line))


def m_forwards(o, i, n, names):
    return m_res('forwards %s %s %d %s 0 0 1 1 0' % (tok_sig(o), tok_sig(i), n, tok_names(names)))


def m_partial(s, n, pobj):
    return m_res('partial %s %d 0 %d' % (tok_sig(s), n, pobj))


def m_merge(ds):
    return m_res('merge ' + tok_sigs(ds))


def m_mask1(s):
    return m_res('mask %s 1 0 0 0 0 0' % tok_sig(s))


def plain_desc(params):
    return mk_desc(params, None)


CALL_SIG = plain_desc([mk_param(SELF, 'PK'), mk_param(ARGS, 'VP'), mk_param(KWARGS, 'VK')])
COMB_SELF = plain_desc([mk_param(ARG, 'PK'), mk_param(ARGS, 'VP'), mk_param(KWARGS, 'VK')])


# ---------------------------------------------------------------- the model, mirrored over driver operations
# objects (the same constructors as Model/Wrappers.v obj):
#   ('plain', fid, params, raises) | ('deco', flavour, n, names, wid, wparams, wbody, x)
#   | ('comb', [members]) | ('static', x) | ('classm', x) | ('bound', x)
# wbody = (own params, n, names, mode)
def m_get(o, inst):
    """Model/Wrappers.v get; inst: True = access on an instance, False = on the class"""
    k = o[0]
    if k in ('plain', 'fwd'):
        return ('bound', o, 'inst') if inst else o
    if k == 'deco':
        return o[:7] + (m_get(o[7], inst),)
    if k == 'static':
        return o[1]
    if k == 'classm':
        x = o[1]
        if x[0] in ('plain', 'fwd'):
            return ('bound', x, 'cls')
        if x[0] == 'comb':
            return ('bound', x, 'cls')
        return m_get_cls(x)
    return o


def m_get_cls(o):
    """get o (Some cls) cls"""
    k = o[0]
    if k in ('plain', 'fwd'):
        return ('bound', o, 'cls')
    if k == 'deco':
        return o[:7] + (m_get_cls(o[7]),)
    if k == 'static':
        return o[1]
    if k == 'classm':
        return m_get(o, True)
    return o


def m_sig(o):
    """Model/Wrappers.v sig_of  -> ('ok', desc) | ('err', class) | ('crash', why)"""
    k = o[0]
    if k == 'plain':
        return ('ok', plain_desc(o[2]))
    if k == 'fwd':
        # ('fwd', fid, declared, outer params, n, x): Model/Wrappers.v Fwd
        _, fid, declared, oparams, n, x = o
        xs = m_sig(x)
        if declared:
            if xs[0] != 'ok':
                return xs
            return m_forwards(plain_desc(oparams), xs[1], n, [])
        if xs[0] == 'crash':
            return xs
        r = xs
        if r[0] == 'ok':
            r = m_forwards(plain_desc(oparams), xs[1], n, [])
        if r[0] == 'ok':
            r = m_merge([r[1]])
        if r[0] == 'ok':
            return r
        FALLBACKS[0] += 1
        return ('ok', plain_desc(oparams))
    if k == 'static':
        return m_sig(o[1])
    if k == 'classm':
        return ('err', 'Other2')
    if k == 'bound':
        xs = m_sig(o[1])
        if xs[0] != 'ok':
            return xs
        return m_mask1(xs[1])
    if k == 'comb':
        ss = []
        for f in o[1]:
            r = m_sig(f)
            if r[0] != 'ok':
                return r
            ss.append(r[1])
        return m_merge([COMB_SELF] + ss)
    _, flavour, n, names, wid, wparams, wbody, x = o
    wsig = plain_desc(wparams)
    xs = m_sig(x)
    if flavour == 'declared':
        q = m_partial(wsig, 1, wid)
        if q[0] != 'ok':
            return q
        if xs[0] != 'ok':
            return xs
        return m_forwards(q[1], xs[1], n, names)
    if xs[0] == 'crash':
        return xs
    q = ('err', 'none')
    if xs[0] == 'ok':
        p = m_forwards(wsig, xs[1], n, names)
        if p[0] == 'ok':
            p = m_merge([p[1]])
        if p[0] == 'ok':
            q = m_partial(p[1], 1, wid)
    if q[0] != 'ok':
        FALLBACKS[0] += 1          # discovery gave up: the documented generic signature
        q = m_partial(wsig, 1, wid)
    r = q
    if r[0] == 'ok':
        r = m_forwards(CALL_SIG, q[1], 0, [])
    if r[0] == 'ok':
        r = m_merge([r[1]])
    if r[0] == 'ok':
        r = m_mask1(r[1])
    if r[0] == 'ok':
        return r
    has_self = q[0] == 'ok' and any(p[0] == SELF for p in q[1]['params'])
    return ('crash', 'self' if has_self else 'other')


def m_inspect_sig(o):
    if o[0] == 'comb':
        return ('ok', COMB_SELF)
    return m_sig(o)


def m_wrappers(o):
    out = []
    while o[0] == 'deco':
        out.append(o[4])
        o = o[7]
    return out


def input_names(o):
    """names of every signature that takes part"""
    k = o[0]
    if k == 'plain':
        return {p[0] for p in o[2]}
    if k == 'fwd':
        return {p[0] for p in o[3]} | input_names(o[5])
    if k == 'deco':
        return {p[0] for p in o[5]} | input_names(o[7])
    if k == 'comb':
        s = {ARG, ARGS, KWARGS}
        for f in o[1]:
            s |= input_names(f)
        return s
    return input_names(o[1])


def fwd_inners(o):
    """signatures of the functions that forwarding functions inside o hand their arguments to"""
    k = o[0]
    if k == 'plain':
        return []
    if k == 'fwd':
        return leaf_sigs(o[5]) + fwd_inners(o[5])
    if k == 'deco':
        return fwd_inners(o[7])
    if k == 'comb':
        return [d for f in o[1] for d in fwd_inners(f)]
    return fwd_inners(o[1])


def leaf_sigs(o):
    k = o[0]
    if k == 'plain':
        return [plain_desc(o[2])]
    if k == 'fwd':
        return [plain_desc(o[3])] + leaf_sigs(o[5])
    if k == 'deco':
        return [plain_desc(o[5])] + leaf_sigs(o[7])
    if k == 'comb':
        return [s for f in o[1] for s in leaf_sigs(f)]
    return leaf_sigs(o[1])


# ---------------------------------------------------------------- program generation
def params_src(params):
    src = def_source({'params': params}, 'f')
    return src[src.index('(') + 1: src.rindex('):')]


def distinct_defaults(params):
    """default value 300+name instead of the universe's constant 1"""
    return [(nm, k, None if de is None else 300 + nm, an, ua) for nm, k, de, an, ua in params]


def wrapper_params(own):
    pos = [p for p in own if p[1] in ('PO', 'PK')]
    ko = [p for p in own if p[1] == 'KO']
    has_po = any(p[1] == 'PO' for p in own)
    return ([mk_param(FUNC, 'PO' if has_po else 'PK')] + pos + [mk_param(ARGS, 'VP')] + ko
            + [mk_param(KWARGS, 'VK')])


def lit_pos(i):
    return 901 + i


def lit_kw(k):
    return 950 + k


def layer_wid(i, layer):
    """index of the raw wrapping function used by layer i (1-based): its own, unless the layer
    re-uses the function of a layer above it (the same function in adjacent layers)"""
    return layer.get('reuse') or i


def wrapper_src(i, layer):
    own, n, names, mode = layer['own'], layer['n'], layer['names'], layer['mode']
    j = layer.get('reuse')
    if j:
        # the SAME wrapping function as layer j: either the very same decorator object applied
        # twice, or a second decorator (possibly of the other flavour) made from the same function
        head = 'w%d_raw = w%d_raw\n' % (i, j)
        if layer.get('sameobj'):
            return head + 'w%d = w%d\n' % (i, j)
        if layer['flavour'] == 'simple':
            return head + 'w%d = wrappers.decorator(w%d_raw)\n' % (i, j)
        if n or names:
            da = ', '.join([str(n)] + [repr(name_of(k)) for k in names])
            return head + 'w%d = wrappers.wrapper_decorator(%s)(w%d_raw)\n' % (i, da, j)
        return head + 'w%d = wrappers.wrapper_decorator(w%d_raw)\n' % (i, j)
    parts = [str(lit_pos(j)) for j in range(n)] + ['*args']
    parts += ['%s=%d' % (name_of(k), lit_kw(k)) for k in names] + ['**kwargs']
    callee = 'func(%s)' % ', '.join(parts)
    ret = "('w%d', %s)" % (i, ', '.join([name_of(p[0]) for p in own] + [callee]))
    head = 'def w%d_raw(%s):\n' % (i, params_src(wrapper_params(own)))
    if mode == 'ret':
        body = '    return %s\n' % ret
    elif mode == 'before':
        body = "    raise LookupError('w%d')\n    return %s\n" % (i, ret)
    else:
        body = "    r = %s\n    raise LookupError('w%d')\n" % (callee, i)
    if layer['flavour'] == 'simple':
        deco = 'w%d = wrappers.decorator(w%d_raw)\n' % (i, i)
    elif n or names:
        da = ', '.join([str(n)] + [repr(name_of(k)) for k in names])
        deco = 'w%d = wrappers.wrapper_decorator(%s)(w%d_raw)\n' % (i, da, i)
    else:
        deco = 'w%d = wrappers.wrapper_decorator(w%d_raw)\n' % (i, i)
    return head + body + deco


def func_src(name, tag, params, raises):
    # named parameters in order, then the star parameters (Model/Wrappers.v def_behaviour)
    names = ([name_of(p[0]) for p in params if p[1] in ('PO', 'PK', 'KO')]
             + [name_of(p[0]) for p in params if p[1] == 'VP']
             + [name_of(p[0]) for p in params if p[1] == 'VK'])
    if raises:
        body = "    raise LookupError(%r)\n" % tag
    else:
        body = '    return (%s,)\n' % ', '.join([repr(tag)] + names)
    return 'def %s(%s):\n%s' % (name, params_src(params), body)


# The decorated callable as an object with __call__ instead of a function.  Its class may say
# anything about equality and hashing: a decorated callable is never required to be hashable
# or to compare by identity.
FOBJ_KINDS = {
    'plain': 'an ordinary instance (hashable by identity)',
    'eq-nohash': 'a value object: __eq__ without __hash__ (unhashable)',
    'dataclass': 'a dataclass instance (eq=True: unhashable)',
    'eq-hash': 'a value object: all instances equal with equal hashes',
}
FOBJ_ORDER = ['plain', 'eq-nohash', 'dataclass', 'eq-hash']


def fobj_src(name, tag, params, raises, kind):
    call = func_src('__call__', tag, params, raises).replace('def __call__(', 'def __call__(_s, ', 1)
    call = ''.join('    ' + l for l in call.splitlines(True))
    head = 'class _FObj(object):\n'
    extra = ''
    if kind == 'eq-nohash':
        extra = ('    def __init__(self, v=0):\n        self.v = v\n'
                 '    def __eq__(self, other):\n        return isinstance(other, _FObj) and other.v == self.v\n')
    elif kind == 'dataclass':
        head = 'import dataclasses\n@dataclasses.dataclass\nclass _FObj(object):\n'
        extra = '    v: int = 0\n'
    elif kind == 'eq-hash':
        extra = ('    def __eq__(self, other):\n        return isinstance(other, _FObj)\n'
                 '    def __hash__(self):\n        return 7\n')
    elif kind != 'plain':
        raise KeyError(kind)
    return '%s%s%s%s = _FObj()\n' % (head, extra, call, name)


def fobj_spec(spec, kind):
    """a generated stack spec turned into: function placement, the decorated callable is an
    instance of the given kind"""
    spec = dict(spec, placement='function', first=None, fobj=kind)
    spec.pop('fform', None)
    spec.pop('insts', None)
    if spec.get('fsig') == 'annotate':
        spec.pop('fsig')
        spec.pop('fsig_name', None)
    return spec


FWD_OUTER = None


def fwd_outer():
    return [mk_param(ZN, 'PK'), mk_param(ARGS, 'VP'), mk_param(KWARGS, 'VK')]


def fwd_src(name, inner_name, declared):
    """a function whose effective signature only sigtools knows"""
    deco = '@specifiers.forwards_to_function(%s, 1)\n' % inner_name if declared else ''
    return '%sdef %s(z, *args, **kwargs):\n    return %s(z, *args, **kwargs)\n' % (deco, name, inner_name)


def kwo_convert(params):
    """modifiers.kwoargs(<last positional-or-keyword parameter>): -> (name, effective params) or None"""
    pos = [p for p in params if p[1] in ('PO', 'PK')]
    if len(pos) < 2 or pos[-1][1] != 'PK' or any(p[1] == 'VP' for p in params):
        return None
    last = pos[-1]
    out = [p for p in params if p is not last and p[1] in ('PO', 'PK')]
    out.append((last[0], 'KO', last[2], last[3], last[4]))
    out += [p for p in params if p[1] == 'KO']
    out += [p for p in params if p[1] == 'VK']
    return last[0], out


def ref_expr(depth, base):
    """w1_raw(lambda *a1, **k1: w2_raw(base, *a1, **k1), *args, **kwargs)"""
    def mk(i, a, k):
        if i > depth:
            return None
        if i == depth:
            return 'w%d_raw(%s, *%s, **%s)' % (i, base, a, k)
        inner = mk(i + 1, 'a%d' % i, 'k%d' % i)
        return 'w%d_raw(lambda *a%d, **k%d: %s, *%s, **%s)' % (i, i, i, inner, a, k)
    if depth == 0:
        return '%s(*args, **kwargs)' % base
    return mk(1, 'args', 'kwargs')


PLACEMENTS = ('function', 'method', 'static_outer', 'static_inner', 'class_outer', 'class_inner')


def stack_program(spec):
    """-> (source, model object stored in the class / module, access list)
    access: [(label, python expr of the object, python expr of the composition's base, model object)]"""
    layers = spec['layers']
    d = len(layers)
    pl = spec['placement']
    fparams = list(spec['fparams'])
    first = spec.get('first')
    if first is not None:
        kind = 'PO' if any(p[1] == 'PO' for p in fparams) else 'PK'
        fparams = [mk_param(first, kind)] + fparams
    src = ['from sigtools import wrappers\nimport types\n']
    for i, l in enumerate(layers, 1):
        src.append(wrapper_src(i, l))
    if spec.get('fform') in ('auto', 'declared'):
        src[0] += 'from sigtools import specifiers\n'
        src.append(func_src('f_inner', 'f', fparams, spec['fraise']))
        src.append(fwd_src('f_raw', 'f_inner', spec['fform'] == 'declared'))
        plain = ('fwd', 120, spec['fform'] == 'declared', fwd_outer(), 1,
                 ('plain', 100, fparams, spec['fraise']))
    elif spec.get('fobj'):
        # the decorated callable is an INSTANCE with __call__ (same effective signature and
        # behaviour as the function): see FOBJ_KINDS
        src.append(fobj_src('f_raw', 'f', fparams, spec['fraise'], spec['fobj']))
        plain = ('plain', 100, fparams, spec['fraise'])
    else:
        src.append(func_src('f_raw', 'f', fparams, spec['fraise']))
        plain = ('plain', 100, fparams, spec['fraise'])

    def deco(x):
        for i in range(d, 0, -1):
            l = layers[i - 1]
            x = ('deco', l['flavour'], l['n'], list(l['names']), layer_wid(i, l), wrapper_params(l['own']),
                 (l['own'], l['n'], list(l['names']), l['mode']), x)
        return x

    stepwise = bool(spec.get('stepwise'))

    def wrap(e):
        # stepwise: the signature of every intermediate layer is retrieved (inspect and sigtools)
        # right after the layer is built, before the next one is applied
        for i in range(d, 0, -1):
            e = 'w%d(%s)' % (i, '_peek(%s)' % e if stepwise else e)
        return e
    if stepwise:
        src[0] += ('import inspect as _inspect\nimport sigtools as _sigtools\n'
                   'def _peek(o):\n'
                   '    for fn in (_inspect.signature, _sigtools.signature):\n'
                   '        try:\n            fn(o)\n        except Exception:\n            pass\n'
                   '    return o\n')
    # the decorated callable may carry its own instance-level __signature__ (set by hand or by
    # modifiers.annotate), with or without a forger: update_wrapper copies it into the layer,
    # which must forget it again.  The effective signature is unchanged by construction.
    fsig = spec.get('fsig')
    if fsig == 'hand':
        src[0] += 'import inspect\n'
        src.append('f_raw.__signature__ = inspect.signature(f_raw)\n')
    elif fsig == 'annotate':
        src[0] += 'from sigtools import modifiers\n'
        src.append('f_raw = modifiers.annotate(%s=int)(f_raw)\n' % name_of(spec['fsig_name']))
    if pl == 'function':
        src.append('f = %s\n' % wrap('f_raw'))
        stored = deco(plain)
        access = [('f', 'f', 'f_raw', stored)]
        if spec.get('fobj'):
            # the same stack over a plain function with the same parameters: the reference for
            # the advertised signature of the stack over the callable instance
            src.append(func_src('f_twin', 'f', fparams, spec['fraise']))
            if fsig == 'hand':
                src.append('f_twin.__signature__ = inspect.signature(f_twin)\n')
            src.append('TWIN0 = %s\n' % wrap('f_twin'))
    else:
        if pl == 'method':
            member, stored = wrap('f_raw'), deco(plain)
        elif pl == 'static_outer':
            member, stored = 'staticmethod(%s)' % wrap('f_raw'), ('static', deco(plain))
        elif pl == 'static_inner':
            member, stored = wrap('staticmethod(f_raw)'), deco(('static', plain))
        elif pl == 'class_outer':
            member, stored = 'classmethod(%s)' % wrap('f_raw'), ('classm', deco(plain))
        else:
            member, stored = wrap('classmethod(f_raw)'), deco(('classm', plain))
        equal = spec.get('insts') == 'equal'
        if equal:
            # value objects: every two instances compare equal and hash equal, yet are distinct
            src.append('class K(object):\n'
                       '    def __eq__(self, other):\n        return isinstance(other, K)\n'
                       '    def __ne__(self, other):\n        return not isinstance(other, K)\n'
                       '    def __hash__(self):\n        return 7\n'
                       '    f = %s\nINST = K()\nINST2 = K()\n' % member)
        else:
            src.append('class K(object):\n    f = %s\nINST = K()\n' % member)
        if pl == 'method':
            bases = ('f_raw', 'types.MethodType(f_raw, INST)')
        elif pl.startswith('static'):
            bases = ('f_raw', 'f_raw')
        else:
            bases = ('types.MethodType(f_raw, K)', 'types.MethodType(f_raw, K)')
        access = [('K.f', 'K.f', bases[0], m_get(stored, False)),
                  ('K().f', 'INST.f', bases[1], m_get(stored, True))]
        if pl in ('method', 'static_inner'):
            # the very object stored in the class, without going through __get__
            access.append(("K.__dict__['f']", "K.__dict__['f']", 'f_raw', stored))
        if equal:
            # looked up on a second, equal instance AFTER the first one, then on the first again:
            # each must run against the instance it was looked up on
            access.append(('INST2.f [INST2 = K() == INST, looked up after INST.f]', 'INST2.f',
                           bases[1].replace('INST', 'INST2'), m_get(stored, True)))
            access.append(('INST.f [looked up again after INST2.f]', 'INST.f', bases[1], m_get(stored, True)))
    src.append('WRAPPERS = [%s]\n' % ', '.join('w%d_raw' % i for i in range(1, d + 1)))
    for j, (label, oe, be, mo) in enumerate(access):
        src.append('OBJ%d = %s\nBASE%d = %s\ndef ref%d(*args, **kwargs):\n    return %s\n' % (
            j, oe, j, be, j, ref_expr(d, 'BASE%d' % j)))
    return ''.join(src), stored, access


def comb_program(spec):
    """Combination of plain functions (optionally one decorated member, optionally nested)"""
    members = spec['members']
    src = ['from sigtools import wrappers\n']
    mobjs = []
    exprs = []
    refs = []
    src[0] += 'from sigtools import specifiers, modifiers\n'
    for j, m in enumerate(members):
        form = m.get('form', 'plain')
        if form in ('auto', 'declared'):
            src.append(func_src('i%d' % j, 'g%d' % j, m['params'], m['raises']))
            src.append(fwd_src('g%d' % j, 'i%d' % j, form == 'declared'))
            plain = ('fwd', 120 + j, form == 'declared', fwd_outer(), 1,
                     ('plain', 100 + j, list(m['params']), m['raises']))
        elif form == 'kwo' and kwo_convert(m['params']):
            nm, eff = kwo_convert(m['params'])
            src.append(func_src('k%d' % j, 'g%d' % j, m['params'], m['raises']))
            src.append('g%d = modifiers.kwoargs(%r)(k%d)\n' % (j, name_of(nm), j))
            plain = ('plain', 100 + j, eff, m['raises'])
        else:
            src.append(func_src('g%d' % j, 'g%d' % j, m['params'], m['raises']))
            plain = ('plain', 100 + j, list(m['params']), m['raises'])
        if m.get('layer'):
            l = m['layer']
            src.append(wrapper_src(j + 1, l))
            mobjs.append(('deco', l['flavour'], l['n'], list(l['names']), j + 1, wrapper_params(l['own']),
                          (l['own'], l['n'], list(l['names']), l['mode']), plain))
            exprs.append('w%d(g%d)' % (j + 1, j))
            refs.append('w%d_raw(g%d, arg, *args, **kwargs)' % (j + 1, j))
        else:
            mobjs.append(plain)
            exprs.append('g%d' % j)
            refs.append('g%d(arg, *args, **kwargs)' % j)
    k = 0
    if spec['nested'] and len(exprs) >= 2:
        k = spec['nested']
        src.append('INNER = wrappers.Combination(%s)\n' % ', '.join(exprs[:k]))
        ce = 'wrappers.Combination(INNER%s)' % ''.join(', ' + e for e in exprs[k:])
    else:
        ce = 'wrappers.Combination(%s)' % ', '.join(exprs)
    src.append('C = %s\nclass K(object):\n    c = C\nINST = K()\n' % ce)
    src.append('WRAPPERS = []\nOBJ0 = C\nOBJ1 = INST.c\ndef ref0(arg, *args, **kwargs):\n%s    return arg\nref1 = ref0\n' %
               ''.join('    arg = %s\n' % r for r in refs))
    stored = ('comb', mobjs)
    access = [('C', 'C', None, stored), ('K().c', 'INST.c', None, stored)]
    if k:
        # the Combination that was spliced into C is observed again afterwards: it must be unchanged
        src.append('OBJ2 = INNER\ndef ref2(arg, *args, **kwargs):\n%s    return arg\n' %
                   ''.join('    arg = %s\n' % r for r in refs[:k]))
        access.append(('INNER', 'INNER', None, ('comb', mobjs[:k])))
    return ''.join(src), stored, access


_PROG_N = [0]


def load_program(src):
    """exec the generated text under a file name inspect.getsource can read back"""
    _PROG_N[0] += 1
    fn = '<c13-program-%d-%d>' % (os.getpid(), _PROG_N[0])
    linecache.cache[fn] = (len(src), None, src.splitlines(True), fn)
    ns = {'__name__': 'c13_program'}
    with warnings.catch_warnings():
        warnings.simplefilter('ignore')
        exec(compile(src, fn, 'exec'), ns)
    return ns


# ---------------------------------------------------------------- executing
def call_values(c):
    n, ks = c
    return [101 + i for i in range(n)], {name_of(k): 200 + k for k in ks}


def run_call(fn, c):
    args, kwargs = call_values(c)
    try:
        with warnings.catch_warnings():
            warnings.simplefilter('ignore')
            return ('ok', fn(*args, **kwargs))
    except TypeError as e:
        return ('type', str(e))
    except LookupError as e:
        return ('exc', type(e).__name__, e.args)
    except Exception as e:  # noqa: BLE001
        return ('other', type(e).__name__, str(e)[:200])


def binds(sig, c):
    args, kwargs = call_values(c)
    try:
        sig.bind(*args, **kwargs)
    except TypeError:
        return False
    return True


def get_sig(fn, obj):
    try:
        with warnings.catch_warnings():
            warnings.simplefilter('ignore')
            return ('ok', fn(obj))
    except ValueError as e:
        return ('err', type(e).__name__)
    except Exception as e:  # noqa: BLE001
        return ('raise', '%s: %s' % (type(e).__name__, str(e)[:120]))


def sig_shape(sig):
    return shape_of(describe_sig(sig))


def noncolliding(c, sig, names_in):
    kwp = {id_of_name(p.name) for p in sig.parameters.values()
           if p.kind in (p.POSITIONAL_OR_KEYWORD, p.KEYWORD_ONLY)}
    return all(k in kwp or k not in names_in for k in c[1])


def ident(v):
    """a returned value with every object that is not plain data (instances, classes) replaced by
    its IDENTITY: two distinct instances that compare equal are different results"""
    if isinstance(v, (tuple, list)):
        return (type(v).__name__,) + tuple(ident(x) for x in v)
    if isinstance(v, dict):
        return ('dict',) + tuple(sorted((k, ident(x)) for k, x in v.items()))
    if v is None or type(v) in (int, str, bool, float):
        return v
    return ('@object', id(v))


def same_outcome(a, b):
    if a[0] != b[0]:
        return False
    if a[0] == 'type':
        return True
    if a[0] == 'ok':
        return ident(a[1]) == ident(b[1])
    return a == b


def shapes_for(names, maxpos, rng, cap):
    names = sorted(names)
    out = []
    subsets = [()]
    subsets += [(k,) for k in names]
    subsets += list(itertools.combinations(names, 2))
    big = []
    for r in range(3, len(names) + 1):
        big += list(itertools.combinations(names, r))
    for n in range(maxpos + 2):
        for s in subsets:
            out.append((n, list(s)))
    extra = [(n, list(s)) for n in range(maxpos + 2) for s in big]
    if len(out) > cap:
        out = rng.sample(out, cap)
    room = max(cap // 4, cap - len(out))
    if extra:
        out += rng.sample(extra, min(room, len(extra)))
    return out


def guided_calls(sig, rng, n):
    """call shapes the reported signature is likely to accept"""
    ps = list(sig.parameters.values())
    pos = [p for p in ps if p.kind in (p.POSITIONAL_ONLY, p.POSITIONAL_OR_KEYWORD)]
    ko = [p for p in ps if p.kind == p.KEYWORD_ONLY]
    has_va = any(p.kind == p.VAR_POSITIONAL for p in ps)
    has_vk = any(p.kind == p.VAR_KEYWORD for p in ps)
    out = []
    for _ in range(n):
        npos = rng.randint(0, len(pos) + (2 if has_va else 0))
        kws = []
        for i, p in enumerate(pos):
            if i >= npos and p.kind == p.POSITIONAL_OR_KEYWORD and (p.default is p.empty or rng.random() < 0.4):
                kws.append(id_of_name(p.name))
        for p in ko:
            if p.default is p.empty or rng.random() < 0.5:
                kws.append(id_of_name(p.name))
        if has_vk and rng.random() < 0.3:
            kws.append(HN)
        out.append((npos, sorted(kws)))
    return out


def show_args(c):
    args, kwargs = call_values(c)
    return '(%s)' % ', '.join([str(a) for a in args] + ['%s=%d' % kv for kv in kwargs.items()])


def examine(ns, j, label, mobj, calls, prog_kind, want=None, rng=None, nguided=0):
    """All direct checks of one accessed object.  -> (failures, info)
    failures: [(key, what, check, call)]"""
    fails = []
    obj, ref = ns['OBJ%d' % j], ns['ref%d' % j]
    info = {'calls': 0, 'accepted': 0, 'typeerrors': 0, 'raised': 0}
    fb0 = FALLBACKS[0]
    msig = m_sig(mobj)
    fell_back = FALLBACKS[0] != fb0
    info['fell_back'] = fell_back
    is_comb = mobj[0] == 'comb'
    crash_self = msig[0] == 'crash' and msig[1] == 'self'
    ssig = get_sig(sigtools.signature, obj)
    isig = get_sig(inspect.signature, obj)
    info['msig'], info['ssig'], info['isig'] = msig, ssig, isig
    names_in = input_names(mobj)

    unhashable = False
    if 'BASE%d' % j in ns:
        try:
            hash(ns['BASE%d' % j])
        except TypeError:
            unhashable = True
    info['unhashable_base'] = unhashable

    def add(key, what, check, call=None):
        if unhashable and check in ('sig-raises', 'isig-raises', 'b-sigtools', 'b-inspect', 'twin'):
            key = KEY_UNHASH
            what += ' [the decorated callable, an instance of %s, is unhashable]' % type(ns['BASE%d' % j]).__name__
        if want is None or want == check:
            fails.append((key, what, check, call))

    # retrieval itself: only ValueError (no signature) is an acceptable failure
    for nm, r, chk in (('sigtools.signature', ssig, 'sig-raises'), ('inspect.signature', isig, 'isig-raises')):
        if r[0] == 'raise':
            add(KEY_SELF if crash_self else 'C13:retrieval',
                '%s(%s) raised %s' % (nm, label, r[1]), chk)
    # the decorated callable is an instance with __call__: the stack advertises what the same
    # stack over a plain function with the same parameters advertises
    twin = ns.get('TWIN%d' % j)
    if twin is not None:
        for nm, fn, r in (('sigtools.signature', sigtools.signature, ssig), ('inspect.signature', inspect.signature, isig)):
            t = get_sig(fn, twin)
            if r[0] == 'ok' and (t[0] != 'ok' or str(t[1]) != str(r[1])):
                add('C13:callable-instance-signature',
                    '%s(%s) = %s but the same stack over a plain function with the same parameters advertises %s' % (
                        nm, label, r[1], t[1] if t[0] == 'ok' else t), 'twin')
                break
    # (d) wrappers(): outermost first, the very function objects
    try:
        ws = list(W.wrappers(obj))
    except Exception as e:  # noqa: BLE001
        ws = 'raised %s' % type(e).__name__
    expect_ws = [ns['w%d_raw' % i] for i in m_wrappers(mobj)]
    if ws != expect_ws or any(a is not b for a, b in zip(ws, expect_ws)):
        add('C13:wrappers', 'wrappers.wrappers(%s) = %s, expected %s (outermost first)' % (
            label, [getattr(w, '__name__', w) for w in ws] if isinstance(ws, list) else ws,
            [w.__name__ for w in expect_ws]), 'd')
    # (a) + (b) on every call shape
    sigs = []
    if ssig[0] == 'ok':
        sigs.append(('sigtools.signature', ssig[1], 'b-sigtools'))
    if isig[0] == 'ok':
        sigs.append(('inspect.signature', isig[1], 'b-inspect'))
    rolecons = True
    if is_comb:
        # roles must agree among the members' effective signatures and the functions a
        # forwarding member hands its arguments to (a consumed parameter is still a role)
        inner = [d for f in mobj[1] for d in fwd_inners(f)]
        rolecons = DRV.ask('rolecons ' + tok_sigs(
            [COMB_SELF] + [m_sig(f)[1] for f in mobj[1] if m_sig(f)[0] == 'ok'] + inner)) == 'T'
    info['rolecons'] = rolecons
    done = set()
    if rng is not None and nguided:
        seen = {(c[0], tuple(c[1])) for c in calls}
        calls = list(calls)
        for _, sig, _ in sigs:
            for c in guided_calls(sig, rng, nguided):
                if (c[0], tuple(c[1])) not in seen:
                    seen.add((c[0], tuple(c[1])))
                    calls.append(c)
        info['all_calls'] = calls
    for c in calls:
        info['calls'] += 1
        got = run_call(obj, c)
        exp = run_call(ref, c)
        if got[0] == 'type':
            info['typeerrors'] += 1
        if got[0] == 'exc':
            info['raised'] += 1
        self_kw = SELF in c[1] and got[0] == 'type' and SELF_KW_MSG in got[1]
        if not same_outcome(got, exp):
            key = KEY_SELF_KW if self_kw else 'C13:compose'
            if ('a', key) not in done:
                done.add(('a', key))
                add(key, '%s%s gives %r but the hand-written composition gives %r' % (
                    label, show_args(c), got, exp), 'a', c)
        for nm, sig, chk in sigs:
            if not binds(sig, c) or not noncolliding(c, sig, names_in):
                continue
            if chk == 'b-sigtools':
                info['accepted'] += 1
            if got[0] != 'type':
                continue
            if is_comb and not rolecons and not (chk == 'b-inspect'):
                continue
            if fell_back and not crash_self:
                info['fallback_unsafe'] = info.get('fallback_unsafe', 0) + 1
                continue
            if self_kw:
                key = KEY_SELF_KW
            elif crash_self:
                key = KEY_SELF
            elif is_comb and chk == 'b-inspect':
                key = KEY_COMB_INSPECT
            else:
                key = 'C13:unsafe'
            if (chk, key) in done:
                continue
            done.add((chk, key))
            add(key, '%s(%s) = %s accepts the call %s%s, which raises an argument-binding TypeError (%s)' % (
                nm, label, sig, label, show_args(c), got[1]), chk, c)
    return fails, info


def check_pair_c(ns, access, infos):
    """(c) binding as a method removes exactly the first parameter (names and kinds)"""
    (l0, _, _, m0), (l1, _, _, m1) = access[:2]
    s0, s1 = infos[0]['ssig'], infos[1]['ssig']
    if s0[0] != 'ok' or s1[0] != 'ok':
        return None
    first = None
    o = m0
    while o[0] == 'deco':
        o = o[7]
    if o[0] != 'plain' or not o[2] or o[2][0][1] not in ('PO', 'PK'):
        return None
    first = name_of(o[2][0][0])
    unb = [(p.name, p.kind) for p in s0[1].parameters.values()]
    bnd = [(p.name, p.kind) for p in s1[1].parameters.values()]
    if first not in [n for n, _ in unb]:
        return None     # the first parameter is hidden behind a literal argument of a wrapper
    want = [(n, k) for n, k in unb if n != first]
    if bnd != want:
        return ('C13:method', 'signature(%s) = %s but signature(%s) = %s: binding must remove exactly %s' % (
            l1, s1[1], l0, s0[1], first), 'c', None)
    return None


# ---------------------------------------------------------------- generators
def gen_layer(rng, U_own, fparams, innermost):
    own = distinct_defaults(rng.choice(U_own))
    kwp = [p[0] for p in fparams if p[1] in ('PK', 'KO')]
    n, names = 0, []
    r = rng.random()
    if innermost and r < 0.35:
        n = rng.choice([0, 1, 1, 2])
        if kwp and rng.random() < 0.6:
            names = [rng.choice(kwp)]
    elif not innermost and r < 0.08:
        # literal keywords only in the innermost layer: the same literal keyword written in two
        # layers is a program whose every call fails, which no signature with **kwargs can say
        n = 1
    mode = rng.choice(['ret'] * 8 + ['before', 'after'])
    return {'flavour': rng.choice(['simple', 'declared']), 'own': own, 'n': n, 'names': names, 'mode': mode}


def gen_stack_spec(rng, U_f, U_owns):
    fparams = distinct_defaults(rng.choice(U_f))
    depth = rng.choice([1, 1, 2, 2, 3])
    layers = []
    for i in range(depth):
        # own-parameter names differ per layer (embed requires distinct names)
        layers.append(gen_layer(rng, U_owns[i], fparams, i == depth - 1))
    pl = rng.choice(PLACEMENTS)
    first = None
    if pl == 'method':
        first = rng.choice([SELF, ZN])
    elif pl.startswith('class'):
        first = CLS
    elif rng.random() < 0.05:
        first = SELF          # a plain function that happens to name a parameter self
    spec = {'fparams': fparams, 'first': first, 'fraise': rng.random() < 0.1, 'layers': layers,
            'placement': pl}
    if pl == 'function' and first is None and fparams and fparams[0][1] in ('PO', 'PK', 'VP') \
            and rng.random() < 0.4:
        # the decorated function's effective signature is known to sigtools only
        spec['fform'] = rng.choice(['auto', 'declared'])
        # the forwarding function passes its first argument positionally: that inner parameter is
        # consumed and no layer may also write it as a literal keyword (every call would fail)
        for l in layers:
            l['names'] = [k for k in l['names'] if k != fparams[0][0]]
    spec['stepwise'] = rng.random() < 0.5
    if pl != 'function' and rng.random() < (0.6 if pl == 'method' else 0.3):
        # the class is a value class: two distinct instances that compare and hash equal
        spec['insts'] = 'equal'
    if depth >= 2 and rng.random() < 0.35:
        # the same wrapping function in adjacent layers: layer i+1 re-uses the raw function of
        # layer i (the same decorator object applied twice, or a second decorator made from the
        # same function).  Such a function has no own parameters (their names would collide) and
        # writes no literal keyword (the same keyword written twice fails every call).
        start = rng.randrange(depth - 1)
        run_len = 2 if depth == 2 or rng.random() < 0.6 else depth - start
        root = layers[start]
        root['own'], root['names'] = [], []
        for i in range(start + 1, min(depth, start + run_len)):
            flavour = rng.choice(['simple', 'declared'])
            layers[i] = dict(root, flavour=flavour, reuse=start + 1,
                             sameobj=flavour == root['flavour'] and rng.random() < 0.6)
    r = rng.random()
    named = [p[0] for p in fparams if p[1] in ('PO', 'PK', 'KO')]
    if r < 0.25:
        spec['fsig'] = 'hand'
    elif r < 0.4 and 'fform' not in spec and (named or first is not None):
        # annotate(**annotations) cannot name a parameter spelled `self` (it collides with
        # annotate.__init__'s own first parameter): such programs are not written
        cand = named[0] if named else first
        if name_of(cand) != 'self':
            spec['fsig'] = 'annotate'
            spec['fsig_name'] = cand
    return spec


def gen_comb_spec(rng, U_m, U_own):
    k = rng.choice([1, 2, 2, 3, 3])
    members = []
    for j in range(k):
        ps = distinct_defaults(rng.choice(U_m))
        m = {'params': ps, 'raises': rng.random() < 0.07,
             'form': rng.choice(['plain'] * 5 + ['auto', 'auto', 'declared', 'declared', 'kwo'])}
        if m['form'] == 'kwo' and not kwo_convert(ps):
            m['form'] = 'auto'
        if rng.random() < 0.15:
            m['layer'] = gen_layer(rng, U_own, ps, True)
            m['layer']['n'], m['layer']['names'] = 0, []
        members.append(m)
    nested = rng.choice([0, 1, 1, 2]) if k >= 2 else 0
    if nested >= k and rng.random() < 0.7:
        nested = k - 1          # leave at least one member after the spliced Combination
    return {'members': members, 'nested': min(nested, k)}


# ---------------------------------------------------------------- the model inside Coq (sample)
def coq_param(p):
    nm, k, de = p[0], p[1], p[2]
    return '(mkParam %d%%N %s %s None UEmpty)' % (nm, k, 'None' if de is None else '(Some %d%%N)' % de)


def coq_params(ps):
    return '[' + '; '.join(coq_param(p) for p in ps) + ']'


def coq_obj(o):
    k = o[0]
    if k == 'plain':
        beh = '(def_behaviour %d%%N %s)' % (o[1], coq_params(o[2]))
        if o[3]:        # the body raises once the arguments are bound
            beh = '(fun c => if is_raise (%s c) then Raise 1%%N else Raise %d%%N)' % (beh, 50 + o[1])
        return '(Plain %d%%N (sig_of_params %s) %s)' % (o[1], coq_params(o[2]), beh)
    if k == 'deco':
        own, n, names, mode = o[6]
        cm = {'ret': 'Return', 'before': '(RaiseBefore %d%%N)' % (50 + o[4]), 'after': '(RaiseAfter %d%%N)' % (50 + o[4])}[mode]
        beh = '(wrapper_behaviour %d%%N %s %s [%s] [%s] %s)' % (
            o[4], coq_param(o[5][0]), coq_params(own), '; '.join('Val %d%%N' % lit_pos(j) for j in range(n)),
            '; '.join('(%d%%N, Val %d%%N)' % (kk, lit_kw(kk)) for kk in names), cm)
        return '(Deco %s (mkF %d%%nat [%s]) (mkW %d%%N (sig_of_params %s) %s) %s)' % (
            'Simple' if o[1] == 'simple' else 'Declared', n, '; '.join('%d%%N' % kk for kk in names),
            o[4], coq_params(o[5]), beh, coq_obj(o[7]))
    if k == 'fwd':
        return '(Fwd %d%%N %s (sig_of_params %s) %d%%nat %s)' % (
            o[1], 'true' if o[2] else 'false', coq_params(o[3]), o[4], coq_obj(o[5]))
    if k == 'comb':
        return '(Comb [%s])' % '; '.join(coq_obj(f) for f in o[1])
    if k == 'static':
        return '(Static %s)' % coq_obj(o[1])
    if k == 'classm':
        return '(ClassM %s)' % coq_obj(o[1])
    raise ValueError(k)


TAGS = {'f': 100}


def coq_value(v, ns):
    if v is None:
        return '(Val 0%N)'
    if isinstance(v, bool):
        raise ValueError(v)
    if isinstance(v, int):
        return '(Val %d%%N)' % v
    if isinstance(v, tuple):
        if v and isinstance(v[0], str):
            t = v[0]
            tag = 100 if t == 'f' else (100 + int(t[1:]) if t[0] == 'g' else int(t[1:]))
            return '(Tup %d%%N [%s])' % (tag, '; '.join(coq_value(x, ns) for x in v[1:]))
        return '(Tup 0%%N [%s])' % '; '.join(coq_value(x, ns) for x in v)
    if isinstance(v, dict):
        return '(Kw [%s])' % '; '.join('(%d%%N, %s)' % (id_of_name(k), coq_value(x, ns)) for k, x in v.items())
    if v is ns.get('INST'):
        return '(Val %d%%N)' % INST_VAL
    if v is ns.get('INST2'):
        return '(Val %d%%N)' % INST2_VAL
    if v is ns.get('K'):
        return '(Val %d%%N)' % CLS_VAL
    raise ValueError(v)


def coq_outcome(r, ns):
    if r[0] == 'ok':
        return coq_value(r[1], ns)
    if r[0] == 'type':
        return '(Raise 1%N)'
    if r[0] == 'exc':
        t = r[2][0]
        code = 150 if t == 'f' else (150 + int(t[1:]) if t[0] == 'g' else 50 + int(t[1:]))
        return '(Raise %d%%N)' % code
    raise ValueError(r)


def coq_call(c):
    args, kwargs = call_values(c)
    return '(mkV [%s] [%s])' % ('; '.join('Val %d%%N' % a for a in args),
                                '; '.join('(%d%%N, Val %d%%N)' % (id_of_name(k), v) for k, v in kwargs.items()))


def coq_shape(r):
    if r[0] != 'ok':
        return 'None'
    rank = {'PO': 0, 'PK': 1, 'VP': 2, 'KO': 3, 'VK': 4}
    return '(Some [%s])' % '; '.join('(%d%%N, %d%%nat, %s)' % (nm, rank[k], 'true' if d else 'false')
                                     for nm, k, d in r[1])


COQ_PREAMBLE = '''From Sigtools.Model Require Import Base Bind Algebra Wrappers.
Definition shape_eqb (a b : option (list (N * nat * bool))) : bool :=
  match a, b with
  | None, None => true
  | Some x, Some y =>
      Nat.eqb (length x) (length y) &&
      forallb (fun pq => N.eqb (fst (fst (fst pq))) (fst (fst (snd pq)))
                         && Nat.eqb (snd (fst (fst pq))) (snd (fst (snd pq)))
                         && Bool.eqb (snd (fst pq)) (snd (snd pq))) (combine x y)
  | _, _ => false
  end.
Definition nlist_eqb (a b : list N) : bool :=
  Nat.eqb (length a) (length b) && forallb (fun pq => N.eqb (fst pq) (snd pq)) (combine a b).
Record case := mkCase { c_obj : obj; c_calls : list (vcall * term);
                        c_sig : option (list (N * nat * bool)); c_isig : option (list (N * nat * bool));
                        c_wrappers : list N }.
(* which relations differ: 1 = result terms, 2 = sig_of, 4 = inspect_sig, 8 = wrappers *)
Definition verdict (c : case) : nat :=
  ((if forallb (fun ce => term_eqb (call (c_obj c) (fst ce)) (snd ce)) (c_calls c) then 0 else 1)
   + (if shape_eqb (shape (sig_of (c_obj c))) (c_sig c) then 0 else 2)
   + (if shape_eqb (shape (inspect_sig (c_obj c))) (c_isig c) then 0 else 4)
   + (if nlist_eqb (wrappers (c_obj c)) (c_wrappers c) then 0 else 8))%nat.
Fixpoint bad (i : nat) (cs : list case) : list (nat * nat) :=
  match cs with
  | [] => []
  | c :: cs' => let v := verdict c in
                if Nat.eqb v 0 then bad (S i) cs' else (i, v) :: bad (S i) cs'
  end.
'''


def coq_case(stored, access_kind, ns, j, calls, info):
    """Coq term of one case: the object is obtained with the model's `get` from what the program stored"""
    if access_kind == 'direct':
        oe = coq_obj(stored)
    elif access_kind == 'class':
        oe = '(get %s None (Val %d%%N))' % (coq_obj(stored), CLS_VAL)
    elif access_kind == 'inst2':
        oe = '(get %s (Some (Val %d%%N)) (Val %d%%N))' % (coq_obj(stored), INST2_VAL, CLS_VAL)
    else:
        oe = '(get %s (Some (Val %d%%N)) (Val %d%%N))' % (coq_obj(stored), INST_VAL, CLS_VAL)
    obj = ns['OBJ%d' % j]
    pairs = []
    for c in calls:
        pairs.append('(%s, %s)' % (coq_call(c), coq_outcome(run_call(obj, c), ns)))

    def shp(r):
        return coq_shape(('ok', sig_shape(r[1])) if r[0] == 'ok' else r)
    isig = info['isig']
    if info['msig'][0] == 'crash':
        isig = ('err',)        # known class: what inspect falls back to is not modelled
    try:
        ws = [int(w.__name__[1:-4]) for w in W.wrappers(obj)]       # w<i>_raw -> i
    except Exception:  # noqa: BLE001
        ws = [0]
    return 'mkCase %s [%s] %s %s [%s]' % (oe, '; '.join(pairs), shp(info['ssig']), shp(isig),
                                         '; '.join('%d%%N' % w for w in ws))


def run_coq_sample(rep, sample):
    """sample: [(description, coq case term)]"""
    if not sample:
        return 0
    shards = [sample[i:i + 120] for i in range(0, len(sample), 120)]

    def one(sh):
        pre = COQ_PREAMBLE + 'Definition cases : list case := [\n' + ';\n'.join(x[1] for x in sh) + '].\n'
        ans = coqrun.coq_eval(pre, ['bad 0%nat cases'], timeout=300)[0]
        return ans
    from concurrent.futures import ThreadPoolExecutor
    with ThreadPoolExecutor(min(8, len(shards))) as ex:
        answers = list(ex.map(one, shards))
    import re
    nbad = 0
    for sh, ans in zip(shards, answers):
        for i, v in re.findall(r'\((\d+)(?:%nat)?\s*,\s*(\d+)(?:%nat)?\)', ans):
            i, v = int(i), int(v)
            nbad += 1
            rel = [nm for bit, nm in ((1, 'result terms'), (2, 'sig_of'), (4, 'inspect_sig'), (8, 'wrappers')) if v & bit]
            rep.corr_break('Model/Wrappers.v evaluated in Coq vs implementation: ' + ', '.join(rel),
                           sh[i][0], 'model differs', 'see program')
    return nbad


# ---------------------------------------------------------------- run
def universes():
    U_f = universe(2, ['a', 'b'])
    U_f3 = universe(3, ['a', 'b', 'c'], permute=False)
    U_owns = [universe(2, [nm + '', nm2], stars=()) for nm, nm2 in (('x', 'y'), ('d', 'e'), ('g', 'n30'))]
    U_m = [ps for ps in universe(2, ['a', 'b']) if ps and ps[0][1] in ('PO', 'PK', 'VP')]
    return U_f, U_f3, U_owns, U_m


def process_program(rep, kind, spec, src, stored, access, rng, cap, stats, coq_sample, want_coq):
    try:
        ns = load_program(src)
    except Exception as e:  # noqa: BLE001
        rep.violation('C13:program', 'defining the program raised %s: %s' % (type(e).__name__, e),
                      {'kind': kind, 'src': src, 'check': 'define'})
        return
    infos = []
    for j, (label, oe, be, mobj) in enumerate(access):
        names = set(input_names(mobj)) | {HN}
        maxpos = sum(1 for s in leaf_sigs(mobj) for p in s['params'] if p[1] in ('PO', 'PK'))
        calls = shapes_for(names, min(maxpos, 5), rng, cap)
        fails, info = examine(ns, j, label, mobj, calls, kind, rng=rng, nguided=cap // 2)
        info['mobj'] = mobj
        calls = info.get('all_calls', calls)
        infos.append(info)
        stats['objects'] += 1
        for k2 in ('calls', 'accepted', 'typeerrors', 'raised'):
            stats[k2] += info[k2]
        stats['fallback_unsafe'] = stats.get('fallback_unsafe', 0) + info.get('fallback_unsafe', 0)
        stats['fell_back_objects'] = stats.get('fell_back_objects', 0) + (1 if info.get('fell_back') else 0)
        for key, what, check, call in fails:
            v = (key, what, {'kind': kind, 'src': src, 'access': j, 'label': label,
                             'check': check, 'call': call, 'spec': spec, 'key': key})
            if key == KEY_UNHASH:
                # fails on the unchanged tree: reported after everything else
                stats['unhashable_callable_signature_failures'] = stats.get('unhashable_callable_signature_failures', 0) + 1
                if len(DEFERRED) < 3 and check not in [d[2]['check'] for d in DEFERRED]:
                    DEFERRED.append(v)
            else:
                rep.violation(*v)
        # (e) model signature vs implementation
        msig = info['msig']
        for nm, r, mr in (('sigtools.signature', info['ssig'], msig),
                          ('inspect.signature', info['isig'], m_inspect_sig(mobj))):
            if info.get('unhashable_base'):
                # decided directly in examine (retrieval / twin / accepted calls) under KEY_UNHASH
                stats['unhashable_base_objects'] = stats.get('unhashable_base_objects', 0) + 1
                break
            if mr[0] == 'crash':
                stats['crash_class'] += 1
                if r[0] == 'ok' and nm == 'sigtools.signature':
                    rep.corr_break('self-collision class: model predicts the retrieval dies', label + '\n' + src,
                                   'dies', str(r[1]))
                continue
            mshape = ('ok', shape_of(mr[1])) if mr[0] == 'ok' else ('err',)
            ishape = ('ok', sig_shape(r[1])) if r[0] == 'ok' else ('err',) if r[0] == 'err' else ('raise', r[1])
            if mshape != ishape:
                rep.corr_break('%s of the object vs Model/Wrappers.v (driver)' % nm, label + '\n' + src,
                               show_sig(mr[1]) if mr[0] == 'ok' else str(mr), str(r[1]))
            if mr[0] == 'err':
                stats['model_err'] += 1
            elif nm == 'sigtools.signature' and mobj[0] == 'deco':
                # non-trivial: the reported signature differs from the generic (own, *args, **kwargs)
                rep.distinct.add((tuple(shape_of(mr[1])), len(m_wrappers(mobj))))
        if want_coq and sum(1 for x in coq_sample if x[2] == kind) < want_coq[0]:
            ak = 'direct' if (kind == 'comb' or label == 'f' or label.startswith('K.__dict__')) \
                else ('class' if label == 'K.f' else 'inst2' if label.startswith('INST2.') else 'inst')
            try:
                term = coq_case(mobj if kind == 'comb' else stored, ak, ns, j, calls[:6] + calls[-8:], info)
                coq_sample.append(('%s of\n%s' % (label, src), term, kind))
            except ValueError:
                stats['coq_skipped'] += 1
    if kind == 'stack' and spec['placement'] == 'method':
        f = check_pair_c(ns, access, infos)
        stats['method_pairs'] += 1
        if f:
            rep.violation(f[0], f[1], {'kind': kind, 'src': src, 'check': 'c', 'spec': spec})


def run(ctx, rep):
    if ARG != 17:
        rep.corr_break('name table', 'arg', 17, ARG)
    rng = ctx.rng('gen')
    del DEFERRED[:]
    U_f, U_f3, U_owns, U_m = universes()
    nstack = 420 if ctx.quick else 4000
    ncomb = 160 if ctx.quick else 1500
    cap = 90 if ctx.quick else 220
    want_coq = [200 if ctx.quick else 1000]
    want_coq_comb = [80 if ctx.quick else 400]
    stats = {k: 0 for k in ('objects', 'calls', 'accepted', 'typeerrors', 'raised', 'crash_class', 'model_err',
                            'method_pairs', 'coq_skipped', 'equal_instance_programs',
                            'repeated_wrapper_programs', 'same_decorator_object_twice')}
    by_place = {}
    by_depth = {}
    coq_sample = []
    for i in range(nstack):
        spec = gen_stack_spec(rng, U_f3 if rng.random() < 0.25 else U_f, U_owns)
        by_place[spec['placement']] = by_place.get(spec['placement'], 0) + 1
        by_depth[len(spec['layers'])] = by_depth.get(len(spec['layers']), 0) + 1
        if spec.get('insts') == 'equal':
            stats['equal_instance_programs'] += 1
        if any(l.get('reuse') for l in spec['layers']):
            stats['repeated_wrapper_programs'] += 1
            if any(l.get('sameobj') for l in spec['layers']):
                stats['same_decorator_object_twice'] += 1
        src, stored, access = stack_program(spec)
        process_program(rep, 'stack', spec, src, stored, access, rng, cap, stats, coq_sample,
                        want_coq if i % 2 == 0 else None)
        if i < 3:
            rep.sample({'program': src, 'objects': [a[0] for a in access]})
    # ---- the decorated callable is an instance with __call__ (function placement)
    orng = ctx.rng('fobj')
    by_fobj = {}
    for i in range(72 if ctx.quick else 900):
        kind = FOBJ_ORDER[i % len(FOBJ_ORDER)]
        spec = fobj_spec(gen_stack_spec(orng, U_f3 if orng.random() < 0.25 else U_f, U_owns), kind)
        by_fobj[kind] = by_fobj.get(kind, 0) + 1
        src, stored, access = stack_program(spec)
        process_program(rep, 'stack', spec, src, stored, access, orng, cap, stats, coq_sample, None)
    rep.coverage['decorated_callable_instances'] = by_fobj
    for i in range(ncomb):
        spec = gen_comb_spec(rng, U_m, U_owns[0])
        src, stored, access = comb_program(spec)
        process_program(rep, 'comb', spec, src, stored, access, rng, cap, stats, coq_sample,
                        want_coq_comb if i % 2 == 0 else None)
        if i < 2:
            rep.sample({'program': src, 'objects': [a[0] for a in access]})
    stats['coq_cases'] = len(coq_sample)
    stats['coq_disagreements'] = run_coq_sample(rep, coq_sample)
    for v in DEFERRED:
        rep.violation(*v)
    rep.evaluations = stats['calls']
    rep.coverage.update(stats)
    rep.coverage['programs'] = nstack + ncomb
    rep.coverage['placements'] = by_place
    rep.coverage['stack_depths'] = by_depth
    rep.coverage['driver_requests'] = DRV.n
    rep.rule = ('generated programs: def w(func, <0-2 own params PO/PK/KO with defaults>, *args, **kwargs) x '
                '{decorator, wrapper_decorator} x {returning, raising before/after the call, literal arguments} '
                'stacked 1..3 over U(2,{a,b}) / U(3,{a,b,c}) functions (also the same wrapping function in adjacent '
                'layers: same decorator object twice or two decorators of one function), 6 placements, 2 access paths '
                '(+ value classes: a second, equal-but-distinct instance looked up after the first, results compared by '
                'identity of the instances); Combination of 1..3 '
                '(nested, decorated members); every positional count x keyword subsets (incl. foreign h, func, self); '
                'evaluations = executed calls (each also executed on the hand-written composition); '
                'non-trivial = distinct (reported signature, depth) of decorated objects')
    rep.assumptions = [
        'own-parameter names of the layers of one stack are pairwise distinct and differ from the decorated function\'s names (forwards/embed precondition; otherwise sigtools documents the generic fallback)',
        'Combination acceptance is claimed only for role-consistent members (merge precondition, C01)',
        'binding as a method is compared on names and kinds (default flags may legitimately differ: embed clears outer defaults in front of a required inner parameter)',
        'descriptor protocol, functools.partial, as_forged through inspect.signature, staticmethod/classmethod objects are CPython behaviour observed by execution; the model states them (get / call) and is compared on a sample',
    ]


# ---------------------------------------------------------------- replay
def replay(ctx, data):
    r = data['replay']
    src = r['src']
    ns = load_program(src)
    kind = r['kind']
    spec = r.get('spec')
    if kind == 'stack':
        _, stored, access = stack_program(_fix_spec(spec))
    else:
        _, stored, access = comb_program(_fix_spec(spec))
    if r['check'] == 'c':
        infos = []
        for j, (label, oe, be, mobj) in enumerate(access):
            infos.append(examine(ns, j, label, mobj, [], kind)[1])
        f = check_pair_c(ns, access, infos)
        return f[1] if f else None
    j = r['access']
    label, oe, be, mobj = access[j]
    calls = [(r['call'][0], list(r['call'][1]))] if r.get('call') else []
    fails, _ = examine(ns, j, label, mobj, calls, kind, want=r['check'])
    want_key = r.get('key') or data.get('key')
    for key, what, check, call in fails:
        if want_key and key != want_key:
            continue
        return '%s\n--- program ---\n%s' % (what, src)
    return None


def _fix_spec(spec):
    """JSON turns tuples into lists"""
    def fp(ps):
        return [(p[0], p[1], p[2], p[3], tuple(p[4])) for p in ps]

    def fl(l):
        return dict(l, own=fp(l['own']))
    if 'members' in spec:
        return {'members': [dict(m, params=fp(m['params']), **({'layer': fl(m['layer'])} if m.get('layer') else {}))
                            for m in spec['members']], 'nested': spec['nested']}
    return dict(spec, fparams=fp(spec['fparams']), layers=[fl(l) for l in spec['layers']])


def known_witnesses():
    """the replay dicts listed as witnesses in known_findings.json"""
    a = mk_param(AN, 'PK')
    out = {}
    spec = {'fparams': [a], 'first': SELF, 'fraise': False, 'placement': 'method',
            'layers': [{'flavour': 'simple', 'own': [mk_param(XN, 'PK')], 'n': 0, 'names': [], 'mode': 'ret'}]}
    out[KEY_SELF] = {'kind': 'stack', 'spec': spec, 'src': stack_program(spec)[0], 'access': 0, 'label': 'K.f',
                     'check': 'sig-raises', 'call': None, 'key': KEY_SELF}
    spec = {'fparams': [a], 'first': SELF, 'fraise': False, 'placement': 'function',
            'layers': [{'flavour': 'declared', 'own': [], 'n': 0, 'names': [], 'mode': 'ret'}]}
    out[KEY_SELF_KW] = {'kind': 'stack', 'spec': spec, 'src': stack_program(spec)[0], 'access': 0, 'label': 'f',
                        'check': 'a', 'call': [0, [AN, SELF]], 'key': KEY_SELF_KW}
    spec = {'fparams': [a], 'first': None, 'fraise': False, 'placement': 'function', 'fobj': 'dataclass',
            'layers': [{'flavour': 'declared', 'own': [mk_param(XN, 'PK')], 'n': 0, 'names': [], 'mode': 'ret'}]}
    out[KEY_UNHASH] = {'kind': 'stack', 'spec': spec, 'src': stack_program(spec)[0], 'access': 0, 'label': 'f',
                       'check': 'sig-raises', 'call': None, 'key': KEY_UNHASH}
    spec = {'members': [{'params': [a, mk_param(BN, 'PK')], 'raises': False}], 'nested': 0}
    out[KEY_COMB_INSPECT] = {'kind': 'comb', 'spec': spec, 'src': comb_program(spec)[0], 'access': 0, 'label': 'C',
                             'check': 'b-inspect', 'call': [1, []], 'key': KEY_COMB_INSPECT}
    return out


def replay_known(ctx, k):
    try:
        return replay(ctx, {'replay': k['witness']}) is not None
    except Exception:  # noqa: BLE001
        return False
