"""C03 — mask: exact residual signature after n positionals and named arguments."""
import itertools

from core import (universe, mk_desc, id_of_name, name_of, show_sig, show_call, tok_sig, tok_names,
                  parse_cex, b, shape_of, describe_sig, build_sig, PS, random_sig)
from algebra import (Mask, run_cases, ask, proj_shape, proj_full, check_binding_model, case_from_data)

LEVEL = 'proof'
FOREIGN = 'z'


def po_names(d):
    return {p[0] for p in d['params'] if p[1] == 'PO'}


def decide(triples):
    """Decide C03 on implementation results.  triples: [(case, model, impl)].
    Returns list of (case, key, what)."""
    reqs = []
    meta = []
    out = []
    for c, m, i in triples:
        if set(c.names) & po_names(c.d) or len(set(c.names)) != len(c.names):
            continue
        ha, hk, hva, hvk = c.flags
        if i[0] == 'err':
            if i[1] != 'ValueError':
                out.append((c, 'C03:raises', '%s raised %s (only ValueError is allowed)' % (c.show(), i[1])))
                continue
            # raises exactly when sig could not be passed those arguments at all
            if not (ha or hk):
                reqs.append('masknone %s %d %s' % (tok_sig(c.d), c.n, tok_names(c.names)))
                meta.append((c, i, 'none'))
            elif hk and not ha:
                # the named arguments are themselves hidden: only the n positionals must fit
                kinds = [q[1] for q in c.d['params']]
                npos_ = len([k for k in kinds if k in ('PO', 'PK')])
                if c.n <= npos_ or 'VP' in kinds:
                    out.append((c, 'C03:raises', '%s raised ValueError although the signature can be passed %d positional arguments (the keyword arguments are hidden)' % (c.show(), c.n)))
            continue
        r = i[1]
        if any(c.flags):
            reqs.append('maskhide %s %s %d %s %s %s' % (tok_sig(r), tok_sig(c.d), c.n,
                                                        tok_names(c.names), b(ha), b(hk)))
            meta.append((c, i, 'hide'))
            what = removal_only(c, r)
            if what:
                out.append((c, 'C03:hide', what))
        else:
            reqs.append('maskexact %s %s %d %s' % (tok_sig(r), tok_sig(c.d), c.n, tok_names(c.names)))
            meta.append((c, i, 'exact'))
    for (c, i, kind), ans in zip(meta, ask(reqs)):
        cex = parse_cex(ans)
        if cex is None:
            continue
        if kind == 'none':
            out.append((c, 'C03:raises', '%s raised ValueError although the signature accepts those arguments, e.g. followed by call %s' % (c.show(), show_call(cex))))
        elif kind == 'exact':
            out.append((c, 'C03:exact', '%s = %s disagrees with the signature on call %s' % (c.show(), show_sig(i[1]), show_call(cex))))
        else:
            out.append((c, 'C03:hide', '%s = %s accepts call %s that the signature accepts for no choice of hidden arguments' % (c.show(), show_sig(i[1]), show_call(cex))))
    return out


def removal_only(c, r):
    """hide_* flags only ever remove parameters."""
    ha, hk, hva, hvk = c.flags
    src = {p[0]: p for p in c.d['params']}
    for p in r['params']:
        if p[0] not in src:
            return '%s = %s has parameter %s that the signature lacks' % (c.show(), show_sig(r), name_of(p[0]))
        q = src[p[0]]
        if p[1] != q[1] and not (q[1] == 'PK' and p[1] == 'KO'):
            return '%s = %s changed the kind of %s' % (c.show(), show_sig(r), name_of(p[0]))
    kinds = [p[1] for p in r['params']]
    if ha and any(k in ('PO', 'PK', 'VP') for k in kinds):
        return '%s = %s keeps a positional parameter' % (c.show(), show_sig(r))
    if hk and any(k in ('PK', 'KO', 'VK') for k in kinds):
        return '%s = %s keeps a keyword parameter' % (c.show(), show_sig(r))
    if hva and 'VP' in kinds:
        return '%s = %s keeps *args' % (c.show(), show_sig(r))
    if hvk and 'VK' in kinds:
        return '%s = %s keeps **kwargs' % (c.show(), show_sig(r))
    return None


def canon_order(r):
    """result up to the order of keyword-only parameters"""
    if r[0] == 'err':
        return r
    ps = r[1]['params']
    ko = sorted(p for p in ps if p[1] == 'KO')
    rest = [p for p in ps if p[1] != 'KO']
    return ('ok', tuple(rest), tuple(ko), tuple(sorted((k, tuple(v)) for k, v in r[1]['srcs'].items())))


def gen_cases(ctx):
    rng = ctx.rng('gen')
    U2 = universe(2, ['a', 'b'])
    U3 = universe(3, ['a', 'b', 'c'])
    if ctx.quick:
        sigs = U2 + rng.sample(U3, 260) + [random_sig(rng, 'abcde', 5) for _ in range(120)]
        nflagsigs = 60
    else:
        sigs = U2 + U3 + [random_sig(rng, 'abcde', 5) for _ in range(3000)]
        nflagsigs = 600
    # parameter names of more than one letter, some of them spelled with the letters that are
    # names of other parameters (a name is a whole string, never a bag of characters)
    spell = ['a', 'b', 'ab', 'ba', 'self', 'e', 'f', 's']
    sigs = sigs + [random_sig(rng, spell, 4) for _ in range(70 if ctx.quick else 700)]
    cases = []
    fz = id_of_name(FOREIGN)
    for idx, ps in enumerate(sigs):
        d = mk_desc(ps, 100)
        names = [p[0] for p in ps] + [fz]
        allflags = idx % max(1, len(sigs) // nflagsigs) == 0
        flagsets = list(itertools.product((False, True), repeat=4)) if allflags else [(False,) * 4]
        maxr = 3 if len(names) <= 4 else 2
        for n in range(0, len(ps) + 3):
            for r in range(0, maxr + 1):
                for ns in itertools.permutations(names, r):
                    for fl in flagsets:
                        cases.append(Mask(d, n, ns, fl))
    return sigs, cases


def run(ctx, rep):
    sigs, cases = gen_cases(ctx)
    rep.rule = ('signatures: exhaustive U(2,{a,b}) + %s + random 5-name signatures; x n in 0..len+2 x '
                'every duplicate-free name tuple (<=3 names, every order, foreign name z included) x '
                '16 hide flag sets on a subset; non-trivial = the residual differs from the signature or an error is raised'
                % ('sample of U(3)' if ctx.quick else 'exhaustive U(3,{a,b,c})'))
    nb = check_binding_model(rep, [mk_desc(ps, 100) for ps in sigs], 150 if ctx.quick else 600)
    rep.coverage['binding_model_calls_vs_cpython'] = nb
    triples = run_cases(cases)
    rep.evaluations = len(triples)
    errs = 0
    groups = {}
    for c, m, i in triples:
        if proj_shape(m) != proj_shape(i):
            rep.corr_break('mask shape/error-class', c.show(), str(proj_shape(m)), str(proj_shape(i)))
        elif proj_full(m) != proj_full(i):
            rep.corr_break('mask full result', c.show(), str(proj_full(m)), str(proj_full(i)))
        if i[0] == 'err':
            errs += 1
            rep.distinct.add(c.request())
        elif shape_of(i[1]) != shape_of(c.d):
            rep.distinct.add(c.request())
        key = (tok_sig(c.d), c.n, frozenset(c.names), c.flags)
        groups.setdefault(key, []).append((c, i))
    rep.coverage['error_results'] = errs
    for c, m, i in triples[:3] + triples[len(triples) // 2: len(triples) // 2 + 3]:
        rep.sample({'case': c.show(), 'impl': show_sig(i[1]) if i[0] == 'ok' else i[1],
                    'model': show_sig(m[1]) if m[0] == 'ok' else m[1]})
    for c, key, what in decide(triples):
        rep.violation(key, what, dict(c.data(), kind='decide'))
    # order independence
    for key, lst in groups.items():
        if len(set(lst[0][0].names)) != len(lst[0][0].names):
            continue
        if set(lst[0][0].names) & po_names(lst[0][0].d):
            continue
        vals = {}
        for c, i in lst:
            vals.setdefault(str(canon_order(i)), c)
        if len(vals) > 1:
            cs = list(vals.values())
            rep.violation('C03:order', 'result depends on the order of names: %s vs %s' % (cs[0].show(), cs[1].show()),
                          dict(cs[0].data(), kind='order', other=cs[1].data()))
    # laws: mask(s, 0) is s; mask(mask(s, n), m) == mask(s, n + m)
    nl = 0
    for ps in sigs[:400 if ctx.quick else None]:
        d = mk_desc(ps, 100)
        s = build_sig(d)
        r0 = describe_sig(PS.mask(s, 0))
        nl += 1
        if (r0['params'], r0['srcs'], r0['deps']) != (d['params'], d['srcs'], d['deps']):
            rep.violation('C03:law', 'mask(s, 0) != s for s=%s' % show_sig(d), {'kind': 'law0', 'sig': d})
        for n in range(0, 3):
            for m_ in range(0, 3):
                nl += 1
                try:
                    a = describe_sig(PS.mask(PS.mask(s, n), m_))
                    a = (a['params'], a['srcs'], a['deps'])
                except ValueError:
                    a = 'ValueError'
                try:
                    bb = describe_sig(PS.mask(s, n + m_))
                    bb = (bb['params'], bb['srcs'], bb['deps'])
                except ValueError:
                    bb = 'ValueError'
                if a != bb:
                    rep.violation('C03:law', 'mask(mask(s, %d), %d) != mask(s, %d) for s=%s' % (n, m_, n + m_, show_sig(d)),
                                  {'kind': 'law2', 'sig': d, 'n': n, 'm': m_})
    rep.coverage['law_instances'] = nl
    rep.evaluations += nl
    rep.exhaustive = False
    rep.assumptions = [
        'names naming a positional-only parameter are excluded from the decision (version-dependent semantics), not from the correspondence',
        'parameter objects of the inputs are fresh objects',
    ]


def replay(ctx, data):
    from core import S
    r = data['replay']
    kind = r.get('kind')
    if kind == 'decide':
        c = case_from_data(r)
        tr = run_cases([c])
        res = decide(tr)
        return res[0][2] if res else None
    if kind == 'order':
        c1 = case_from_data(r)
        c2 = case_from_data(r['other'])
        a, bb = canon_order(c1.impl()), canon_order(c2.impl())
        return None if a == bb else 'order dependence: %s -> %s ; %s -> %s' % (c1.show(), a, c2.show(), bb)
    if kind == 'law0':
        from algebra import _fix_desc
        d = _fix_desc(r['sig'])
        r0 = describe_sig(PS.mask(build_sig(d), 0))
        ok = (r0['params'], r0['srcs'], r0['deps']) == (d['params'], d['srcs'], d['deps'])
        return None if ok else 'mask(s, 0) != s'
    if kind == 'law2':
        from algebra import _fix_desc
        d = _fix_desc(r['sig'])
        s = build_sig(d)
        try:
            a = describe_sig(PS.mask(PS.mask(s, r['n']), r['m']))['params']
        except ValueError:
            a = 'ValueError'
        try:
            bb = describe_sig(PS.mask(s, r['n'] + r['m']))['params']
        except ValueError:
            bb = 'ValueError'
        return None if a == bb else 'mask(mask(s,n),m) != mask(s,n+m)'
    return None
