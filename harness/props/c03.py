"""C03 — mask: exact residual signature after n positionals and named arguments."""
import itertools

from core import (universe, mk_desc, id_of_name, name_of, show_sig, show_call, tok_sig, tok_names,
                  parse_cex, b, shape_of, describe_sig, build_sig, PS, random_sig)
from algebra import (Mask, run_cases, ask, proj_shape, proj_full, check_binding_model, case_from_data)

import functools
import warnings

LEVEL = 'proof'
FOREIGN = 'z'


# ---------------------------------------------------------------- real signatures, unusual values
# Defaults and annotations that are perfectly legal but outside the model's value domain:
# unhashable objects, objects that are equal without being identical, objects whose == is not a bool.
VALUE_POOL = ['[]', '{}', '[1, 2]', "{'k': 1}", 'set()', '[int]', "{'help': 'x'}", 'NoEq()', 'Odd()',
              '0', 'None', "'s'", '2.0', '()']
REAL_PRELUDE = (
    'class NoEq(object):\n    __hash__ = None\n    def __eq__(self, o):\n        return self is o\n'
    'class Odd(object):\n    def __eq__(self, o):\n        return NotImplemented\n    __hash__ = None\n')


def unusual_source(rng, ps):
    """module source defining f with the parameter list ps; every default is drawn from VALUE_POOL and
    some parameters get an annotation from it (mostly the unhashable ones)"""
    parts, prev = [], None
    for nm, k, de, an, ua in ps:
        if prev == 'PO' and k != 'PO':
            parts.append('/')
        if k == 'KO' and prev not in ('VP', 'KO'):
            parts.append('*')
        t = {'VP': '*', 'VK': '**'}.get(k, '') + name_of(nm)
        ann = rng.random() < 0.35
        if ann:
            t += ': ' + rng.choice(VALUE_POOL[:9] if rng.random() < 0.8 else VALUE_POOL)
        if de is not None:
            t += (' = ' if ann else '=') + rng.choice(VALUE_POOL[:9] if rng.random() < 0.7 else VALUE_POOL)
        parts.append(t)
        prev = k
    if prev == 'PO':
        parts.append('/')
    return REAL_PRELUDE + 'def f(%s):\n    return None\n' % ', '.join(parts)


def real_f(src):
    ns = {'__name__': 'c03_real'}
    exec(compile(src, '<c03-real>', 'exec', dont_inherit=True), ns)
    return ns['f']


def shape_desc(ps):
    return mk_desc([(nm, k, (1 if de is not None else None), None, ('E',)) for nm, k, de, an, ua in ps], 100)


class RealMask(Mask):
    """mask on the signature retrieved from a REAL function (source text src) whose shape is d; the
    model is run on the shape, the answers are compared and decided on shapes (names, kinds, has-default)"""
    def __init__(self, src, d, n, names, flags=(False,) * 4):
        Mask.__init__(self, d, n, names, flags)
        self.src = src

    def thunk(self):
        ha, hk, hva, hvk = self.flags

        def th():
            return PS.mask(PS.signature(real_f(self.src)), self.n, *[name_of(k) for k in self.names],
                           hide_args=ha, hide_kwargs=hk, hide_varargs=hva, hide_varkwargs=hvk)
        return th

    def show(self):
        line = [ln for ln in self.src.split('\n') if ln.startswith('def f(')][0]
        return Mask.show(self).replace(show_sig(self.d), 'signature(`%s`)' % line[:-1], 1)

    def data(self):
        return dict(Mask.data(self), src=self.src)


def real_outcome(th):
    """-> ('ok', (shape, raw parameter reprs, sources as names)) | ('err', exception class name)"""
    try:
        with warnings.catch_warnings():
            warnings.simplefilter('ignore')
            r = th()
    except ValueError:
        return ('err', 'ValueError')
    except Exception as e:  # noqa: BLE001
        return ('err', type(e).__name__ + ': ' + str(e))
    return ('ok', (tuple((q.name, int(q.kind), repr(q.default), repr(q.annotation)) for q in r.parameters.values()),
                   {k: len(v) for k, v in r.sources.items()}))


def real_law(src, n, m):
    f = real_f(src)
    s = PS.signature(f)
    a = real_outcome(lambda: PS.mask(PS.mask(s, n), m))
    bb = real_outcome(lambda: PS.mask(s, n + m))
    if a != bb:
        return 'mask(mask(s, %d), %d) = %s but mask(s, %d) = %s' % (n, m, a, n + m, bb)
    return None


def _binds(sig, npos, kws):
    try:
        sig.bind(*([0] * npos), **dict.fromkeys(kws, 0))
    except TypeError:
        return False
    return True


def real_partial(src, n, kws):
    """signatures.signature(functools.partial(f, <n positionals>, **kws)): a signature or ValueError
    (when f cannot be passed those arguments), and every call shape the signature accepts really
    executes on the partial object (no argument-binding TypeError)."""
    f = real_f(src)
    pobj = functools.partial(f, *([0] * n), **dict.fromkeys(kws, 0))
    try:
        with warnings.catch_warnings():
            warnings.simplefilter('ignore')
            sig = PS.signature(pobj)
    except ValueError:
        try:
            import inspect
            inspect.signature(pobj)
        except ValueError:
            return None
        return 'signature(partial) raised ValueError although inspect.signature gives %s' % inspect.signature(pobj)
    except Exception as e:  # noqa: BLE001
        return 'signature(partial) raised %s: %s (a signature or ValueError is due)' % (type(e).__name__, e)
    names = [q.name for q in sig.parameters.values() if q.kind in (q.POSITIONAL_OR_KEYWORD, q.KEYWORD_ONLY)]
    for npos in range(0, 4):
        for r in range(0, 3):
            for ks in itertools.combinations(names, r):
                if _binds(sig, npos, ks):
                    try:
                        pobj(*([0] * npos), **dict.fromkeys(ks, 0))
                    except TypeError as e:
                        return ('signature(partial) = %s accepts %d positionals + %s but the call fails: %s'
                                % (sig, npos, list(ks), e))
    return None


def real_checks(ctx, rep, sigs):
    rng = ctx.rng('real-unusual')
    fz = id_of_name(FOREIGN)
    cases, nlaw, npart = [], 0, 0
    pool = [ps for ps in sigs if any(p[2] is not None for p in ps) or rng.random() < 0.3]
    for _ in range(90 if ctx.quick else 900):
        ps = rng.choice(pool)
        src = unusual_source(rng, ps)
        d = shape_desc(ps)
        names = [p[0] for p in ps if p[1] != 'PO'] + [fz]
        npos = len([p for p in ps if p[1] in ('PO', 'PK')])
        for n in range(0, npos + 2):
            for r in range(0, 3):
                perms = list(itertools.permutations(names, r))
                for ns in (perms if len(perms) <= 6 else rng.sample(perms, 6)):
                    flagsets = [(False,) * 4] + [tuple(rng.random() < 0.4 for _ in range(4)) for _ in range(2 if r < 2 else 0)]
                    for fl in flagsets:
                        cases.append(RealMask(src, d, n, ns, fl))
            for m_ in range(0, 3):
                nlaw += 1
                what = real_law(src, n, m_)
                if what:
                    rep.violation('C03:law', '%s for s = signature(`%s`)' % (what, [ln for ln in src.split('\n') if ln.startswith('def f(')][0]),
                                  {'kind': 'real-law', 'src': src, 'n': n, 'm': m_})
            kwn = [name_of(p[0]) for p in ps if p[1] in ('PK', 'KO')]
            for ks in [()] + ([(rng.choice(kwn),)] if kwn else []):
                npart += 1
                what = real_partial(src, n, ks)
                if what:
                    rep.violation('C03:partial-real', '%s; f is `%s`, partial(f, <%d positionals>, %s)'
                                  % (what, [ln for ln in src.split('\n') if ln.startswith('def f(')][0], n, list(ks)),
                                  {'kind': 'real-partial', 'src': src, 'n': n, 'kws': list(ks)})
    tr = run_cases(cases)
    for c, m, i in tr:
        if proj_shape(m) != proj_shape(i) and not (i[0] == 'err' and i[1] != 'ValueError'):
            rep.corr_break('mask shape/error-class on a real signature', c.show(), str(proj_shape(m)), str(proj_shape(i)))
        rep.distinct.add(('real', c.src, c.request()))
    for c, key, what in decide(tr):
        rep.violation(key, what, dict(c.data(), kind='real-decide'))
    rep.coverage['real_unusual_value_mask_cases'] = len(tr)
    rep.coverage['real_unusual_value_law_instances'] = nlaw
    rep.coverage['real_unusual_value_partial_cases'] = npart
    rep.evaluations += len(tr) + nlaw + npart


def po_names(d):
    return {p[0] for p in d['params'] if p[1] == 'PO'}


def decide(triples):
    """Decide C03 on implementation results.  triples: [(case, model, impl)].
    Returns list of (case, key, what)."""
    reqs = []
    meta = []
    out = []
    for c, m, i in triples:
        if set(c.names) & po_names(c.d) or len(set(c.names)) != len(c.names):
            continue
        ha, hk, hva, hvk = c.flags
        if i[0] == 'err':
            if i[1] != 'ValueError':
                out.append((c, 'C03:raises', '%s raised %s (only ValueError is allowed)' % (c.show(), i[1])))
                continue
            # raises exactly when sig could not be passed those arguments at all
            if not (ha or hk):
                reqs.append('masknone %s %d %s' % (tok_sig(c.d), c.n, tok_names(c.names)))
                meta.append((c, i, 'none'))
            elif hk and not ha:
                # the named arguments are themselves hidden: only the n positionals must fit
                kinds = [q[1] for q in c.d['params']]
                npos_ = len([k for k in kinds if k in ('PO', 'PK')])
                if c.n <= npos_ or 'VP' in kinds:
                    out.append((c, 'C03:raises', '%s raised ValueError although the signature can be passed %d positional arguments (the keyword arguments are hidden)' % (c.show(), c.n)))
            continue
        r = i[1]
        if any(c.flags):
            reqs.append('maskhide %s %s %d %s %s %s' % (tok_sig(r), tok_sig(c.d), c.n,
                                                        tok_names(c.names), b(ha), b(hk)))
            meta.append((c, i, 'hide'))
            what = removal_only(c, r)
            if what:
                out.append((c, 'C03:hide', what))
        else:
            reqs.append('maskexact %s %s %d %s' % (tok_sig(r), tok_sig(c.d), c.n, tok_names(c.names)))
            meta.append((c, i, 'exact'))
    for (c, i, kind), ans in zip(meta, ask(reqs)):
        cex = parse_cex(ans)
        if cex is None:
            continue
        if kind == 'none':
            out.append((c, 'C03:raises', '%s raised ValueError although the signature accepts those arguments, e.g. followed by call %s' % (c.show(), show_call(cex))))
        elif kind == 'exact':
            out.append((c, 'C03:exact', '%s = %s disagrees with the signature on call %s' % (c.show(), show_sig(i[1]), show_call(cex))))
        else:
            out.append((c, 'C03:hide', '%s = %s accepts call %s that the signature accepts for no choice of hidden arguments' % (c.show(), show_sig(i[1]), show_call(cex))))
    return out


def removal_only(c, r):
    """hide_* flags only ever remove parameters."""
    ha, hk, hva, hvk = c.flags
    src = {p[0]: p for p in c.d['params']}
    for p in r['params']:
        if p[0] not in src:
            return '%s = %s has parameter %s that the signature lacks' % (c.show(), show_sig(r), name_of(p[0]))
        q = src[p[0]]
        if p[1] != q[1] and not (q[1] == 'PK' and p[1] == 'KO'):
            return '%s = %s changed the kind of %s' % (c.show(), show_sig(r), name_of(p[0]))
    kinds = [p[1] for p in r['params']]
    if ha and any(k in ('PO', 'PK', 'VP') for k in kinds):
        return '%s = %s keeps a positional parameter' % (c.show(), show_sig(r))
    if hk and any(k in ('PK', 'KO', 'VK') for k in kinds):
        return '%s = %s keeps a keyword parameter' % (c.show(), show_sig(r))
    if hva and 'VP' in kinds:
        return '%s = %s keeps *args' % (c.show(), show_sig(r))
    if hvk and 'VK' in kinds:
        return '%s = %s keeps **kwargs' % (c.show(), show_sig(r))
    return None


def canon_order(r):
    """result up to the order of keyword-only parameters"""
    if r[0] == 'err':
        return r
    ps = r[1]['params']
    ko = sorted(p for p in ps if p[1] == 'KO')
    rest = [p for p in ps if p[1] != 'KO']
    return ('ok', tuple(rest), tuple(ko), tuple(sorted((k, tuple(v)) for k, v in r[1]['srcs'].items())))


def gen_cases(ctx):
    rng = ctx.rng('gen')
    U2 = universe(2, ['a', 'b'])
    U3 = universe(3, ['a', 'b', 'c'])
    if ctx.quick:
        sigs = U2 + rng.sample(U3, 260) + [random_sig(rng, 'abcde', 5) for _ in range(120)]
        nflagsigs = 60
    else:
        sigs = U2 + U3 + [random_sig(rng, 'abcde', 5) for _ in range(3000)]
        nflagsigs = 600
    # parameter names of more than one letter, some of them spelled with the letters that are
    # names of other parameters (a name is a whole string, never a bag of characters)
    spell = ['a', 'b', 'ab', 'ba', 'self', 'e', 'f', 's']
    sigs = sigs + [random_sig(rng, spell, 4) for _ in range(70 if ctx.quick else 700)]
    cases = []
    fz = id_of_name(FOREIGN)
    for idx, ps in enumerate(sigs):
        d = mk_desc(ps, 100)
        names = [p[0] for p in ps] + [fz]
        allflags = idx % max(1, len(sigs) // nflagsigs) == 0
        flagsets = list(itertools.product((False, True), repeat=4)) if allflags else [(False,) * 4]
        maxr = 3 if len(names) <= 4 else 2
        for n in range(0, len(ps) + 3):
            for r in range(0, maxr + 1):
                for ns in itertools.permutations(names, r):
                    for fl in flagsets:
                        cases.append(Mask(d, n, ns, fl))
    return sigs, cases


def run(ctx, rep):
    sigs, cases = gen_cases(ctx)
    rep.rule = ('signatures: exhaustive U(2,{a,b}) + %s + random 5-name signatures; x n in 0..len+2 x '
                'every duplicate-free name tuple (<=3 names, every order, foreign name z included) x '
                '16 hide flag sets on a subset; non-trivial = the residual differs from the signature or an error is raised'
                % ('sample of U(3)' if ctx.quick else 'exhaustive U(3,{a,b,c})'))
    nb = check_binding_model(rep, [mk_desc(ps, 100) for ps in sigs], 150 if ctx.quick else 600)
    rep.coverage['binding_model_calls_vs_cpython'] = nb
    triples = run_cases(cases)
    rep.evaluations = len(triples)
    errs = 0
    groups = {}
    for c, m, i in triples:
        if proj_shape(m) != proj_shape(i):
            rep.corr_break('mask shape/error-class', c.show(), str(proj_shape(m)), str(proj_shape(i)))
        elif proj_full(m) != proj_full(i):
            rep.corr_break('mask full result', c.show(), str(proj_full(m)), str(proj_full(i)))
        if i[0] == 'err':
            errs += 1
            rep.distinct.add(c.request())
        elif shape_of(i[1]) != shape_of(c.d):
            rep.distinct.add(c.request())
        key = (tok_sig(c.d), c.n, frozenset(c.names), c.flags)
        groups.setdefault(key, []).append((c, i))
    rep.coverage['error_results'] = errs
    for c, m, i in triples[:3] + triples[len(triples) // 2: len(triples) // 2 + 3]:
        rep.sample({'case': c.show(), 'impl': show_sig(i[1]) if i[0] == 'ok' else i[1],
                    'model': show_sig(m[1]) if m[0] == 'ok' else m[1]})
    for c, key, what in decide(triples):
        rep.violation(key, what, dict(c.data(), kind='decide'))
    # order independence
    for key, lst in groups.items():
        if len(set(lst[0][0].names)) != len(lst[0][0].names):
            continue
        if set(lst[0][0].names) & po_names(lst[0][0].d):
            continue
        vals = {}
        for c, i in lst:
            vals.setdefault(str(canon_order(i)), c)
        if len(vals) > 1:
            cs = list(vals.values())
            rep.violation('C03:order', 'result depends on the order of names: %s vs %s' % (cs[0].show(), cs[1].show()),
                          dict(cs[0].data(), kind='order', other=cs[1].data()))
    # laws: mask(s, 0) is s; mask(mask(s, n), m) == mask(s, n + m)
    nl = 0
    for ps in sigs[:400 if ctx.quick else None]:
        d = mk_desc(ps, 100)
        s = build_sig(d)
        r0 = describe_sig(PS.mask(s, 0))
        nl += 1
        if (r0['params'], r0['srcs'], r0['deps']) != (d['params'], d['srcs'], d['deps']):
            rep.violation('C03:law', 'mask(s, 0) != s for s=%s' % show_sig(d), {'kind': 'law0', 'sig': d})
        for n in range(0, 3):
            for m_ in range(0, 3):
                nl += 1
                try:
                    a = describe_sig(PS.mask(PS.mask(s, n), m_))
                    a = (a['params'], a['srcs'], a['deps'])
                except ValueError:
                    a = 'ValueError'
                try:
                    bb = describe_sig(PS.mask(s, n + m_))
                    bb = (bb['params'], bb['srcs'], bb['deps'])
                except ValueError:
                    bb = 'ValueError'
                if a != bb:
                    rep.violation('C03:law', 'mask(mask(s, %d), %d) != mask(s, %d) for s=%s' % (n, m_, n + m_, show_sig(d)),
                                  {'kind': 'law2', 'sig': d, 'n': n, 'm': m_})
    rep.coverage['law_instances'] = nl
    rep.evaluations += nl
    real_checks(ctx, rep, sigs)
    rep.exhaustive = False
    rep.assumptions = [
        'names naming a positional-only parameter are excluded from the decision (version-dependent semantics), not from the correspondence',
        'parameter objects of the inputs are fresh objects',
    ]


def replay(ctx, data):
    from core import S
    r = data['replay']
    kind = r.get('kind')
    if kind == 'decide':
        c = case_from_data(r)
        tr = run_cases([c])
        res = decide(tr)
        return res[0][2] if res else None
    if kind == 'real-decide':
        from algebra import _fix_desc
        c = RealMask(r['src'], _fix_desc(r['sig']), r['n'], r['names'], r['flags'])
        res = decide(run_cases([c]))
        return res[0][2] if res else None
    if kind == 'real-law':
        return real_law(r['src'], r['n'], r['m'])
    if kind == 'real-partial':
        return real_partial(r['src'], r['n'], tuple(r['kws']))
    if kind == 'order':
        c1 = case_from_data(r)
        c2 = case_from_data(r['other'])
        a, bb = canon_order(c1.impl()), canon_order(c2.impl())
        return None if a == bb else 'order dependence: %s -> %s ; %s -> %s' % (c1.show(), a, c2.show(), bb)
    if kind == 'law0':
        from algebra import _fix_desc
        d = _fix_desc(r['sig'])
        r0 = describe_sig(PS.mask(build_sig(d), 0))
        ok = (r0['params'], r0['srcs'], r0['deps']) == (d['params'], d['srcs'], d['deps'])
        return None if ok else 'mask(s, 0) != s'
    if kind == 'law2':
        from algebra import _fix_desc
        d = _fix_desc(r['sig'])
        s = build_sig(d)
        try:
            a = describe_sig(PS.mask(PS.mask(s, r['n']), r['m']))['params']
        except ValueError:
            a = 'ValueError'
        try:
            bb = describe_sig(PS.mask(s, r['n'] + r['m']))['params']
        except ValueError:
            bb = 'ValueError'
        return None if a == bb else 'mask(mask(s,n),m) != mask(s,n+m)'
    return None
