"""C04 — declared forwarding (forwards_to_*): the reported signature is safe to call."""
import inspect
import warnings

from core import (universe, mk_desc, show_sig, show_call, tok_sig, tok_sigs, tok_names, parse_cex,
                  random_sig, id_of_name, name_of, describe_sig, PS, S, classify_exc, shape_of,
                  tok_call, b, build_sig, run_impl, mk_param)
from algebra import (Forwards, run_cases, ask, proj_full, proj_shape, proj_params, proj_prov,
                     def_source, case_from_data)
import sigtools
from sigtools import specifiers

LEVEL = 'proof'
ARGS, KWARGS, SELF = id_of_name('args'), id_of_name('kwargs'), id_of_name('self')


def params_src(d):
    src = def_source(d, 'f')
    return src[src.index('(') + 1: src.rindex('):')]


def call_args(n, names, fwd_va, fwd_vk):
    parts = ['0'] * n
    if fwd_va:
        parts.append('*args')
    parts += ['%s=0' % name_of(k) for k in names]
    if fwd_vk:
        parts.append('**kwargs')
    return ', '.join(parts)


def deco_args(n, names, uva, uvk, partial, emulate, first=None):
    parts = []
    if first:
        parts.append(first)
    parts.append(str(n))
    parts += [repr(name_of(k)) for k in names]
    parts += ['use_varargs=%s' % uva, 'use_varkwargs=%s' % uvk]
    if partial:
        parts.append('partial=True')
    if emulate:
        parts.append('emulate=True')
    return ', '.join(parts)


def has(d, kind):
    return any(p[1] == kind for p in d['params'])


def build_program(form, o, i, n, names, uva, uvk, partial, emulate):
    """-> (source, getter) ; getter(ns) returns dict of callables to examine:
    {'label': (callable, outer_desc_for_this_binding, bound?)}"""
    fwd_va = uva and has(o, 'VP')
    fwd_vk = uvk and has(o, 'VK')
    ca = call_args(n, names, fwd_va, fwd_vk)
    if form == 'function':
        body = 'functools.partial(inner, %s)' % ca if partial else 'inner(%s)' % ca
        # every third program: the wrapper already carries a __signature__ of its own (put there by
        # modifiers.annotate) when the forger is declared
        named = [p for p in o['params'] if p[1] in ('PO', 'PK', 'KO')]
        ann = ''
        if named and (n + len(names) + int(uva) + 2 * int(uvk)) % 3 == 0:
            ann = '@sigtools.modifiers.annotate(%s=int)\n' % name_of(named[0][0])
        src = ('import functools\nimport sigtools.modifiers\nfrom sigtools.specifiers import *\n'
               'def inner(%s):\n    return None\n'
               '@forwards_to_function(%s)\n' + ann +
               'def wrapper(%s):\n    return %s\n') % (
            params_src(i), deco_args(n, names, uva, uvk, partial, emulate, 'inner'), params_src(o), body)
        return src, lambda ns: {'wrapper': ns['wrapper']}
    so = mk_desc([mk_param(SELF, 'PK')] + list(o['params']), 100)
    si = mk_desc([mk_param(SELF, 'PK')] + list(i['params']), 101)
    # half of the classes produce instances whose truth value is False (an empty
    # container): the forgers must test the bound instance for None, not for truth
    falsy = ('    def __len__(self):\n        return 0\n'
             if (n + len(names) + int(uva) + int(uvk)) % 2 == 0 else '')
    if form == 'method':
        body = 'functools.partial(self.inner, %s)' % ca if partial else 'self.inner(%s)' % ca
        src = ('import functools\nfrom sigtools.specifiers import *\n'
               'class K(object):\n' + falsy +
               '    def inner(%s):\n        return None\n'
               '    @forwards_to_method(%s)\n'
               '    def wrapper(%s):\n        return %s\n') % (
            params_src(si), deco_args(n, names, uva, uvk, partial, emulate, "'inner'"), params_src(so), body)
        return src, lambda ns: {'K().wrapper': ns['K']().wrapper}
    if form == 'super':
        body = 'functools.partial(super().wrapper, %s)' % ca if partial else 'super().wrapper(%s)' % ca
        src = ('import functools\nfrom sigtools.specifiers import *\n'
               'class Base(object):\n' + falsy +
               '    def wrapper(%s):\n        return None\n'
               'class Sub(Base):\n'
               '    @forwards_to_super(%s)\n'
               '    def wrapper(%s):\n        return %s\n'
               'class SubSub(Sub):\n    pass\n') % (
            params_src(si), deco_args(n, names, uva, uvk, partial, emulate), params_src(so), body)
        return src, lambda ns: {'Sub().wrapper': ns['Sub']().wrapper, 'SubSub().wrapper': ns['SubSub']().wrapper}
    if form == 'apply_super':
        body = 'functools.partial(super(Sub, self).wrapper, %s)' % ca if partial else 'super(Sub, self).wrapper(%s)' % ca
        da = ', '.join(["'wrapper'", 'num_args=%d' % n, 'named_args=%r' % (tuple(name_of(k) for k in names),),
                        'use_varargs=%s' % uva, 'use_varkwargs=%s' % uvk] + (['partial=True'] if partial else []))
        src = ('import functools\nfrom sigtools.specifiers import *\n'
               'class Base(object):\n' + falsy +
               '    def wrapper(%s):\n        return None\n'
               '@apply_forwards_to_super(%s)\n'
               'class Sub(Base):\n'
               '    def wrapper(%s):\n        return %s\n') % (params_src(si), da, params_src(so), body)
        return src, lambda ns: {'Sub().wrapper': ns['Sub']().wrapper}
    if form == 'apply_super_kwo':
        # the declared method is ALSO decorated with a modifier (its keyword-only parameter `e` is written
        # as a positional-or-keyword one and converted by modifiers.kwoargs): the object the forger is
        # handed is a modifiers translator, not a plain bound method
        body = 'functools.partial(super(Sub, self).wrapper, %s)' % ca if partial else 'super(Sub, self).wrapper(%s)' % ca
        da = ', '.join(["'wrapper'", 'num_args=%d' % n, 'named_args=%r' % (tuple(name_of(k) for k in names),),
                        'use_varargs=%s' % uva, 'use_varkwargs=%s' % uvk] + (['partial=True'] if partial else []))
        conv = id_of_name('e')
        written, placed = [], False
        for q in so['params']:
            if q[0] == conv:
                continue
            if not placed and q[1] not in ('PO', 'PK'):
                written.append(mk_param(conv, 'PK', 1))
                placed = True
            written.append(q)
        if not placed:
            written.append(mk_param(conv, 'PK', 1))
        src = ('import functools\nimport sigtools.modifiers\nfrom sigtools.specifiers import *\n'
               'class Base(object):\n' + falsy +
               '    def wrapper(%s):\n        return None\n'
               '@apply_forwards_to_super(%s)\n'
               'class Sub(Base):\n'
               "    @sigtools.modifiers.kwoargs('e')\n"
               '    def wrapper(%s):\n        return %s\n') % (params_src(si), da, params_src(mk_desc(written, 100)), body)
        return src, lambda ns: {'Sub().wrapper': ns['Sub']().wrapper}
    if form == 'apply_super_shared':
        # ONE decorator object applied to two unrelated classes: each gets forgers for itself
        body1 = 'functools.partial(super(Sub, self).wrapper, %s)' % ca if partial else 'super(Sub, self).wrapper(%s)' % ca
        body2 = body1.replace('super(Sub, self)', 'super(Sub2, self)')
        da = ', '.join(["'wrapper'", 'num_args=%d' % n, 'named_args=%r' % (tuple(name_of(k) for k in names),),
                        'use_varargs=%s' % uva, 'use_varkwargs=%s' % uvk] + (['partial=True'] if partial else []))
        src = ('import functools\nfrom sigtools.specifiers import *\n'
               'deco = apply_forwards_to_super(%s)\n'
               'class Base(object):\n' + falsy +
               '    def wrapper(%s):\n        return None\n'
               '@deco\n'
               'class Sub(Base):\n'
               '    def wrapper(%s):\n        return %s\n'
               'class Base2(object):\n' + falsy +
               '    def wrapper(%s):\n        return None\n'
               '@deco\n'
               'class Sub2(Base2):\n'
               '    def wrapper(%s):\n        return %s\n') % (da, params_src(si), params_src(so), body1,
                                                             params_src(si), params_src(so), body2)
        return src, lambda ns: {'Sub().wrapper': ns['Sub']().wrapper, 'Sub2().wrapper': ns['Sub2']().wrapper}
    if form == 'classmethod':
        # the forger sits on top of a classmethod object (needs emulate=True); looked up on the class,
        # on an instance, on a subclass and on a subclass instance
        body = 'functools.partial(self.inner, %s)' % ca if partial else 'self.inner(%s)' % ca
        src = ('import functools\nfrom sigtools.specifiers import *\n'
               'class K(object):\n' + falsy +
               '    @classmethod\n'
               '    def inner(%s):\n        return None\n'
               '    @forwards_to_method(%s)\n'
               '    @classmethod\n'
               '    def wrapper(%s):\n        return %s\n'
               'class Sub(K):\n    pass\n') % (
            params_src(si), deco_args(n, names, uva, uvk, partial, True, "'inner'"), params_src(so), body)
        return src, lambda ns: {'K.wrapper': ns['K'].wrapper, 'K().wrapper': ns['K']().wrapper,
                                'Sub.wrapper': ns['Sub'].wrapper, 'Sub().wrapper': ns['Sub']().wrapper}
    if form == 'classmethod_super':
        body = 'functools.partial(super().wrapper, %s)' % ca if partial else 'super().wrapper(%s)' % ca
        src = ('import functools\nfrom sigtools.specifiers import *\n'
               'class Base(object):\n' + falsy +
               '    @classmethod\n'
               '    def wrapper(%s):\n        return None\n'
               'class Sub(Base):\n'
               '    @forwards_to_super(%s)\n'
               '    @classmethod\n'
               '    def wrapper(%s):\n        return %s\n'
               'class SubSub(Sub):\n    pass\n') % (
            params_src(si), deco_args(n, names, uva, uvk, partial, True), params_src(so), body)
        return src, lambda ns: {'Sub.wrapper': ns['Sub'].wrapper, 'Sub().wrapper': ns['Sub']().wrapper,
                                'SubSub.wrapper': ns['SubSub'].wrapper}
    if form == 'static_function':
        body = 'functools.partial(inner, %s)' % ca if partial else 'inner(%s)' % ca
        src = ('import functools\nfrom sigtools.specifiers import *\n'
               'def inner(%s):\n    return None\n'
               'class K(object):\n' + falsy +
               '    @forwards_to_function(%s)\n'
               '    @staticmethod\n'
               '    def wrapper(%s):\n        return %s\n') % (
            params_src(i), deco_args(n, names, uva, uvk, partial, True, 'inner'), params_src(o), body)
        return src, lambda ns: {'K.wrapper': ns['K'].wrapper, 'K().wrapper': ns['K']().wrapper}
    raise ValueError(form)


def exec_call(f, call):
    n, ks = call
    try:
        f(*([0] * n), **{name_of(k): 0 for k in ks})
    except TypeError:
        return False
    return True


def program_checks(ctx, rep):
    rng = ctx.rng('programs')
    U2o = universe(2, ['a', 'b'])
    U2i = universe(2, ['c', 'd'], stars=(('args', 'kwargs'), ('va', 'vk')))
    nprog = 500 if ctx.quick else 6000
    progs = []
    for _ in range(nprog):
        o = mk_desc(rng.choice(U2o), 100)
        i = mk_desc(rng.choice(U2i), 101)
        if not (has(o, 'VP') or has(o, 'VK')):
            continue
        inames = [p[0] for p in i['params'] if p[1] in ('PK', 'KO')]
        n = rng.choice([0, 0, 1, 2])
        names = rng.sample(inames, rng.randint(0, min(1, len(inames))))
        uva = has(o, 'VP') and rng.random() < 0.85
        uvk = has(o, 'VK') and rng.random() < 0.85
        partial = rng.random() < 0.15
        emulate = rng.random() < 0.3
        form = rng.choice(['function', 'function', 'method', 'super', 'apply_super', 'apply_super_shared'])
        if form == 'apply_super' and rng.random() < 0.35:
            # the same declaration on a method that a modifier converts: the wrapper advertises a
            # keyword-only parameter `e` (default 1) more
            ps = list(o['params'])
            kpos = len(ps) - (1 if ps and ps[-1][1] == 'VK' else 0)
            ps.insert(kpos, mk_param(id_of_name('e'), 'KO', 1))
            o = mk_desc(ps, 100)
            form = 'apply_super_kwo'
        if rng.random() < 0.2:
            # descriptor placements other than a plain method: only the wrapper strategy (emulate=True)
            # can carry a forger on top of a classmethod / staticmethod object
            form = rng.choice(['classmethod', 'classmethod_super', 'static_function'])
            emulate = True
        progs.append((form, o, i, n, names, uva, uvk, partial, emulate))
    # expected signatures from the model
    model = ask(['forwards %s %s %d %s 0 0 %s %s %s' % (tok_sig(o), tok_sig(i), n, tok_names(names), b(uva), b(uvk), b(partial))
                 for form, o, i, n, names, uva, uvk, partial, emulate in progs])
    from core import parse_result
    execd = 0
    ncalls = 0
    pending = []
    for prog, mline in zip(progs, model):
        form, o, i, n, names, uva, uvk, partial, emulate = prog
        m = parse_result(mline)
        src, getter = build_program(*prog)
        label0 = '%s program: outer%s inner%s n=%d names=%s use_varargs=%s use_varkwargs=%s partial=%s emulate=%s' % (
            form, show_sig(o), show_sig(i), n, [name_of(k) for k in names], uva, uvk, partial, emulate)
        ns = {}
        try:
            with warnings.catch_warnings():
                warnings.simplefilter('ignore')
                exec(compile(src, '<c04-program>', 'exec'), ns)
                objs = getter(ns)
        except Exception as e:  # noqa: BLE001
            rep.violation('C04:program', '%s: defining the program raised %s: %s' % (label0, type(e).__name__, e), {'kind': 'program', 'src': src})
            continue
        for label, f in objs.items():
            execd += 1
            try:
                with warnings.catch_warnings():
                    warnings.simplefilter('ignore')
                    sig = sigtools.signature(f)
                    isig = inspect.signature(f) if (emulate and not form.startswith('apply_super')) else None
            except ValueError as e:
                if m[0] == 'ok':
                    rep.violation('C04:retrieval', '%s: sigtools.signature(%s) raised %s but forwards() of the same signatures succeeds' % (label0, label, classify_exc(e)), {'kind': 'program', 'src': src})
                continue
            except Exception as e:  # noqa: BLE001
                rep.violation('C04:retrieval', '%s: sigtools.signature(%s) raised %s' % (label0, label, classify_exc(e)), {'kind': 'program', 'src': src})
                continue
            got = describe_sig(sig)
            if m[0] != 'ok':
                rep.violation('C04:retrieval', '%s: signature(%s) = %s although forwards() is %s' % (label0, label, show_sig(got), m[1]), {'kind': 'program', 'src': src})
                continue
            if shape_of(got) != shape_of(m[1]):
                rep.corr_break('signature of declared wrapper vs model forwards', label0 + ' / ' + label, show_sig(m[1]), show_sig(got))
            if isig is not None and [(p.name, p.kind, p.default is not p.empty) for p in isig.parameters.values()] != \
                    [(p.name, p.kind, p.default is not p.empty) for p in sig.parameters.values()]:
                rep.violation('C04:emulate', '%s: inspect.signature(%s) = %s differs from sigtools.signature = %s' % (label0, label, isig, sig), {'kind': 'program', 'src': src})
            pending.append((label0, label, f, got, prog, src))
    shape_lines = ask(['shapes 3 %s %s %s' % (tok_sig(got), tok_sig(prog[1]), tok_sig(prog[2])) for (_, _, f, got, prog, src) in pending])
    acc = []
    calls_all = []
    for (label0, label, f, got, prog, src), sl in zip(pending, shape_lines):
        calls = []
        for item in sl.split(';'):
            np_, _, ks = item.partition(':')
            calls.append((int(np_), [int(k) for k in ks.split(',') if k]))
        calls_all.append(calls)
        acc.append('acceptsall %s %d %s' % (tok_sig(got), len(calls), ' '.join(tok_call(cl) for cl in calls)))
    for (label0, label, f, got, prog, src), calls, ans in zip(pending, calls_all, ask(acc)):
        form, o, i, n, names, uva, uvk, partial, emulate = prog
        kwp = {q[0] for q in got['params'] if q[1] in ('PK', 'KO')}
        allnames = {q[0] for q in o['params']} | {q[0] for q in i['params']} | {q[0] for q in got['params']} | {SELF}
        exact = (not partial) and not any(p[1] in ('PO', 'PK') and p[2] is not None for p in o['params'])
        for cl, a in zip(calls, ans):
            if not all(k in kwp or k not in allnames for k in cl[1]):
                continue
            ncalls += 1
            real = exec_call(f, cl)
            if a == 'T' and not real:
                rep.violation('C04:unsafe', '%s: %s advertises %s which accepts call %s, but executing it raises an argument-binding TypeError' % (
                    label0, label, show_sig(got), show_call(cl)), {'kind': 'program', 'src': src, 'call': cl, 'label': label})
                break
            if a == 'F' and real and exact:
                rep.violation('C04:inexact', '%s: %s advertises %s which rejects call %s, but executing it succeeds' % (
                    label0, label, show_sig(got), show_call(cl)), {'kind': 'program', 'src': src, 'call': cl, 'label': label})
                break
    return len(progs), execd, ncalls


# ---------------------------------------------------------------- histories: retrieve (fails) / repair / retrieve
HISTORY_FORMS = ['ivar_emulate', 'class_attr_emulate', 'as_forged_call', 'as_forged_call_class_attr']
PROBES = ['inspect.signature(target)', "getattr(target, '__signature__', None)", "hasattr(target, '__signature__')",
          'sigtools.signature(target)']


def build_history(form, o, i, n, names, uva, uvk, probes):
    """A program whose callee is bound LATE (the reason forgers run lazily): the object is created and kept,
    its signature is asked for while the callee does not exist yet (that retrieval cannot succeed), the
    callee is then assigned, and the signature is asked for again."""
    fwd_va = uva and has(o, 'VP')
    fwd_vk = uvk and has(o, 'VK')
    ca = call_args(n, names, fwd_va, fwd_vk)
    so = mk_desc([mk_param(SELF, 'PK')] + list(o['params']), 100)
    si = mk_desc([mk_param(SELF, 'PK')] + list(i['params']), 101)
    head = 'import inspect\nimport sigtools\nfrom sigtools.specifiers import *\n'
    emulate = form.endswith('_emulate')
    da = deco_args(n, names, uva, uvk, False, emulate, "'handler'")
    if form in ('ivar_emulate', 'class_attr_emulate'):
        src = head + ('class K(object):\n'
                      '    @forwards_to_method(%s)\n'
                      '    def wrapper(%s):\n        return self.handler(%s)\n'
                      'obj = K()\ntarget = obj.wrapper\n') % (da, params_src(so), ca)
    else:
        src = head + ('class K(object):\n'
                      '    __signature__ = as_forged\n'
                      '    @forwards_to_method(%s)\n'
                      '    def __call__(%s):\n        return self.handler(%s)\n'
                      'obj = K()\ntarget = obj\n') % (da, params_src(so), ca)
    if form in ('ivar_emulate', 'as_forged_call'):
        repair = 'def inner(%s):\n    return None\nobj.handler = inner\n' % params_src(i)
    else:
        repair = 'def inner(%s):\n    return None\nK.handler = inner\n' % params_src(si)
    return {'src': src, 'probes': list(probes), 'repair': repair}


def _shape3(sig):
    return [(p.name, int(p.kind), p.default is not p.empty) for p in sig.parameters.values()]


def run_history(h, allnames):
    """-> (findings [(key, what)], sigtools signature after the repair or None, log of the early probes)"""
    ns = {}
    out, log = [], []
    with warnings.catch_warnings():
        warnings.simplefilter('ignore')
        exec(compile(h['src'], '<c04-history>', 'exec'), ns)
        for pr in h['probes']:
            try:
                log.append('%s -> %s' % (pr, eval(pr, ns)))
            except Exception as e:  # noqa: BLE001
                log.append('%s raised %s' % (pr, type(e).__name__))
        exec(compile(h['repair'], '<c04-history>', 'exec'), ns)
        target = ns['target']
        try:
            ssig = sigtools.signature(target)
        except Exception as e:  # noqa: BLE001
            return [('C04:retrieval', 'sigtools.signature(target) raised %s after the callee was assigned' % classify_exc(e))], None, log
        try:
            isig = inspect.signature(target)
        except Exception as e:  # noqa: BLE001
            return [('C04:emulate', 'inspect.signature(target) raised %s: %s although sigtools.signature(target) = %s'
                     % (type(e).__name__, e, ssig))], ssig, log
    if _shape3(isig) != _shape3(ssig):
        out.append(('C04:emulate', 'inspect.signature(target) = %s differs from sigtools.signature(target) = %s' % (isig, ssig)))
    kwp = {p.name for p in isig.parameters.values() if p.kind in (p.POSITIONAL_OR_KEYWORD, p.KEYWORD_ONLY)}
    import itertools
    kws = sorted(set(allnames) | set(isig.parameters) | {'z'})
    for npos in range(0, 5):
        for r in range(0, 3):
            for ks in itertools.combinations(kws, r):
                if not all(k in kwp or (k not in allnames and k not in isig.parameters) for k in ks):
                    continue
                try:
                    isig.bind(*([0] * npos), **dict.fromkeys(ks, 0))
                except TypeError:
                    continue
                try:
                    target(*([0] * npos), **dict.fromkeys(ks, 0))
                except TypeError as e:
                    out.append(('C04:unsafe', 'inspect.signature(target) = %s accepts %d positionals + %s, but executing the call raises TypeError: %s'
                                % (isig, npos, list(ks), e)))
                    return out, ssig, log
    return out, ssig, log


def history_checks(ctx, rep):
    rng = ctx.rng('histories')
    U2o = universe(2, ['a', 'b'])
    U2i = universe(2, ['c', 'd'], stars=(('args', 'kwargs'), ('va', 'vk')))
    hs = []
    for _ in range(600 if ctx.quick else 5000):
        o = mk_desc(rng.choice(U2o), 100)
        i = mk_desc(rng.choice(U2i), 101)
        if not (has(o, 'VP') or has(o, 'VK')):
            continue
        inames = [p[0] for p in i['params'] if p[1] in ('PK', 'KO')]
        n = rng.choice([0, 0, 1, 2])
        names = rng.sample(inames, rng.randint(0, min(1, len(inames))))
        uva = has(o, 'VP') and rng.random() < 0.85
        uvk = has(o, 'VK') and rng.random() < 0.85
        form = rng.choice(HISTORY_FORMS)
        probes = [rng.choice(PROBES) for _ in range(rng.choice([0, 1, 1, 2, 3]))]
        hs.append((form, o, i, n, names, uva, uvk, probes))
    model = ask(['forwards %s %s %d %s 0 0 %s %s 0' % (tok_sig(o), tok_sig(i), n, tok_names(names), b(uva), b(uvk))
                 for form, o, i, n, names, uva, uvk, probes in hs])
    from core import parse_result
    nh = 0
    for (form, o, i, n, names, uva, uvk, probes), mline in zip(hs, model):
        m = parse_result(mline)
        if m[0] != 'ok':
            continue
        nh += 1
        h = build_history(form, o, i, n, names, uva, uvk, probes)
        allnames = sorted({name_of(q[0]) for q in o['params']} | {name_of(q[0]) for q in i['params']} | {'self'})
        label = ('%s history: outer%s, callee%s assigned late, n=%d names=%s use_varargs=%s use_varkwargs=%s'
                 % (form, show_sig(o), show_sig(i), n, [name_of(k) for k in names], uva, uvk))
        try:
            res, ssig, log = run_history(h, allnames)
        except Exception as e:  # noqa: BLE001
            rep.violation('C04:program', '%s: running the history raised %s: %s' % (label, type(e).__name__, e),
                          dict(h, kind='history', allnames=allnames))
            continue
        if ssig is not None and shape_of(describe_sig(ssig)) != shape_of(m[1]):
            rep.corr_break('signature after late binding vs model forwards', label, show_sig(m[1]), str(ssig))
        for key, what in res:
            rep.violation(key, '%s: before the callee existed: %s; after it was assigned: %s' % (label, log or ['no retrieval'], what),
                          dict(h, kind='history', allnames=allnames))
            break
        rep.distinct.add(('history', form, tok_sig(o), tok_sig(i), n, tuple(names), tuple(probes)))
    return nh


def decide(triples):
    """forwards algebra: chain soundness / exactness on implementation output,
    and forwards == embed(outer, mask(inner))"""
    out, reqs, meta = [], [], []
    for c, m, i in triples:
        # identity forwards == embed o mask on the implementation
        def alt():
            inner = build_sig(c.i)
            if c.partial:
                inner = inner.replace(parameters=[p if p.kind in (p.VAR_POSITIONAL, p.VAR_KEYWORD) else p.replace(default=None)
                                                  for p in inner.parameters.values()])
            return PS.embed(build_sig(c.o), PS.mask(inner, c.n, *[name_of(k) for k in c.names], hide_args=c.ha, hide_kwargs=c.hk),
                            use_varargs=c.uva, use_varkwargs=c.uvk)
        j = run_impl(alt)
        if proj_full(i) != proj_full(j):
            out.append((c, 'C04:definition', '%s = %s but embed(outer, mask(inner, ...)) = %s' % (c.show(), proj_full(i), proj_full(j))))
        if i[0] != 'ok':
            continue
        if set(c.names) & {p[0] for p in c.i['params'] if p[1] == 'PO'}:
            continue
        inner = c.i
        if c.partial:
            inner = dict(c.i, params=[p if p[1] in ('VP', 'VK') else (p[0], p[1], 0, p[3], p[4]) for p in c.i['params']])
        if c.ha or c.hk:
            continue        # hide flags: covered by C03's hidden-argument clause and C05
        tail = '%s %s %d %s 0' % (b(c.uva), b(c.uvk), c.n, tok_names(c.names))
        reqs.append('chainsound %s %s %s %s' % (tok_sig(i[1]), tok_sig(c.o), tok_sig(inner), tail))
        meta.append((c, i, 'sound'))
        o_defaulted = any(p[1] in ('PO', 'PK') and p[2] is not None for p in c.o['params'])
        if not o_defaulted and not c.partial:
            reqs.append('chainexact %s %s %s %s' % (tok_sig(i[1]), tok_sig(c.o), tok_sig(inner), tail))
            meta.append((c, i, 'exact'))
    for (c, i, kind), ans in zip(meta, ask(reqs)):
        cex = parse_cex(ans)
        if cex is None:
            continue
        if kind == 'sound':
            out.append((c, 'C04:sound', '%s = %s accepts the non-colliding call %s which the wrapper or the callee rejects' % (c.show(), show_sig(i[1]), show_call(cex))))
        else:
            out.append((c, 'C04:exact', '%s = %s differs from executing the wrapper on the non-colliding call %s' % (c.show(), show_sig(i[1]), show_call(cex))))
    return out


def run(ctx, rep):
    rng = ctx.rng('gen')
    U2o = universe(2, ['a', 'b'])
    U2i = universe(2, ['c', 'd'], stars=(('args', 'kwargs'), ('va', 'vk')))
    U3 = universe(3, ['a', 'b', 'c'])
    fz = id_of_name('z')
    cases = []
    for _ in range(15000 if ctx.quick else 200000):
        if rng.random() < 0.8:
            o, i = rng.choice(U2o), rng.choice(U2i)
        else:
            o, i = rng.choice(U3), rng.choice(U3)
        names = [p[0] for p in i if p[1] in ('PK', 'KO')] + [fz]
        ns = rng.sample(names, rng.randint(0, min(2, len(names))))
        cases.append(Forwards(mk_desc(o, 100), mk_desc(i, 101), rng.choice([0, 0, 1, 2, 3]), ns,
                              rng.random() < 0.1, rng.random() < 0.1, rng.random() < 0.85,
                              rng.random() < 0.85, rng.random() < 0.15))
    rep.rule = ('forwards(outer, inner, n, names, flags) over U(2,{a,b}) x U(2,{c,d}) (two star namings) and U(3)^2; real wrapper programs '
                '(function, method, super, apply_forwards_to_super; emulate and partial variants) executed on every call shape; '
                'non-trivial = the declared signature differs from the wrapper\'s own')
    tr = run_cases(cases)
    rep.evaluations = len(tr)
    for c, m, i in tr:
        if proj_shape(m) != proj_shape(i):
            rep.corr_break('forwards shape/error-class', c.show(), str(proj_shape(m)), str(proj_shape(i)))
        elif proj_full(m) != proj_full(i):
            rep.corr_break('forwards full result', c.show(), str(proj_full(m)), str(proj_full(i)))
        if i[0] == 'err' or shape_of(i[1]) != shape_of(c.o):
            rep.distinct.add(c.request())
    for c, key, what in decide(tr):
        rep.violation(key, what, dict(c.data(), kind='decide'))
    nprog, nexec, ncalls = program_checks(ctx, rep)
    rep.coverage['programs'] = nprog
    rep.coverage['callables_examined'] = nexec
    rep.coverage['real_calls'] = ncalls
    rep.evaluations += nexec
    nh = history_checks(ctx, rep)
    rep.coverage['late_binding_histories'] = nh
    rep.evaluations += nh
    for c, m, i in tr[:4]:
        rep.sample({'case': c.show(), 'impl': show_sig(i[1]) if i[0] == 'ok' else i[1]})
    rep.assumptions = ['hide_args / hide_kwargs declarations are not executed (their non-forwarded arguments are chosen by the wrapper body)',
                       'the forger protocol, descriptors and super() lookup are CPython behaviour observed by execution, not modelled']


def replay(ctx, data):
    r = data['replay']
    if r.get('kind') == 'decide':
        c = case_from_data(r)
        res = decide(run_cases([c]))
        return res[0][2] if res else None
    if r.get('kind') == 'history':
        res, _, log = run_history(r, r['allnames'])
        return ('before the callee existed: %s; after: %s' % (log, res[0][1])) if res else None
    if r.get('kind') == 'program' and 'call' in r:
        # re-run the recorded program: the labelled object's advertised signature against really
        # executing the recorded call
        ns = {}
        with warnings.catch_warnings():
            warnings.simplefilter('ignore')
            exec(compile(r['src'], '<c04-program>', 'exec'), ns)
            f = eval(r.get('label', 'wrapper'), ns)
            sig = sigtools.signature(f)
        n, ks = r['call']
        try:
            sig.bind(*([0] * n), **{name_of(k): 0 for k in ks})
            accepted = True
        except TypeError:
            accepted = False
        real = exec_call(f, (n, ks))
        if accepted != real:
            return '%s advertises %s which %s call %s, but executing it %s' % (
                r.get('label'), sig, 'accepts' if accepted else 'rejects', show_call((n, ks)),
                'succeeds' if real else 'raises a TypeError')
        return None
    if r.get('kind') == 'program':
        ns = {}
        try:
            with warnings.catch_warnings():
                warnings.simplefilter('ignore')
                exec(compile(r['src'], '<c04-program>', 'exec'), ns)
        except Exception as e:  # noqa: BLE001
            return 'defining the recorded program raises %s: %s' % (type(e).__name__, e)
        return 'recorded program (signature mismatch against forwards()): see the file for the source'
    return None
