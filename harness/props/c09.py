"""C09 — merge loses nothing when inputs agree on names; identity and fold laws."""
from core import (universe, mk_desc, show_sig, show_call, tok_sig, tok_sigs, parse_cex,
                  shape_of, random_sig, id_of_name, mk_param)
from algebra import (Merge, MergeNested, SortApply, run_cases, ask, proj_shape, proj_full,
                     proj_params, proj_prov, case_from_data)
from props.c01 import mutate

LEVEL = 'proof'


def gen(ctx):
    rng = ctx.rng('gen')
    U2 = universe(2, ['a', 'b'])
    U3 = universe(3, ['a', 'b', 'c'])
    pairs = [[x, y] for x in U2 for y in U2]
    # the same pairs with different default VALUES on the right operand (every third pair)
    other = [[(q[0], q[1], (2 if q[2] is not None else None), q[3], q[4]) for q in y] for y in U2]
    pairs += [[x, y2] for i, x in enumerate(U2) for j, y2 in enumerate(other) if (i + j) % 3 == 0]
    triples = []
    n = 15000 if ctx.quick else 200000
    for _ in range(n):
        k = rng.random()
        if k < 0.35:
            base = random_sig(rng, 'abcde', 5)
            pairs.append([mutate(rng, base), mutate(rng, base)])
        elif k < 0.5:
            pairs.append([rng.choice(U3), rng.choice(U3)])
        elif k < 0.7:
            base = random_sig(rng, 'abcde', 5)
            triples.append([mutate(rng, base) for _ in range(3)])
        elif k < 0.85:
            # differently named positionals at some slots (still role-consistent when
            # the renamed names are not shared)
            base = random_sig(rng, 'abcd', 4)
            triples.append([rename(rng, mutate(rng, base), j) for j in range(3)])
        else:
            triples.append([rng.choice(U3) for _ in range(3)])
    sigs = U2 + (rng.sample(U3, 400) if ctx.quick else U3) + [random_sig(rng, 'abcde', 5, meta=True) for _ in range(300)]
    return pairs, triples, sigs


def rename(rng, ps, j):
    """rename one positional-or-keyword parameter to a name private to input j"""
    idx = [i for i, p in enumerate(ps) if p[1] == 'PK']
    if not idx or rng.random() < 0.4:
        return ps
    i = rng.choice(idx)
    new = id_of_name('fgh'[j])
    if new in {p[0] for p in ps}:
        return ps
    return ps[:i] + [(new,) + tuple(ps[i][1:])] + ps[i + 1:]


def decide_exact(triples):
    out = []
    al = ask(['aligned ' + tok_sigs(c.ds) for c, m, i in triples])
    rc = ask(['rolecons ' + tok_sigs(c.ds) for c, m, i in triples])
    reqs, meta = [], []
    napplicable = 0
    for (c, m, i), a, r in zip(triples, al, rc):
        if a != 'T' or r != 'T':
            continue
        napplicable += 1
        if i[0] == 'ok':
            reqs.append('exact %s %s' % (tok_sig(i[1]), tok_sigs(c.ds)))
            meta.append((c, i, 'exact'))
        elif i[1] == 'Incompatible':
            reqs.append('none ' + tok_sigs(c.ds))
            meta.append((c, i, 'none'))
        else:
            out.append((c, 'C09:exception', '%s raised %s for name-aligned role-consistent inputs' % (c.show(), i[1])))
    for (c, i, kind), ans in zip(meta, ask(reqs)):
        cex = parse_cex(ans)
        if cex is None:
            continue
        if kind == 'exact':
            out.append((c, 'C09:exact', '%s = %s differs from the intersection of its inputs on the non-colliding call %s' % (c.show(), show_sig(i[1]), show_call(cex))))
        else:
            out.append((c, 'C09:raises', '%s raised IncompatibleSignatures although all inputs accept call %s' % (c.show(), show_call(cex))))
    return out, napplicable


def strip_star_names(r):
    if r[0] == 'err':
        return r
    return ('ok', tuple((p[0] if p[1] not in ('VP', 'VK') else 0,) + tuple(p[1:]) for p in r[1]['params']))


def run(ctx, rep):
    pairs, triples3, sigs = gen(ctx)
    rep.rule = ('name-aligned role-consistent pairs: exhaustive U(2)^2 filtered + role-preserving variations of random 5-name signatures; '
                'role-consistent triples for the fold law; all of U(2), a sample of U(3) and random annotated signatures for the unary laws; '
                'non-trivial = pair passes the side conditions and merge result differs from the first input or raises')
    cases = [Merge([mk_desc(ps, 100 + k) for k, ps in enumerate(t)]) for t in pairs]
    tr = run_cases(cases)
    rep.evaluations = len(tr)
    for c, m, i in tr:
        if proj_shape(m) != proj_shape(i):
            rep.corr_break('merge shape/error-class', c.show(), str(proj_shape(m)), str(proj_shape(i)))
    res, napp = decide_exact(tr)
    rep.coverage['aligned_role_consistent_pairs'] = napp
    for c, key, what in res:
        rep.violation(key, what, dict(c.data(), kind='exact'))
    al = ask(['aligned ' + tok_sigs(c.ds) for c, m, i in tr])
    rc = ask(['rolecons ' + tok_sigs(c.ds) for c, m, i in tr])
    for (c, m, i), a, r in zip(tr, al, rc):
        if a == 'T' and r == 'T' and (i[0] == 'err' or shape_of(i[1]) != shape_of(c.ds[0])):
            rep.distinct.add(c.request())

    # fold law on role-consistent triples: merge(a,b,c) == merge(merge(a,b),c)
    cs3 = [[mk_desc(ps, 100 + k) for k, ps in enumerate(t)] for t in triples3]
    rc3 = ask(['rolecons ' + tok_sigs(ds) for ds in cs3])
    cs3 = [ds for ds, r in zip(cs3, rc3) if r == 'T']
    flat = run_cases([Merge(ds) for ds in cs3])
    nest = run_cases([MergeNested(ds) for ds in cs3])
    rep.coverage['role_consistent_triples'] = len(cs3)
    rep.evaluations += len(cs3)
    for (c, m, i), (c2, m2, i2) in zip(flat, nest):
        if proj_full(m) != proj_full(i):
            rep.corr_break('merge (3-ary) full result', c.show(), str(proj_full(m)), str(proj_full(i)))
        if proj_full(m2) != proj_full(i2):
            rep.corr_break('nested merge full result', c2.show(), str(proj_full(m2)), str(proj_full(i2)))
        a, bb = proj_full(i), proj_full(i2)
        if a != bb:
            rep.violation('C09:fold', '%s = %s but nested = %s' % (c.show(), a, bb), dict(c.data(), kind='fold'))
        rep.distinct.add(c.request())

    # exactness through the n-ary fold (C09_merge_exact_n_ok): name-aligned role-consistent triples
    al3 = ask(['aligned ' + tok_sigs(c.ds) for c, m, i in flat])
    trip = [(c, m, i) for (c, m, i), a in zip(flat, al3) if a == 'T']
    rep.coverage['aligned_role_consistent_triples'] = len(trip)
    reqs, meta = [], []
    for c, m, i in trip:
        if i[0] == 'ok':
            reqs.append('exact %s %s' % (tok_sig(i[1]), tok_sigs(c.ds)))
            meta.append((c, i, 'exact'))
        elif i[1] == 'Incompatible':
            reqs.append('none ' + tok_sigs(c.ds))
            meta.append((c, i, 'none'))
    for (c, i, kind), ans in zip(meta, ask(reqs)):
        cex = parse_cex(ans)
        if cex is None:
            continue
        if kind == 'exact':
            rep.violation('C09:exact', '%s = %s differs from the intersection of its inputs on the non-colliding call %s'
                          % (c.show(), show_sig(i[1]), show_call(cex)), dict(c.data(), kind='exact3'))
        else:
            # known finding (delimited class): with three or more inputs an earlier step can make a
            # parameter positional-only, and a later input then cannot be merged although a common call exists
            rep.violation('C09:nary-raise-order', '%s raised IncompatibleSignatures although all inputs accept call %s'
                          % (c.show(), show_call(cex)), dict(c.data(), kind='exact3'))

    # unary laws
    star = [mk_param(id_of_name('args'), 'VP'), mk_param(id_of_name('kwargs'), 'VK')]
    nun = 0
    for ps in sigs:
        d = mk_desc(ps, 100)
        st = mk_desc(star, 101)
        checks = [
            ('merge(s) == s', Merge([d]), lambda r: proj_params(r) == ('ok', tuple(d['params']), None, ('E',)) and r[1]['srcs'] == d['srcs']),
            ('merge(s, s) == s', Merge([d, mk_desc(ps, 100)]), lambda r: proj_params(r) == ('ok', tuple(d['params']), None, ('E',))),
            ('merge(s, (*args, **kwargs)) == s up to star names', Merge([d, st]), lambda r: strip_star_names(r) == strip_star_names(('ok', d))),
            ('merge((*args, **kwargs), s) == s up to star names', Merge([st, d]), lambda r: strip_star_names(r) == strip_star_names(('ok', d))),
            ('apply_params(s, *sort_params(s)) == s', SortApply(d), lambda r: proj_params(r) == ('ok', tuple(d['params']), None, ('E',))),
        ]
        for label, c, pred in checks:
            nun += 1
            i = c.impl()
            if not pred(i):
                rep.violation('C09:law', '%s fails for s=%s: got %s' % (label, show_sig(d), show_sig(i[1]) if i[0] == 'ok' else i[1]),
                              dict(c.data(), kind='law', label=label, expect=d))
    rep.coverage['unary_law_instances'] = nun
    rep.evaluations += nun
    for c, m, i in tr[:2] + flat[:2]:
        rep.sample({'case': c.show(), 'impl': show_sig(i[1]) if i[0] == 'ok' else i[1]})


def replay(ctx, data):
    r = data['replay']
    c = case_from_data(r)
    if r['kind'] == 'exact':
        res, _ = decide_exact(run_cases([c]))
        return res[0][2] if res else None
    if r['kind'] == 'exact3':
        i = c.impl()
        if i[0] == 'ok':
            cex = parse_cex(ask(['exact %s %s' % (tok_sig(i[1]), tok_sigs(c.ds))])[0])
            return None if cex is None else 'differs from the intersection on call %s' % show_call(cex)
        if i[1] == 'Incompatible':
            cex = parse_cex(ask(['none ' + tok_sigs(c.ds)])[0])
            return None if cex is None else 'raised IncompatibleSignatures although all inputs accept call %s' % show_call(cex)
        return None
    if r['kind'] == 'fold':
        a = proj_full(c.impl())
        bb = proj_full(MergeNested(c.ds).impl())
        return None if a == bb else 'fold %s != nested %s' % (a, bb)
    if r['kind'] == 'law':
        from algebra import _fix_desc
        d = _fix_desc(r['expect'])
        i = c.impl()
        if 'star names' in r['label']:
            ok = strip_star_names(i) == strip_star_names(('ok', d))
        else:
            ok = proj_params(i) == ('ok', tuple(d['params']), None, ('E',))
        return None if ok else '%s fails: got %s' % (r['label'], i)
    return None


def replay_known(ctx, k):
    if k.get('key') != 'C09:nary-raise-order':
        return True
    c = case_from_data(k['witness'])
    i = c.impl()
    if i[0] == 'err' and i[1] == 'Incompatible':
        return parse_cex(ask(['none ' + tok_sigs(c.ds)])[0]) is not None
    return False
