"""C09 — merge loses nothing when inputs agree on names; identity and fold laws."""
from core import (universe, mk_desc, show_sig, show_call, tok_sig, tok_sigs, parse_cex,
                  shape_of, random_sig, id_of_name, mk_param)
from algebra import (Merge, MergeNested, SortApply, run_cases, ask, proj_shape, proj_full,
                     proj_params, proj_prov, case_from_data)
from props.c01 import mutate
import functools
import inspect
from core import PS, S, name_of, describe_sig, parse_result, run_impl
from algebra import _build

LEVEL = 'proof'


def gen(ctx):
    rng = ctx.rng('gen')
    U2 = universe(2, ['a', 'b'])
    U3 = universe(3, ['a', 'b', 'c'])
    pairs = [[x, y] for x in U2 for y in U2]
    # the same pairs with different default VALUES on the right operand (every third pair)
    other = [[(q[0], q[1], (2 if q[2] is not None else None), q[3], q[4]) for q in y] for y in U2]
    pairs += [[x, y2] for i, x in enumerate(U2) for j, y2 in enumerate(other) if (i + j) % 3 == 0]
    triples = []
    n = 15000 if ctx.quick else 200000
    for _ in range(n):
        k = rng.random()
        if k < 0.35:
            base = random_sig(rng, 'abcde', 5)
            pairs.append([mutate(rng, base), mutate(rng, base)])
        elif k < 0.5:
            pairs.append([rng.choice(U3), rng.choice(U3)])
        elif k < 0.7:
            base = random_sig(rng, 'abcde', 5)
            triples.append([mutate(rng, base) for _ in range(3)])
        elif k < 0.85:
            # differently named positionals at some slots (still role-consistent when
            # the renamed names are not shared)
            base = random_sig(rng, 'abcd', 4)
            triples.append([rename(rng, mutate(rng, base), j) for j in range(3)])
        else:
            triples.append([rng.choice(U3) for _ in range(3)])
    sigs = U2 + (rng.sample(U3, 400) if ctx.quick else U3) + [random_sig(rng, 'abcde', 5, meta=True) for _ in range(300)]
    return pairs, triples, sigs


def rename(rng, ps, j):
    """rename one positional-or-keyword parameter to a name private to input j"""
    idx = [i for i, p in enumerate(ps) if p[1] == 'PK']
    if not idx or rng.random() < 0.4:
        return ps
    i = rng.choice(idx)
    new = id_of_name('fgh'[j])
    if new in {p[0] for p in ps}:
        return ps
    return ps[:i] + [(new,) + tuple(ps[i][1:])] + ps[i + 1:]


def decide_exact(triples):
    out = []
    al = ask(['aligned ' + tok_sigs(c.ds) for c, m, i in triples])
    rc = ask(['rolecons ' + tok_sigs(c.ds) for c, m, i in triples])
    reqs, meta = [], []
    napplicable = 0
    for (c, m, i), a, r in zip(triples, al, rc):
        if a != 'T' or r != 'T':
            continue
        napplicable += 1
        if i[0] == 'ok':
            reqs.append('exact %s %s' % (tok_sig(i[1]), tok_sigs(c.ds)))
            meta.append((c, i, 'exact'))
        elif i[1] == 'Incompatible':
            reqs.append('none ' + tok_sigs(c.ds))
            meta.append((c, i, 'none'))
        else:
            out.append((c, 'C09:exception', '%s raised %s for name-aligned role-consistent inputs' % (c.show(), i[1])))
    for (c, i, kind), ans in zip(meta, ask(reqs)):
        cex = parse_cex(ans)
        if cex is None:
            continue
        if kind == 'exact':
            out.append((c, 'C09:exact', '%s = %s differs from the intersection of its inputs on the non-colliding call %s' % (c.show(), show_sig(i[1]), show_call(cex))))
        else:
            out.append((c, 'C09:raises', '%s raised IncompatibleSignatures although all inputs accept call %s' % (c.show(), show_call(cex))))
    return out, napplicable


def strip_star_names(r):
    if r[0] == 'err':
        return r
    return ('ok', tuple((p[0] if p[1] not in ('VP', 'VK') else 0,) + tuple(p[1:]) for p in r[1]['params']))


# ---------------------------------------------------------------- same object repeated (fold law)
class MergeShared(Merge):
    """merge over a tuple in which the SAME signature object stands at several positions:
    pattern[j] = index (into ds) of the object used as argument j.  The model is functional, so
    its answer is that of the equal descriptions; flat and nested must agree in parameters and
    provenance (source lists compared as lists)."""
    def __init__(self, ds, pattern, nested=False):
        Merge.__init__(self, [ds[k] for k in pattern])
        self.base = ds
        self.pattern = list(pattern)
        self.nested = nested

    def request(self):
        return ('mergen ' if self.nested else 'merge ') + tok_sigs(self.ds)

    def thunk(self):
        def th():
            objs = {}
            for k in self.pattern:
                if k not in objs:
                    objs[k] = _build(self.base[k])
            args = [objs[k] for k in self.pattern]
            if self.nested:
                return functools.reduce(PS.merge, args)
            return PS.merge(*args)
        return th

    def show(self):
        return '%s(%s) where %s' % (
            'nested-merge' if self.nested else 'merge', ', '.join('x%d' % k for k in self.pattern),
            '; '.join('x%d = %s (one object)' % (k, show_sig(d)) for k, d in enumerate(self.base)
                      if k in self.pattern))

    def data(self):
        return {'op': 'merge-shared', 'sigs': self.base, 'pattern': self.pattern}


SHARED_PATTERNS = [(0, 1, 1), (0, 0, 0), (0, 0, 1), (0, 1, 0), (0, 1, 1, 1), (0, 1, 1, 0), (0, 0, 1, 1),
                   (0, 1, 2, 2), (0, 1, 1, 2)]


def fold_shared_check(base, pattern):
    """-> (description of the violation or None, flat impl answer, model answer)"""
    flat = MergeShared(base, pattern)
    nest = MergeShared(base, pattern, nested=True)
    i, i2 = flat.impl(), nest.impl()
    a, bb = proj_full(i), proj_full(i2)
    if a != bb:
        return ('%s = %s but merge(merge(...), last) step by step = %s (the same object at the '
                'repeated positions)' % (flat.show(), a, bb)), i
    return None, i


# ---------------------------------------------------------------- real functions, postponed annotations
REAL_HEADER = ('from typing import List, Dict, Optional, Tuple\n'
               'class Local(object):\n    pass\n')
ANN_POOL = ['int', 'str', 'List[int]', 'Dict[str, int]', 'Optional[str]', 'Tuple[int, ...]', 'Local',
            "'int'", 'None']
DEF_POOL = ['None', '1', "'x'", '2.0', '()']


def real_source(rng, ps, postponed, ret):
    """Source of a module defining f with the parameter list ps (kinds, defaults present or not),
    parameter annotations drawn from ANN_POOL and the return annotation ret (None = absent)."""
    parts, prev = [], None
    for nm, k, de, an, ua in ps:
        if prev == 'PO' and k != 'PO':
            parts.append('/')
        if k == 'KO' and prev not in ('VP', 'KO'):
            parts.append('*')
        t = {'VP': '*', 'VK': '**'}.get(k, '') + name_of(nm)
        if rng.random() < 0.4:
            t += ': ' + rng.choice(ANN_POOL)
            if de is not None:
                t += ' = ' + rng.choice(DEF_POOL)
        elif de is not None:
            t += '=' + rng.choice(DEF_POOL)
        parts.append(t)
        prev = k
    if prev == 'PO':
        parts.append('/')
    src = ('from __future__ import annotations\n' if postponed else '') + REAL_HEADER
    src += 'def f(%s)%s:\n    return None\n' % (', '.join(parts), '' if ret is None else ' -> ' + ret)
    src += 'def bare(*args, **kwargs):\n    return None\n'
    return src


def real_module(src):
    ns = {'__name__': 'c09_real'}
    exec(compile(src, '<c09-real>', 'exec', dont_inherit=True), ns)
    return ns


def canon_real(sig, star_names=True):
    """Independent canonical form of an upgraded signature: raw and EVALUATED annotations of
    every parameter and of the return (objects compared with ==), defaults, kinds, names."""
    ps = []
    for p in sig.parameters.values():
        nm = p.name if (star_names or p.kind not in (p.VAR_POSITIONAL, p.VAR_KEYWORD)) else '*'
        ps.append((nm, int(p.kind), repr(p.default), repr(p.annotation),
                   p.upgraded_annotation.source_value()))
    return (tuple(ps), repr(sig.return_annotation), sig.upgraded_return_annotation.source_value())


def canon_sources(sig):
    return ({k: [id(f) for f in v] for k, v in sig.sources.items() if k != '+depths'},
            {id(f): d for f, d in sig.sources.get('+depths', {}).items()})


REAL_LAWS = ['merge(s) == s', 'merge(s, s) == s', 'merge(s, s, s) == s', 'merge(s, s2) == s',
             'merge(s, bare) == s', 'merge(bare, s) == s up to star names',
             'apply_params(s, *sort_params(s)) == s', 'apply_params(s, *sort_params(s, sources=True)) == s']
RETRIEVERS = ['signatures.signature', 'sigtools.signature']


def _retrieve(how, f):
    if how == 'signatures.signature':
        return PS.signature(f)
    import sigtools
    return sigtools.signature(f)


def real_law(src, how, label):
    """Decide one law on the real function f of module src; -> violation text or None."""
    import warnings
    ns = real_module(src)
    f, bare = ns['f'], ns['bare']
    with warnings.catch_warnings():
        warnings.simplefilter('ignore')
        s = _retrieve(how, f)
        want = canon_real(s)
        want_src = canon_sources(s)
        raw = f.__annotations__.get('return', inspect.Signature.empty)
        want_obj = eval(raw, ns) if (src.startswith('from __future__') and isinstance(raw, str)) else raw
        try:
            if label == 'merge(s) == s':
                r = PS.merge(s)
            elif label == 'merge(s, s) == s':
                r = PS.merge(s, s)
            elif label == 'merge(s, s, s) == s':
                r = PS.merge(s, s, s)
            elif label == 'merge(s, s2) == s':
                r = PS.merge(s, _retrieve(how, f))
            elif label == 'merge(s, bare) == s':
                r = PS.merge(s, _retrieve(how, bare))
            elif label == 'merge(bare, s) == s up to star names':
                r = PS.merge(_retrieve(how, bare), s)
            elif label == 'apply_params(s, *sort_params(s)) == s':
                r = PS.apply_params(s, *PS.sort_params(s))
            else:
                r = PS.apply_params(s, *PS.sort_params(s, sources=True))
        except Exception as e:  # noqa: BLE001
            return '%s raised %s: %s' % (label, type(e).__name__, e)
        if canon_real(s) != want or canon_sources(s) != want_src:
            return '%s modified its input s' % label
        if 'up to star names' in label:
            # the return annotation is the left operand's (bare has none): parameters only
            if canon_real(r, False)[0] != canon_real(s, False)[0]:
                return '%s fails: got %s, s = %s' % (label, r, s)
            return None
        got = canon_real(r)
        if got != want:
            return ('%s fails: got %s with annotations (raw, evaluated) %r, s = %s has %r'
                    % (label, r, _anns(got), s, _anns(want)))
        if not (r == s) or (r != s):
            return '%s fails: the result %s does not compare equal to s = %s' % (label, r, s)
        ev = r.evaluated().return_annotation
        if want_obj is not inspect.Signature.empty and not (ev is want_obj or ev == want_obj):
            return ('%s: .evaluated().return_annotation of the result is %r, the function\'s return '
                    'annotation evaluates to %r' % (label, ev, want_obj))
        if label in ('merge(s) == s', 'apply_params(s, *sort_params(s)) == s',
                     'apply_params(s, *sort_params(s, sources=True)) == s') and canon_sources(r) != want_src:
            return '%s fails in provenance: %r vs %r' % (label, r.sources, s.sources)
    return None


def _anns(c):
    return [(p[0], p[3], p[4]) for p in c[0] if p[3] != repr(inspect.Parameter.empty)] + [('return', c[1], c[2])]


def real_model_corr(rep, src, how):
    """Correspondence on the real signature: the model's merge / sort-apply of the DESCRIPTION of
    s against the description of the implementation's result (upgraded return annotation included)."""
    import warnings
    ns = real_module(src)
    with warnings.catch_warnings():
        warnings.simplefilter('ignore')
        s = _retrieve(how, ns['f'])
        d = describe_sig(s)
        d.pop('has_depths', None)
        out = []
        for req, th in (('merge ' + tok_sigs([d]), lambda: PS.merge(s)),
                        ('merge ' + tok_sigs([d, d]), lambda: PS.merge(s, s)),
                        ('sortapply ' + tok_sig(d), lambda: PS.apply_params(s, *PS.sort_params(s)))):
            out.append((req, run_impl(th)))
    return out


def run(ctx, rep):
    pairs, triples3, sigs = gen(ctx)
    rep.rule = ('name-aligned role-consistent pairs: exhaustive U(2)^2 filtered + role-preserving variations of random 5-name signatures; '
                'role-consistent triples for the fold law; all of U(2), a sample of U(3) and random annotated signatures for the unary laws; '
                'non-trivial = pair passes the side conditions and merge result differs from the first input or raises')
    cases = [Merge([mk_desc(ps, 100 + k) for k, ps in enumerate(t)]) for t in pairs]
    tr = run_cases(cases)
    rep.evaluations = len(tr)
    for c, m, i in tr:
        if proj_shape(m) != proj_shape(i):
            rep.corr_break('merge shape/error-class', c.show(), str(proj_shape(m)), str(proj_shape(i)))
    res, napp = decide_exact(tr)
    rep.coverage['aligned_role_consistent_pairs'] = napp
    for c, key, what in res:
        rep.violation(key, what, dict(c.data(), kind='exact'))
    al = ask(['aligned ' + tok_sigs(c.ds) for c, m, i in tr])
    rc = ask(['rolecons ' + tok_sigs(c.ds) for c, m, i in tr])
    for (c, m, i), a, r in zip(tr, al, rc):
        if a == 'T' and r == 'T' and (i[0] == 'err' or shape_of(i[1]) != shape_of(c.ds[0])):
            rep.distinct.add(c.request())

    # fold law on role-consistent triples: merge(a,b,c) == merge(merge(a,b),c)
    cs3 = [[mk_desc(ps, 100 + k) for k, ps in enumerate(t)] for t in triples3]
    rc3 = ask(['rolecons ' + tok_sigs(ds) for ds in cs3])
    cs3 = [ds for ds, r in zip(cs3, rc3) if r == 'T']
    flat = run_cases([Merge(ds) for ds in cs3])
    nest = run_cases([MergeNested(ds) for ds in cs3])
    rep.coverage['role_consistent_triples'] = len(cs3)
    rep.evaluations += len(cs3)
    for (c, m, i), (c2, m2, i2) in zip(flat, nest):
        if proj_full(m) != proj_full(i):
            rep.corr_break('merge (3-ary) full result', c.show(), str(proj_full(m)), str(proj_full(i)))
        if proj_full(m2) != proj_full(i2):
            rep.corr_break('nested merge full result', c2.show(), str(proj_full(m2)), str(proj_full(i2)))
        a, bb = proj_full(i), proj_full(i2)
        if a != bb:
            rep.violation('C09:fold', '%s = %s but nested = %s' % (c.show(), a, bb), dict(c.data(), kind='fold'))
        rep.distinct.add(c.request())

    # fold law with the very same signature OBJECT at several (consecutive or not) positions
    rng = ctx.rng('shared')
    chosen = rng.sample(cs3, min(len(cs3), 1200 if ctx.quick else 15000))
    U2 = universe(2, ['a', 'b'])
    chosen += [[mk_desc(rng.choice(U2), 100 + k) for k in range(3)] for _ in range(300 if ctx.quick else 3000)]
    shared = []
    for ds in chosen:
        for pat in rng.sample(SHARED_PATTERNS, 3):
            shared.append(MergeShared(ds, pat))
    rcs = ask(['rolecons ' + tok_sigs(c.ds) for c in shared])
    shared = [c for c, r in zip(shared, rcs) if r == 'T']
    nshared = 0
    for c, m, i in run_cases(shared):
        nshared += 1
        if proj_full(m) != proj_full(i):
            rep.corr_break('merge full result, same object repeated', c.show(), str(proj_full(m)), str(proj_full(i)))
        what, _ = fold_shared_check(c.base, c.pattern)
        if what:
            rep.violation('C09:fold', what, dict(c.data(), kind='fold-shared'))
        rep.distinct.add(('shared', tuple(c.pattern), c.request()))
    rep.coverage['fold_same_object_tuples'] = nshared
    rep.evaluations += nshared

    # exactness through the n-ary fold (C09_merge_exact_n_ok): name-aligned role-consistent triples
    al3 = ask(['aligned ' + tok_sigs(c.ds) for c, m, i in flat])
    trip = [(c, m, i) for (c, m, i), a in zip(flat, al3) if a == 'T']
    rep.coverage['aligned_role_consistent_triples'] = len(trip)
    reqs, meta = [], []
    for c, m, i in trip:
        if i[0] == 'ok':
            reqs.append('exact %s %s' % (tok_sig(i[1]), tok_sigs(c.ds)))
            meta.append((c, i, 'exact'))
        elif i[1] == 'Incompatible':
            reqs.append('none ' + tok_sigs(c.ds))
            meta.append((c, i, 'none'))
    for (c, i, kind), ans in zip(meta, ask(reqs)):
        cex = parse_cex(ans)
        if cex is None:
            continue
        if kind == 'exact':
            rep.violation('C09:exact', '%s = %s differs from the intersection of its inputs on the non-colliding call %s'
                          % (c.show(), show_sig(i[1]), show_call(cex)), dict(c.data(), kind='exact3'))
        else:
            # known finding (delimited class): with three or more inputs an earlier step can make a
            # parameter positional-only, and a later input then cannot be merged although a common call exists
            rep.violation('C09:nary-raise-order', '%s raised IncompatibleSignatures although all inputs accept call %s'
                          % (c.show(), show_call(cex)), dict(c.data(), kind='exact3'))

    # unary laws
    star = [mk_param(id_of_name('args'), 'VP'), mk_param(id_of_name('kwargs'), 'VK')]
    nun = 0
    for ps in sigs:
        d = mk_desc(ps, 100)
        st = mk_desc(star, 101)
        checks = [
            ('merge(s) == s', Merge([d]), lambda r: proj_params(r) == ('ok', tuple(d['params']), None, ('E',)) and r[1]['srcs'] == d['srcs']),
            ('merge(s, s) == s', Merge([d, mk_desc(ps, 100)]), lambda r: proj_params(r) == ('ok', tuple(d['params']), None, ('E',))),
            ('merge(s, (*args, **kwargs)) == s up to star names', Merge([d, st]), lambda r: strip_star_names(r) == strip_star_names(('ok', d))),
            ('merge((*args, **kwargs), s) == s up to star names', Merge([st, d]), lambda r: strip_star_names(r) == strip_star_names(('ok', d))),
            ('apply_params(s, *sort_params(s)) == s', SortApply(d), lambda r: proj_params(r) == ('ok', tuple(d['params']), None, ('E',))),
        ]
        for label, c, pred in checks:
            nun += 1
            i = c.impl()
            if not pred(i):
                rep.violation('C09:law', '%s fails for s=%s: got %s' % (label, show_sig(d), show_sig(i[1]) if i[0] == 'ok' else i[1]),
                              dict(c.data(), kind='law', label=label, expect=d))

    # the same laws on REAL functions, most of them compiled with postponed annotations (PEP 563),
    # with and without a return annotation: equality includes the upgraded return annotation
    rng = ctx.rng('real')
    nreal, npost, corr = 0, 0, []
    pool = sigs[:]
    for _ in range(160 if ctx.quick else 1500):
        ps = rng.choice(pool) if rng.random() < 0.5 else random_sig(rng, 'abcde', 5)
        postponed = rng.random() < 0.75
        ret = rng.choice(ANN_POOL) if rng.random() < 0.85 else None
        src = real_source(rng, ps, postponed, ret)
        npost += bool(postponed and ret is not None)
        for how in RETRIEVERS:
            for label in REAL_LAWS:
                nreal += 1
                what = real_law(src, how, label)
                if what:
                    rep.violation('C09:law', '%s; s retrieved with %s from `%s`%s' % (
                        what, how, [ln for ln in src.split('\n') if ln.startswith('def f(')][0],
                        ' in a module with `from __future__ import annotations`' if postponed else ''),
                                  {'kind': 'real-law', 'src': src, 'how': how, 'label': label})
            corr.extend((src, how, req, i) for req, i in real_model_corr(rep, src, how))
    for (src, how, req, i), line in zip(corr, ask([c[2] for c in corr])):
        m = parse_result(line)
        if proj_params(m) != proj_params(i):
            rep.corr_break('laws on a real function (%s)' % req.split()[0], {'src': src, 'how': how},
                           str(proj_params(m)), str(proj_params(i)))
    rep.coverage['real_function_law_instances'] = nreal
    rep.coverage['real_functions_with_postponed_return_annotation'] = npost
    rep.evaluations += nreal
    rep.coverage['unary_law_instances'] = nun
    rep.evaluations += nun
    for c, m, i in tr[:2] + flat[:2]:
        rep.sample({'case': c.show(), 'impl': show_sig(i[1]) if i[0] == 'ok' else i[1]})


def replay(ctx, data):
    r = data['replay']
    if r['kind'] == 'fold-shared':
        from algebra import _fix_desc
        what, _ = fold_shared_check([_fix_desc(x) for x in r['sigs']], r['pattern'])
        return what
    if r['kind'] == 'real-law':
        return real_law(r['src'], r['how'], r['label'])
    c = case_from_data(r)
    if r['kind'] == 'exact':
        res, _ = decide_exact(run_cases([c]))
        return res[0][2] if res else None
    if r['kind'] == 'exact3':
        i = c.impl()
        if i[0] == 'ok':
            cex = parse_cex(ask(['exact %s %s' % (tok_sig(i[1]), tok_sigs(c.ds))])[0])
            return None if cex is None else 'differs from the intersection on call %s' % show_call(cex)
        if i[1] == 'Incompatible':
            cex = parse_cex(ask(['none ' + tok_sigs(c.ds)])[0])
            return None if cex is None else 'raised IncompatibleSignatures although all inputs accept call %s' % show_call(cex)
        return None
    if r['kind'] == 'fold':
        a = proj_full(c.impl())
        bb = proj_full(MergeNested(c.ds).impl())
        return None if a == bb else 'fold %s != nested %s' % (a, bb)
    if r['kind'] == 'law':
        from algebra import _fix_desc
        d = _fix_desc(r['expect'])
        i = c.impl()
        if 'star names' in r['label']:
            ok = strip_star_names(i) == strip_star_names(('ok', d))
        else:
            ok = proj_params(i) == ('ok', tuple(d['params']), None, ('E',))
        return None if ok else '%s fails: got %s' % (r['label'], i)
    return None


def replay_known(ctx, k):
    if k.get('key') != 'C09:nary-raise-order':
        return True
    c = case_from_data(k['witness'])
    i = c.impl()
    if i[0] == 'err' and i[1] == 'Incompatible':
        return parse_cex(ask(['none ' + tok_sigs(c.ds)])[0]) is not None
    return False
