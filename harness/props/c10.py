"""C10 — defaults, annotations and kinds of combined parameters follow the stated rules."""
from core import (universe, mk_desc, show_sig, tok_sig, tok_sigs, random_sig, id_of_name, name_of,
                  mk_param)
from algebra import (Merge, Embed, Mask, Forwards, Partial, run_cases, ask, proj_params,
                     case_from_data)
from props.c01 import mutate

LEVEL = 'proof'
POSK = ('PO', 'PK')


def remeta(rng, ps):
    """fresh defaults/annotations on the same roles"""
    out = []
    for nm, k, de, an, ua in ps:
        if de is not None:
            de = rng.choice([0, 1, 2])
        an2, ua2 = None, ('E',)
        if rng.random() < 0.6:
            an2 = rng.choice([11, 12])
            ua2 = ('P', an2)
        out.append((nm, k, de, an2, ua2))
    return out


def po_variant(rng, ps):
    """the same parameters with a prefix of the positional-or-keyword ones made positional-only (the
    positional index of every name is kept): merging with the original must give the MORE restrictive kind"""
    out, turning = [], True
    budget = rng.randint(1, 3)
    for q in ps:
        if q[1] == 'PK' and turning and budget:
            out.append((q[0], 'PO') + tuple(q[2:]))
            budget -= 1
        else:
            if q[1] != 'PO':
                turning = False
            out.append(q)
    return out


def gen(ctx):
    rng = ctx.rng('gen')
    fz = id_of_name('z')
    n = 20000 if ctx.quick else 250000
    cases = []
    for _ in range(n):
        k = rng.random()
        if k < 0.05:
            base = random_sig(rng, 'abcde', 5)
            vs = [remeta(rng, mutate(rng, base)) for j in range(rng.choice([2, 2, 3]))]
            j = rng.randrange(len(vs))
            vs[j] = po_variant(rng, vs[j])
            cases.append(Merge([mk_desc(v, 100 + jj) for jj, v in enumerate(vs)]))
        elif k < 0.35:
            base = random_sig(rng, 'abcde', 5)
            cases.append(Merge([mk_desc(remeta(rng, mutate(rng, base)), 100 + j) for j in range(rng.choice([2, 2, 3]))]))
        elif k < 0.41:
            cases.append(Merge([mk_desc(random_sig(rng, 'abc', 3, meta=True), 100 + j) for j in range(2)]))
        elif k < 0.45:
            # three or four inputs that name their positional parameters differently (several renamed
            # parameters in one step, looked at again by the next step of the fold)
            pools = ['abc', 'xyc', 'abc', 'bcx']
            cases.append(Merge([mk_desc(random_sig(rng, pools[j], 3, meta=True), 100 + j)
                                for j in range(rng.choice([3, 3, 4]))]))
        elif k < 0.65:
            cases.append(Embed([mk_desc(random_sig(rng, 'abc', 3, meta=True), 100),
                                mk_desc(random_sig(rng, 'def', 3, meta=True), 101)]
                               + ([mk_desc(random_sig(rng, 'gh', 2, meta=True), 102)] if rng.random() < 0.25 else []),
                               rng.random() < 0.8, rng.random() < 0.8))
        elif k < 0.75:
            ps = random_sig(rng, 'abcd', 4, meta=True)
            names = [p[0] for p in ps if p[1] in ('PK', 'KO')] + [fz]
            ns = rng.sample(names, rng.randint(0, min(2, len(names))))
            cases.append(Mask(mk_desc(ps, 100), rng.randint(0, len(ps) + 1), ns, [rng.random() < 0.15 for _ in range(4)]))
        elif k < 0.85:
            ps = random_sig(rng, 'abcd', 4, meta=True)
            names = [p[0] for p in ps if p[1] in ('PK', 'KO')] + [fz]
            ns = rng.sample(names, rng.randint(0, min(2, len(names))))
            cases.append(Partial(mk_desc(ps, 100), rng.randint(0, len(ps)), [(x, 5 + j) for j, x in enumerate(ns)]))
        else:
            o = random_sig(rng, 'abc', 3, meta=True)
            i = random_sig(rng, 'def', 3, meta=True)
            names = [p[0] for p in i if p[1] in ('PK', 'KO')]
            ns = rng.sample(names, rng.randint(0, min(1, len(names))))
            cases.append(Forwards(mk_desc(o, 100), mk_desc(i, 101), rng.randint(0, 2), ns,
                                  rng.random() < 0.1, rng.random() < 0.1, rng.random() < 0.85,
                                  rng.random() < 0.85, rng.random() < 0.2))
    return cases


def kind_ok(src_kind, res_kind):
    return src_kind == res_kind or (src_kind == 'PK' and res_kind in ('PO', 'KO'))


def order_ok(res, d):
    """positional parameters of d that survive keep their relative order in res"""
    rpos = [p[0] for p in res['params'] if p[1] in POSK]
    dpos = [p[0] for p in d['params'] if p[1] in POSK and p[0] in rpos]
    return [x for x in rpos if x in dpos] == dpos


def examine_merge(c, r, out):
    byname = [{p[0]: p for p in d['params']} for d in c.ds]
    for p in r['params']:
        nm, k, de, an, ua = p
        cons = [b[nm] for b in byname if nm in b]
        if not cons:
            out.append(('C10:phantom', '%s = %s: parameter %s stands for no input parameter' % (c.show(), show_sig(r), name_of(nm))))
            continue
        if k in ('VP', 'VK'):
            # the combined star parameter: conciled from the inputs' star parameters of that kind
            # (the annotation all annotated ones agree on, otherwise none); decided when every input
            # has that star under this very name, so that none of them absorbed anything by it
            stars = [[q for q in d['params'] if q[1] == k] for d in c.ds]
            named = [frozenset(q[0] for q in d['params'] if q[1] not in ('VP', 'VK')) for d in c.ds]
            # (a star that absorbs a parameter the other side lacks is used up and contributes
            # nothing: decided only when all inputs name the same parameters)
            if all(len(s) == 1 and s[0][0] == nm for s in stars) and len(set(named)) == 1:
                anns = [(s[0][3], s[0][4]) for s in stars if s[0][3] is not None]
                if anns and all(a[0] == anns[0][0] for a in anns):
                    want = anns[0] if (an, ua) not in anns else (an, ua)
                else:
                    want = (None, ('E',))
                if (an, ua) != want and not (len(anns) >= 3 and len({a[0] for a in anns}) > 1):
                    out.append(('C10:annotation', '%s = %s: annotation of the star parameter %s is %s, expected %s' % (
                        c.show(), show_sig(r), name_of(nm), (an, ua), want)))
            continue
        if de is not None and any(q[2] is None for q in cons):
            out.append(('C10:optional', '%s = %s: %s is optional although a contributor is required' % (c.show(), show_sig(r), name_of(nm))))
        if de is not None:
            ds = {q[2] for q in cons}
            want = ds.pop() if len(ds) == 1 else 0
            if de != want:
                out.append(('C10:default', '%s = %s: default of %s is %s, expected %s' % (c.show(), show_sig(r), name_of(nm), de, want)))
        anns = [(q[3], q[4]) for q in cons if q[3] is not None]
        # agreement is on the annotation; the wrapper kept is that of one of the
        # contributors carrying it (a hand-built / class parameter may have none)
        if anns and all(a[0] == anns[0][0] for a in anns):
            want = anns[0] if (an, ua) not in anns else (an, ua)
        else:
            want = (None, ('E',))
        if (an, ua) != want:
            key = 'C10:annotation'
            if len(anns) >= 3 and len({a[0] for a in anns}) > 1:
                key = 'C10:annotation-fold'      # candidate known finding: left fold is not associative
            out.append((key, '%s = %s: annotation of %s is %s, expected %s' % (c.show(), show_sig(r), name_of(nm), (an, ua), want)))
        if not all(kind_ok(q[1], k) for q in cons):
            out.append(('C10:kind', '%s = %s: kind of %s changed from %s to %s' % (c.show(), show_sig(r), name_of(nm), [q[1] for q in cons], k)))
    for d in c.ds:
        if not order_ok(r, d):
            out.append(('C10:order', '%s = %s: positional order of input %s not kept' % (c.show(), show_sig(r), show_sig(d))))


def examine_chain(c, r, ins, out, partial=False):
    """embed / forwards with disjoint names: every parameter has one contributor"""
    owner = {}
    for idx, d in enumerate(ins):
        for p in d['params']:
            owner.setdefault(p[0], (idx, p))
    rp = r['params']
    last_idx_by_kind = {}
    for pos, p in enumerate(rp):
        nm, k, de, an, ua = p
        if nm not in owner:
            out.append(('C10:phantom', '%s = %s: parameter %s stands for no input parameter' % (c.show(), show_sig(r), name_of(nm))))
            continue
        idx, q = owner[nm]
        if k in ('VP', 'VK'):
            continue
        if not kind_ok(q[1], k):
            out.append(('C10:kind', '%s = %s: kind of %s changed from %s to %s' % (c.show(), show_sig(r), name_of(nm), q[1], k)))
        if (an, ua) != (q[3], q[4]):
            out.append(('C10:annotation', '%s = %s: annotation of %s changed' % (c.show(), show_sig(r), name_of(nm))))
        qd = q[2]
        if partial and idx > 0:
            qd = 0
        if de != qd:
            # an outer default may be dropped only when a required inner positional follows
            follows = any(p2[1] in POSK and p2[2] is None and owner.get(p2[0], (0,))[0] > idx
                          for p2 in rp[pos + 1:])
            if not (de is None and qd is not None and k in POSK and follows):
                out.append(('C10:default', '%s = %s: default of %s is %s, contributor has %s (required inner positional follows: %s)' % (
                    c.show(), show_sig(r), name_of(nm), de, qd, follows)))
        grp = 'pos' if k in POSK else k
        if last_idx_by_kind.get(grp, 0) > idx:
            out.append(('C10:order', '%s = %s: %s of an outer signature is placed after an inner parameter of the same kind' % (c.show(), show_sig(r), name_of(nm))))
        last_idx_by_kind[grp] = max(last_idx_by_kind.get(grp, 0), idx)
    for d in ins:
        if not order_ok(r, d):
            out.append(('C10:order', '%s = %s: positional order of %s not kept' % (c.show(), show_sig(r), show_sig(d))))


def stepwise_merge(c):
    """merge(merge(merge(s1, s2), s3), ...) through the public function, one pair at a time; None
    when a step raises"""
    acc = c.ds[0]
    for d in c.ds[1:]:
        r = Merge([acc, d]).impl()
        if r[0] != 'ok':
            return r
        acc = r[1]
    return ('ok', acc)


def examine(c, i, al_rc, aligned_only=False):
    out = []
    if i[0] != 'ok':
        return out
    r = i[1]
    if c.op == 'merge' and len(c.ds) >= 3:
        # the fold law (C09_merge_fold_law, all signatures): the flat n-ary merge and the merge taken
        # one pair at a time differ only where an intermediate result is rejected; the binary rules
        # for kind and order, decided above for pairs, therefore carry over to any number of inputs
        s = stepwise_merge(c)
        if s[0] == 'err' and s[1] == 'Incompatible':
            out.append(('C10:kind-nary', '%s = %s, but merging the same inputs one pair at a time raises IncompatibleSignatures '
                        '(the flat merge kept a parameter in a role one of the pairwise steps rejects)' % (c.show(), show_sig(r))))
        elif s[0] == 'ok':
            s = s[1]
            flat = [(p[0], p[1]) for p in r['params']]
            step = [(p[0], p[1]) for p in s['params']]
            pos = lambda l: [x for x in l if x[1] in POSK]
            if sorted(flat) != sorted(step) or pos(flat) != pos(step):
                out.append(('C10:kind-nary', '%s = %s, but merging the same inputs one pair at a time gives %s: '
                            'kind / positional order of %s differ' % (
                                c.show(), show_sig(r), show_sig(s),
                                sorted({name_of(x[0]) for x in set(flat) ^ set(step)}) or 'the positional parameters')))
    if c.op == 'merge':
        if al_rc:
            examine_merge(c, r, out)
        elif aligned_only and len(c.ds) == 2:
            # name-aligned inputs whose shared names differ only in positional-only vs
            # positional-or-keyword: the positional pairing is by name, so the kind rule is decidable
            byname = [{p[0]: p for p in d['params']} for d in c.ds]
            for nm, k, de, an, ua in r['params']:
                cons = [b[nm] for b in byname if nm in b]
                if k in ('VP', 'VK') or not cons:
                    continue
                if len(cons) == 2 and all(q[1] in ('PO', 'PK') for q in cons) and not all(kind_ok(q[1], k) for q in cons):
                    out.append(('C10:kind', '%s = %s: kind of %s changed from %s to %s' % (c.show(), show_sig(r), name_of(nm), [q[1] for q in cons], k)))
    elif c.op == 'embed':
        names = [p[0] for d in c.ds for p in d['params'] if p[1] in ('PO', 'PK', 'KO')]
        if len(set(names)) == len(names):
            examine_chain(c, r, c.ds, out)
    elif c.op == 'forwards':
        names = [p[0] for d in (c.o, c.i) for p in d['params'] if p[1] in ('PO', 'PK', 'KO')]
        if len(set(names)) == len(names):
            examine_chain(c, r, [c.o, c.i], out, partial=c.partial)
    elif c.op in ('mask', 'partial'):
        src = {p[0]: p for p in c.d['params']}
        bound = dict(c.kw) if c.op == 'partial' else {}
        # C10_sig_partial_kw: every bound keyword is a keyword-only parameter of the result
        for nm in bound:
            if nm not in {p[0] for p in r['params']}:
                out.append(('C10:partial-kw', '%s = %s: bound keyword %s does not appear in the result' % (c.show(), show_sig(r), name_of(nm))))
        for p in r['params']:
            nm, k, de, an, ua = p
            if nm in bound:
                if k != 'KO' or de != bound[nm]:
                    out.append(('C10:partial-kw', '%s = %s: bound keyword %s is not keyword-only with the bound value as default' % (c.show(), show_sig(r), name_of(nm))))
                continue
            if nm not in src:
                out.append(('C10:phantom', '%s = %s: parameter %s stands for no input parameter' % (c.show(), show_sig(r), name_of(nm))))
                continue
            q = src[nm]
            if not kind_ok(q[1], k) or (de, an, ua) != (q[2], q[3], q[4]):
                out.append(('C10:mask-meta', '%s = %s: %s differs from the original parameter' % (c.show(), show_sig(r), name_of(nm))))
        if not order_ok(r, c.d):
            out.append(('C10:order', '%s = %s: positional order not kept' % (c.show(), show_sig(r))))
    return out


def inputs_of(c):
    if c.op in ('merge', 'embed'):
        return list(c.ds)
    if c.op in ('mask', 'partial'):
        return [c.d]
    return [c.o, c.i]


def run(ctx, rep):
    cases = gen(ctx)
    rep.rule = ('random merge (role-preserving variations with fresh defaults from {None,1,2} and annotations from {none,11,12}), embed, mask, partial and forwards '
                'cases over 3-5 name signatures with metadata; non-trivial = the result has a parameter whose default/annotation/kind differs from a contributor')
    tr = run_cases(cases)
    rep.evaluations = len(tr)
    al = ask(['aligned ' + tok_sigs(inputs_of(c)) for c, m, i in tr])
    rc = ask(['rolecons ' + tok_sigs(inputs_of(c)) for c, m, i in tr])
    hist = {}
    for (c, m, i), a, r in zip(tr, al, rc):
        if proj_params(m) != proj_params(i):
            rep.corr_break('full parameter metadata', c.show(), str(proj_params(m)), str(proj_params(i)))
        if i[0] == 'ok':
            src = {p for d in inputs_of(c) for p in d['params']}
            if any(p not in src for p in i[1]['params']):
                rep.distinct.add(c.request())
        for key, what in examine(c, i, a == 'T' and r == 'T', aligned_only=(a == 'T')):
            hist[key] = hist.get(key, 0) + 1
            rep.violation(key, what, dict(c.data(), kind='examine', alrc=(a == 'T' and r == 'T'), aligned=(a == 'T')))
    # the partial rules on REAL functools.partial objects (half of them instances of a partial
    # subclass whose truth value may be False), retrieved through both entry points
    from props.c19 import real_partial_result
    nreal = 0
    for c, m, i in [x for x in tr if x[0].op == 'partial'][:400 if ctx.quick else 4000]:
        for auto in (False, True):
            res, _p = real_partial_result(c.d, c.n, c.kw, auto)
            nreal += 1
            if res[0] != 'ok':
                continue
            # (real_function builds the function without the described annotations: only the
            # clauses about the bound keywords are decided on the real object)
            for key, what in [x for x in examine(c, res, False) if x[0] == 'C10:partial-kw']:
                hist[key] = hist.get(key, 0) + 1
                rep.violation(key, '%s(real partial object): %s' % ('sigtools.signature' if auto else 'signatures.signature', what),
                              dict(c.data(), kind='examine-real', auto=auto))
    rep.coverage['real_partial_objects'] = nreal
    rep.coverage['finding_histogram'] = hist
    for c, m, i in tr[:5]:
        rep.sample({'case': c.show(), 'impl': show_sig(i[1]) if i[0] == 'ok' else i[1]})


def replay(ctx, data):
    r = data['replay']
    c = case_from_data(r)
    if r.get('kind') == 'examine-real':
        from props.c19 import real_partial_result
        got, _p = real_partial_result(c.d, c.n, c.kw, r.get('auto', False))
        res = [x for x in examine(c, got, False) if x[0] == 'C10:partial-kw'] if got[0] == 'ok' else []
    else:
        res = examine(c, c.impl(), r.get('alrc', False), aligned_only=r.get('aligned', False))
    res = [x for x in res if x[0] == data['key']] or res
    return res[0][1] if res else None


def replay_known(ctx, k):
    c = case_from_data(k['witness'])
    res = examine(c, c.impl(), True)
    return any(x[0] == k['key'] for x in res)
