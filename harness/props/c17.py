"""C17 — concurrent signature retrieval gives the sequential answer.

Three parts (see notes/C17.md):

 1. a deterministic line-level scheduler on the REAL code: every thread runs
    under sys.settrace; it parks at each 'line' event of a *modelled* sigtools
    function whose frame works on the scenario's shared object; a controller
    releases exactly one thread per step.  A schedule is a *plan*: a list of
    segments (tid, n) = "run tid for n steps and preempt it" or (tid, None) =
    "run tid to completion".  The same plans are run by the Gallina machines of
    coq/theories/Model/Sched.v inside Coq (vm_compute); per plan we compare
    every thread's answer, every thread's line trace and the final attributes
    (mismatch = corr_break), and independently decide the property on the
    implementation's answers (answer != solo answer, attribute missing at
    quiescence = violation with a replayable scenario + plan).
 2. randomized stress with sys.setswitchinterval(1e-6).
 3. replay / replay_known.

Machine I (scenario families without shared mutable state in the code as it is;
model coq/theories/Proofs/SchedIndep.v, loaded as the preamble of the Coq
evaluations, so its definitions and its theorem indep_sequential are re-checked
on every run):
 K  methods decorated with wrappers.wrapper_decorator / wrappers.decorator looked
    up ON THE CLASS (and on a shared instance) by each thread, retrieved with
    inspect.signature / sigtools.signature: each access builds a fresh as_forged
    object, the shared guard set as_forged.currently_computing never collides;
 R  functions forwarding *args/**kwargs to themselves / to each other (also a
    functools.wraps pair), sigtools.signature from threads that did not import
    sigtools: the per-thread recursion stack of autoforwards_function.
 P  ONE modifiers object (_PokTranslator from kwoargs / posoargs / autokwoargs) retrieved by
    every thread, inspect.signature and sigtools.signature mixed: with readable source and
    without (function made by exec), plain and forwarding *args/**kwargs, as a function,
    as a method looked up on a shared instance (the bound object cached beforehand) and on
    the class.  The code as it is only READS the object (its __signature__ slot, its
    __wrapped__, the hint) - nothing is set aside.  Every one-preemption plan for every
    pair and for three trios, in every tier; for this family the scheduler also parks in
    autoforwards / autoforwards_hint / _PokTranslator._sigtools__autoforwards_hint.
    Quiescence: every object still has the identical __signature__ / __wrapped__.
For each query: alone in the importing thread == written-down answer; alone in a
worker thread; then every plan with one preemption (quick: all for the
same-attribute pair, a seeded fraction for the others) + random plans with two
preemptions for pairs, random plans for trios; per plan the answers against the
solo answers, the guard set / __wrapped__ at quiescence, a second retrieval at
quiescence, and model vs implementation (plan validity, answers, line traces).
A single object shared by the threads (a module-level decorated function, a
staticmethod of one) is NOT in these families: that is the listed C17:guard-race.
"""
import concurrent.futures
import functools
import inspect
import os
import sys
import threading
import time

import sigtools
from sigtools import _autoforwards, _specifiers, specifiers, modifiers, _util

import coqrun

LEVEL = 'proof'

KNOWN_KEY = 'C17:wrapped-window'
GUARD_KEY = 'C17:guard-race'

# ----------------------------------------------------------------------------
# modelled functions: function id (hundreds digit of the trace code) -> code
# object.  A trace code is  fid*100 + (lineno - co_firstlineno), i.e. stable
# under edits elsewhere in the file; the model carries the same numbers
# (Model/Sched.v, code_of_pc) with the absolute line numbers in comments.
# ----------------------------------------------------------------------------
def _code(f):
    return getattr(f, '__code__', None)


def modelled_codes():
    cfw = _autoforwards.cleanup_functools_wrapper
    table = {
        1: _code(_specifiers.forged_signature),
        2: _code(_autoforwards.autoforwards_function),
        3: _code(cfw.__init__),
        4: _code(cfw.__enter__),
        5: _code(cfw.__exit__),
        6: _code(specifiers._AsForged.__get__),
        7: _code(_util.OverrideableDataDesc.__get__),
        8: _code(specifiers._ForgerWrapper.__get__),
        9: _code(specifiers._transform),
    }
    return table


def extra_codes_P():
    """Further functions traced for family P of machine I ONLY (the other machines' Coq models carry the
    trace codes of modelled_codes() and nothing else): the route from forged_signature to a modifiers
    object's hint, where the code as it is touches nothing shared."""
    return {
        10: _code(_autoforwards.autoforwards_hint),
        11: _code(modifiers._PokTranslator._sigtools__autoforwards_hint),
        12: _code(_autoforwards.autoforwards),
    }


def _subject_of(fid, frame):
    """The object a modelled frame works on (decides whether it is a yield frame)."""
    loc = frame.f_locals
    try:
        if fid == 1:
            return loc.get('obj')
        if fid == 2 or fid == 3 or fid == 10:
            return loc.get('func')
        if fid == 11:
            return loc.get('self')
        if fid == 12:
            return loc.get('obj')
        if fid == 4 or fid == 5:
            return getattr(loc.get('self'), 'func', None)
        if fid == 6:
            inst = loc.get('instance')
            return loc.get('owner') if inst is None else inst
        if fid == 7 or fid == 8:
            return loc.get('self')
        if fid == 9:
            # _transform(obj, meta) works for the _ForgerWrapper.__get__ frame that called it
            back = frame.f_back
            if back is not None and back.f_code is _code(specifiers._ForgerWrapper.__get__):
                return back.f_locals.get('self')
            return None
    except Exception:  # noqa: BLE001
        return None
    return None


class SchedulerStuck(RuntimeError):
    pass


class Run(object):
    """One controlled execution of n thread bodies."""
    # generous: a wait that times out raises inside the traced library code, where a handler of the
    # library may swallow it and change the outcome (seen once, under memory pressure, as a spurious
    # non-sequential answer); a run in which any wait timed out is never judged (see run_plan)
    TIMEOUT = 600.0

    def __init__(self, fns, tracked, pred=None, extra=None):
        self.fns = fns
        self.n = len(fns)
        self.tracked = tracked          # list of objects (identity)
        self.pred = pred                # or: objects built during the run that belong to the scenario
        self.go = [threading.Semaphore(0) for _ in fns]
        self.back = threading.Semaphore(0)
        self.done = [False] * self.n
        self.result = [None] * self.n
        self.trace = [[] for _ in fns]
        self.events = []                # global order: (tid, code)
        self.free = False
        self.codes = dict((c, fid) for fid, c in modelled_codes().items() if c is not None)
        if extra:
            self.codes.update((c, fid) for fid, c in extra.items() if c is not None)
        self.threads = [threading.Thread(target=self._body, args=(i,), daemon=True)
                        for i in range(self.n)]
        for t in self.threads:
            t.start()

    # -- thread side
    def _is_tracked(self, o):
        for t in self.tracked:
            if o is t:
                return True
        if self.pred is not None and o is not None:
            try:
                return bool(self.pred(o))
            except Exception:  # noqa: BLE001
                return False
        return False

    def _tracer(self, i):
        codes = self.codes

        def glob(frame, event, arg):
            fid = codes.get(frame.f_code)
            if fid is None:
                return None
            if not self._is_tracked(_subject_of(fid, frame)):
                return None
            base = frame.f_code.co_firstlineno

            def loc(fr, ev, a):
                if ev == 'line':
                    self._yield(i, fid * 100 + fr.f_lineno - base)
                return loc
            return loc
        return glob

    def _yield(self, i, code):
        self.trace[i].append(code)
        self.events.append((i, code))
        if self.free:
            return
        self.back.release()
        if not self.go[i].acquire(timeout=self.TIMEOUT):
            self.stuck = True
            raise SchedulerStuck('thread %d never rescheduled' % i)

    def _body(self, i):
        self.go[i].acquire()
        sys.settrace(self._tracer(i))
        try:
            res = self.fns[i]()
        except SchedulerStuck:
            res = ('EXC', 'SchedulerStuck')
        except BaseException as e:  # noqa: BLE001
            res = ('EXC', type(e).__name__)
        finally:
            sys.settrace(None)
        self.result[i] = res
        self.done[i] = True
        self.events.append((i, 0))
        self.back.release()

    # -- controller side
    def step(self, i):
        self.go[i].release()
        if not self.back.acquire(timeout=self.TIMEOUT):
            self.stuck = True
            raise SchedulerStuck('thread %d did not come back' % i)

    def drain(self):
        """Let everything that is left run to completion, one thread after the other."""
        for i in range(self.n):
            guard = 0
            while not self.done[i]:
                self.step(i)
                guard += 1
                if guard > 100000:
                    raise SchedulerStuck('drain')
        for t in self.threads:
            t.join(self.TIMEOUT)

    def run_plan(self, plan):
        """-> 'ok' | 'invalid' (a preemption point lies at/after the thread's end, or a
        segment names a finished thread) | 'unfinished' (plan ended early)."""
        status = 'ok'
        try:
            for tid, n in plan:
                if tid >= self.n or self.done[tid]:
                    status = 'invalid'
                    break
                if n is None:
                    guard = 0
                    while not self.done[tid]:
                        self.step(tid)
                        guard += 1
                        if guard > 100000:
                            raise SchedulerStuck('segment')
                else:
                    for _ in range(n):
                        if self.done[tid]:
                            break
                        self.step(tid)
                    if self.done[tid]:
                        status = 'invalid'
                        break
            if status == 'ok' and not all(self.done):
                status = 'unfinished'
        finally:
            self.drain()
        if getattr(self, 'stuck', False):
            # the outcome of such a run says nothing about the library
            raise SchedulerStuck('a scheduler wait timed out during this plan: the run is not judged')
        return status


# ----------------------------------------------------------------------------
# scenarios of machine W (delete / restore window on one shared function)
# ----------------------------------------------------------------------------
W_VAL, S_VAL = 7, 8           # interned attribute values (model: Some 7 / Some 8)
KPLAIN, KSIG = 'P', 'S'


def _wf_inner(x, y, *, z):
    return (x, y, z)


def _safe(fn):
    try:
        return fn()
    except BaseException as e:  # noqa: BLE001
        return ('EXC', type(e).__name__)


class WScenario(object):
    """A shared function w and the facts the comparison needs, all measured on
    the implementation *before* any concurrent run:
      strings[n]  : the text of the signature that answer number n stands for
                    (1 APlain VRaw, 2 APlain VWrapped, 3 APlain VSig, 4 AFwd VRaw)
      solo[kind]  : the text each kind of call returns when it runs alone
    """
    machine = 'W'

    def __init__(self, name):
        self.name = name

        def f(x, y, *, z):          # a fresh wrapped function per scenario object
            return (x, y, z)
        self.f = f
        if name in ('wraps', 'wraps+sig'):
            def w(a, *args, **kwargs):
                return f(a, *args, **kwargs)
            star_raw = True
        elif name in ('wraps-nostar', 'sig-only'):
            def w(a, b):
                return f(a, b, z=0)
            star_raw = False
        else:
            raise KeyError(name)
        raw = _safe(lambda: str(inspect.signature(w)))   # no attribute set yet: the wrapper's own
        self.w = w
        self.sig0 = None
        if name != 'sig-only':
            functools.update_wrapper(w, f)
        if name in ('wraps+sig', 'sig-only'):
            self.sig0 = inspect.Signature(
                [inspect.Parameter('p', inspect.Parameter.POSITIONAL_OR_KEYWORD),
                 inspect.Parameter('q', inspect.Parameter.POSITIONAL_OR_KEYWORD)])
            w.__signature__ = self.sig0
        self.init = (W_VAL if name != 'sig-only' else None, S_VAL if self.sig0 is not None else None)
        self.cfg = (star_raw, False, False)
        self.tracked = [w]
        self.strings = {1: raw, 2: _safe(lambda: str(inspect.signature(f)))}
        if self.sig0 is not None:
            self.strings[3] = str(self.sig0)
        self.solo = {}
        self.solo[KPLAIN] = _safe(self.call(KPLAIN))
        self.solo[KSIG] = _safe(self.call(KSIG))
        if star_raw:
            self.strings[4] = self.solo[KSIG]
        # the specification of the solo answers, written down independently
        self.spec = {
            'wraps': {KPLAIN: '(x, y, *, z)', KSIG: '(a, y, *, z)'},
            'wraps+sig': {KPLAIN: '(p, q)', KSIG: '(a, y, *, z)'},
            'wraps-nostar': {KPLAIN: '(x, y, *, z)', KSIG: '(x, y, *, z)'},
            'sig-only': {KPLAIN: '(p, q)', KSIG: '(p, q)'},
        }[name]

    def call(self, kind):
        w = self.w
        if kind == KPLAIN:
            return lambda: str(inspect.signature(w))
        return lambda: str(sigtools.signature(w))

    def final(self):
        d = self.w.__dict__
        out = []
        for attr, good, num in (('__wrapped__', self.f, W_VAL), ('__signature__', self.sig0, S_VAL)):
            if attr not in d:
                out.append(None)
            elif d[attr] is good and good is not None:
                out.append(num)
            else:
                out.append(99)
        return tuple(out)

    def answer_num(self, text):
        if isinstance(text, tuple):
            return 90                      # an exception escaped
        hits = [n for n, s in self.strings.items() if s == text]
        return hits[0] if len(hits) == 1 else 99

    def intact(self):
        return self.final() == self.init

    # the harness' own reading of "the windows overlap", from the observed events
    WINDOW = set([409, 410, 411, 414, 415, 416, 417, 418, 419, 421, 202, 203, 501, 502])

    def overlap(self, kinds, events):
        """True iff some step that reads/changes the shared attributes (or enters
        the window) was taken while another thread was inside its window.
        events: global list (tid, code reached); code 0 = thread finished."""
        n = len(kinds)
        last = [None] * n            # code the thread is parked at (None = start gate)
        inwin = [False] * n
        for tid, code in events:
            prev = last[tid]
            sens = inwin[tid] or prev == 408 or prev == 193 or (prev is None and kinds[tid] == KPLAIN)
            if sens and any(inwin[u] for u in range(n) if u != tid):
                return True
            last[tid] = code
            if code in self.WINDOW:
                inwin[tid] = True
            elif code == 201 and inwin[tid]:
                pass                 # the with line on the way out
            elif code == 208 or code == 0:
                inwin[tid] = False
        return False


W_SCENARIOS = ['wraps', 'wraps+sig', 'wraps-nostar', 'sig-only']


def make_scenario(name):
    if name in W_SCENARIOS:
        return WScenario(name)
    raise KeyError(name)


def plain_status(status, excl):
    return status


def run_one(sc, kinds, plan):
    """One plan on the real code -> observation dict."""
    r = Run([sc.call(k) for k in kinds], sc.tracked)
    status = r.run_plan([(t, n) for t, n in plan])
    obs = {
        'status': status,
        'results': list(r.result),
        'nums': [sc.answer_num(x) for x in r.result],
        'traces': [list(t) for t in r.trace],
        'final': sc.final(),
        'excl': not sc.overlap(kinds, r.events),
    }
    return obs


# ----------------------------------------------------------------------------
# plans (mirror of Model/Sched.v all_plans; order irrelevant)
# ----------------------------------------------------------------------------
K_MAX = 70


def all_plans(nthreads, budget, K=K_MAX):
    out = []

    def rec(alive, last, b, acc):
        if not alive:
            out.append(tuple(acc))
            return
        for t in alive:
            if last == t:
                continue
            rec([u for u in alive if u != t], None, b, acc + [(t, None)])
            if b > 0 and len(alive) >= 2:
                for n in range(1, K + 1):
                    rec(alive, t, b - 1, acc + [(t, n)])
    rec(list(range(nthreads)), None, budget, [])
    return out


def random_plan(rng, nthreads, budget, K=K_MAX):
    alive = list(range(nthreads))
    last = None
    acc = []
    b = budget
    while alive:
        cands = [t for t in alive if t != last]
        t = rng.choice(cands)
        if b > 0 and len(alive) >= 2 and rng.random() < 0.75:
            acc.append((t, rng.randint(1, K)))
            last = t
            b -= 1
        else:
            acc.append((t, None))
            alive.remove(t)
            last = None
    return tuple(acc)


# ----------------------------------------------------------------------------
# running batches in worker processes (tracing costs ~10 ms per plan)
# ----------------------------------------------------------------------------
def _worker(job):
    name, kinds, plans = job
    sys.setswitchinterval(0.005)
    sc = make_scenario(name)
    out = []
    for p in plans:
        if not sc.intact():
            sc = make_scenario(name)      # a previous plan lost an attribute (reported there)
        out.append(run_one(sc, kinds, p))
    return out


def run_batch(name, kinds, plans, workers):
    if not plans:
        return []
    chunk = max(1, min(200, (len(plans) + workers - 1) // workers))
    jobs = [(name, kinds, plans[i:i + chunk]) for i in range(0, len(plans), chunk)]
    if workers <= 1 or len(jobs) == 1:
        res = [_worker(j) for j in jobs]
    else:
        import multiprocessing
        ctxmp = multiprocessing.get_context('fork')
        with concurrent.futures.ProcessPoolExecutor(max_workers=workers, mp_context=ctxmp) as ex:
            res = list(ex.map(_worker, jobs))
    return [o for part in res for o in part]


# ----------------------------------------------------------------------------
# the model's side (Coq)
# ----------------------------------------------------------------------------
PREAMBLE = '''From Coq Require Import List NArith Bool Arith.
Import ListNotations.
Require Import Sigtools.Model.Sched.
Open Scope N_scope.
'''


def coq_optN(x):
    return 'None' if x is None else '(Some %d)' % x


def coq_store(st):
    return '(mkStore %s %s)' % (coq_optN(st[0]), coq_optN(st[1]))


def coq_cfg(c):
    return '(mkCfg %s %s %s)' % tuple(coqrun.coq_bool(b) for b in c)


def coq_kinds(kinds):
    return '[' + '; '.join('KPlain' if k == KPLAIN else 'KSig' for k in kinds) + ']'


def coq_plan(plan):
    return '[' + '; '.join('(%d%%nat, %s)' % (t, 'None' if n is None else '(Some %d%%nat)' % n)
                           for t, n in plan) + ']'


def coq_obs(o, intern=None):
    if o['status'] != 'ok':
        return 'None'

    def tr_text(tr):
        if intern is None:
            return '[%s]' % '; '.join(str(c) for c in tr)
        key = tuple(tr)
        if key not in intern:
            intern[key] = 'tr%d' % len(intern)
        return intern[key]
    th = '; '.join('(%d, %s)' % (n, tr_text(tr)) for n, tr in zip(o['nums'], o['traces']))
    return '(Some ([%s], %s, %s))' % (th, coq_store(o['final']), coqrun.coq_bool(o['excl']))


def model_shards(sc, kinds, plans, obs, size=1000):
    """Coq sources asking for the indices where model and implementation disagree."""
    shards = []
    for i in range(0, len(plans), size):
        intern = {}
        body = ';\n'.join('(%s, %s)' % (coq_plan(p), coq_obs(o, intern))
                          for p, o in zip(plans[i:i + size], obs[i:i + size]))
        defs = ''.join('Definition %s : list N := [%s].\n' % (nm, '; '.join(str(c) for c in key))
                       for key, nm in intern.items())
        pre = (PREAMBLE + defs
               + 'Definition cases : list (plan * option (list (N * list N) * store * bool)) := [\n%s].\n' % body)
        term = ('disagreeing (fun x => case_agrees %s %s %s (fst x) (snd x)) cases 0'
                % (coq_cfg(sc.cfg), coq_store(sc.init), coq_kinds(kinds)))
        shards.append((i, pre, term))
    return shards


def eval_shard(sh):
    i, pre, term = sh
    ans = coqrun.coq_eval(pre, [term], timeout=300)
    return [i + j for j in coqrun.parse_nat_list(ans[0])]


def compare_with_model(sc, kinds, plans, obs):
    """-> list of indices where model and implementation disagree."""
    bad = []
    with concurrent.futures.ThreadPoolExecutor(max_workers=8) as ex:
        for part in ex.map(eval_shard, model_shards(sc, kinds, plans, obs)):
            bad.extend(part)
    return bad


def model_outcome(sc, kinds, plan):
    term = ('option_map (fun st => (outcome st, plan_excl %s (init_state %s %s) %s)) (run_plan %s (init_state %s %s) %s)'
            % (coq_cfg(sc.cfg), coq_store(sc.init), coq_kinds(kinds), coq_plan(plan),
               coq_cfg(sc.cfg), coq_store(sc.init), coq_kinds(kinds), coq_plan(plan)))
    return coqrun.coq_eval(PREAMBLE, [term], timeout=120)[0]


# ----------------------------------------------------------------------------
# deciding the property on the implementation's observations
# ----------------------------------------------------------------------------
def judge(sc, kinds, plan, o, model_agrees):
    """-> list of (key, what).  Independent of the model except for the known-finding
    classification, which requires the model to predict the very same failure."""
    out = []
    if o['status'] != 'ok':
        # still check the attributes: an invalid plan is a complete execution anyway
        if o['final'] != sc.init:
            out.append(('C17:lost-attribute',
                        '%s: after all threads finished the shared function has (__wrapped__, __signature__) = %s, initially %s'
                        % (sc.name, o['final'], sc.init)))
        return out
    if o['final'] != sc.init:
        out.append(('C17:lost-attribute',
                    '%s %s plan %s: after all threads finished the shared function has (__wrapped__, __signature__) = %s, initially %s'
                    % (sc.name, ''.join(kinds), list(plan), o['final'], sc.init)))
    views = set(sc.strings[n] for n in (1, 2, 3) if n in sc.strings)
    for tid, (k, res) in enumerate(zip(kinds, o['results'])):
        if res == sc.solo[k]:
            continue
        known = (isinstance(res, str) and res in views and not o['excl'] and model_agrees)
        key = KNOWN_KEY if known else 'C17:nonsequential'
        out.append((key, '%s %s plan %s: thread %d (%s) returned %s, alone it returns %s%s'
                    % (sc.name, ''.join(kinds), list(plan), tid,
                       'inspect.signature' if k == KPLAIN else 'sigtools.signature',
                       res, sc.solo[k],
                       ' (another plain view of the same function, read while the delete/restore windows of two threads overlap)' if known else '')))
    return out


# ----------------------------------------------------------------------------
# the deterministic exploration
# ----------------------------------------------------------------------------
def prune(kinds, plans):
    """Preempting a one-step thread (inspect.signature: no line event of a modelled
    function) is always invalid; keep one such plan per thread as a check of that."""
    kept, seen = [], set()
    for p in plans:
        badseg = [t for t, n in p if n is not None and kinds[t] == KPLAIN]
        if badseg:
            if badseg[0] in seen:
                continue
            seen.add(badseg[0])
        kept.append(p)
    return kept


def explore_W(ctx, rep, workers):
    rng = ctx.rng('plans3')
    two = all_plans(2, 2)
    jobs = []
    for name in W_SCENARIOS:
        for kinds in ([KSIG, KSIG], [KSIG, KPLAIN]):
            jobs.append((name, kinds, prune(kinds, two), True))
    n3 = 700 if ctx.quick else 12000
    for name in ('wraps', 'wraps+sig'):
        for kinds in ([KSIG, KSIG, KSIG], [KSIG, KSIG, KPLAIN], [KSIG, KPLAIN, KPLAIN]):
            ps = set()
            while len(ps) < n3:
                ps.add(random_plan(rng, 3, 2))
            jobs.append((name, kinds, prune(kinds, sorted(ps, key=str)), False))
    all_shards = []
    results = []
    for name, kinds, plans, exhaustive in jobs:
        sc = make_scenario(name)
        # the solo answers against their written-down specification (1-thread plans)
        for k in (KPLAIN, KSIG):
            if sc.solo[k] != sc.spec[k]:
                rep.violation('C17:solo-answer', '%s: %s alone returns %s, expected %s'
                              % (name, k, sc.solo[k], sc.spec[k]),
                              {'machine': 'W', 'scenario': name, 'kinds': [k], 'plan': [[0, None]]})
        if sc.solo != sc.spec:
            continue
        if not sc.intact():
            rep.violation('C17:lost-attribute',
                          '%s: after a single-threaded retrieval the function has (__wrapped__, __signature__) = %s, initially %s'
                          % (name, sc.final(), sc.init),
                          {'machine': 'W', 'scenario': name, 'kinds': [KSIG], 'plan': [[0, None]]})
            continue
        obs = run_batch(name, kinds, plans, workers)
        results.append((sc, kinds, plans, obs, exhaustive))
        for sh in model_shards(sc, kinds, plans, obs):
            all_shards.append((len(results) - 1, sh))
    # model side, all shards in parallel
    disagree = dict((i, set()) for i in range(len(results)))
    with concurrent.futures.ThreadPoolExecutor(max_workers=min(10, workers)) as ex:
        for (ri, _sh), bad in zip(all_shards, ex.map(eval_shard, [sh for _, sh in all_shards])):
            disagree[ri].update(bad)
    cov = rep.coverage.setdefault('W', {})
    for ri, (sc, kinds, plans, obs, exhaustive) in enumerate(results):
        tag = '%s/%s' % (sc.name, ''.join(kinds))
        stats = {'plans': len(plans), 'valid': 0, 'overlapping': 0, 'nonsequential': 0,
                 'exhaustive_le2_preemptions': exhaustive, 'model_disagreements': len(disagree[ri])}
        for i, (p, o) in enumerate(zip(plans, obs)):
            rep.evaluations += 1
            agrees = i not in disagree[ri]
            if o['status'] == 'ok':
                stats['valid'] += 1
                if not o['excl']:
                    stats['overlapping'] += 1
                rep.distinct.add((sc.name, tuple(kinds), tuple(o['nums']), o['excl'],
                                  tuple(tuple(t) for t in o['traces'])))
            verdicts = judge(sc, kinds, p, o, agrees)
            if verdicts:
                stats['nonsequential'] += 1
            for key, what in verdicts:
                rep.violation(key, what, {'machine': 'W', 'scenario': sc.name, 'kinds': kinds,
                                          'plan': [list(x) for x in p]})
            if not agrees:
                mo = 'see Model/Sched.v run_plan'
                if len(rep.corr_breaks) < 2:
                    try:
                        mo = model_outcome(sc, kinds, p)
                    except coqrun.CoqError as e:
                        mo = 'coq error: %s' % e
                rep.corr_break('C17 machine W: plan outcome (answers, line traces, final attributes, overlap)',
                               {'scenario': sc.name, 'kinds': kinds, 'plan': [list(x) for x in p]},
                               mo, {k: o[k] for k in ('status', 'nums', 'results', 'traces', 'final', 'excl')})
            if o['status'] == 'ok' and not o['excl']:
                rep.sample({'scenario': sc.name, 'kinds': kinds, 'plan': [list(x) for x in p],
                            'answers': o['results'], 'solo': [sc.solo[k] for k in kinds]}, limit=4)
        cov[tag] = stats


# ----------------------------------------------------------------------------
# machine G (as_forged recursion guard) and machine C (OverrideableDataDesc cache)
# ----------------------------------------------------------------------------
class _Forged(object):
    __signature__ = specifiers.as_forged

    @specifiers.forwards_to_method('method')
    def __call__(self, x, *args, **kwargs):
        return self.method(*args, **kwargs)

    def method(self, a, b, c):
        return (a, b, c)


class _Modified(object):
    @modifiers.kwoargs('b')
    def meth(self, a, b):
        return (a, b)


class GScenario(object):
    """inspect.signature(o) on an object whose class has __signature__ = as_forged."""
    machine = 'G'
    name = 'as_forged'
    spec = '(x, a, b, c)'

    def __init__(self):
        self.o = _Forged()
        self.tracked = [self.o]
        o = self.o
        self.fn = lambda: str(inspect.signature(o))
        self.solo = _safe(self.fn)
        self.rawcall = str(inspect.signature(_Forged.__call__.__get__(o)))

    def call(self, kind):
        return self.fn

    def answer_num(self, text):
        if text == self.solo:
            return 1
        if text == self.rawcall:
            return 2
        return 99

    def final_ok(self):
        return len(specifiers.as_forged.currently_computing) == 0


class CScenario(object):
    """sigtools.signature / inspect.signature of a modifiers.kwoargs method reached
    through instances (OverrideableDataDesc.__get__ and its WeakKeyDictionary)."""
    machine = 'C'
    name = 'modifiers-method'
    spec = '(a, *, b)'

    def __init__(self):
        self.k = _Modified()
        self.desc = _Modified.__dict__['meth']
        self.tracked = [self.desc]
        k = self.k
        self.fns = {KSIG: lambda: str(sigtools.signature(k.meth)),
                    KPLAIN: lambda: str(inspect.signature(k.meth))}
        self.solo = {KSIG: _safe(self.fns[KSIG]), KPLAIN: _safe(self.fns[KPLAIN])}

    def call(self, kind):
        return self.fns[kind]

    def final_ok(self):
        return _safe(self.fns[KSIG]) == self.solo[KSIG] and _safe(lambda: self.k.meth(1, b=2)) == (1, 2)


def _worker_GC(job):
    machine, kinds, plans = job
    sys.setswitchinterval(0.005)
    sc = GScenario() if machine == 'G' else CScenario()
    out = []
    for p in plans:
        r = Run([sc.call(k) for k in kinds], sc.tracked)
        status = r.run_plan(list(p))
        out.append({'status': status, 'results': list(r.result), 'traces': [list(t) for t in r.trace],
                    'final_ok': sc.final_ok()})
        if not out[-1]['final_ok']:
            specifiers.as_forged.currently_computing.clear()
            sc = GScenario() if machine == 'G' else CScenario()
    return out


def run_batch_GC(machine, kinds, plans, workers):
    chunk = max(1, min(200, (len(plans) + workers - 1) // workers))
    jobs = [(machine, kinds, plans[i:i + chunk]) for i in range(0, len(plans), chunk)]
    if workers <= 1 or len(jobs) == 1:
        res = [_worker_GC(j) for j in jobs]
    else:
        import multiprocessing
        ctxmp = multiprocessing.get_context('fork')
        with concurrent.futures.ProcessPoolExecutor(max_workers=workers, mp_context=ctxmp) as ex:
            res = list(ex.map(_worker_GC, jobs))
    return [o for part in res for o in part]


GUARD_HIT_TRACE = [601, 602, 603]


def judge_G(sc, n, plan, o, agrees):
    out = []
    if not o['final_ok']:
        out.append(('C17:guard-leak', 'as_forged: plan %s: after all threads finished the object is still in as_forged.currently_computing'
                    % (list(plan),)))
    for tid, res in enumerate(o['results']):
        if res == sc.solo:
            continue
        known = (res == sc.rawcall and o['traces'][tid] == GUARD_HIT_TRACE and agrees and n >= 2)
        out.append((GUARD_KEY if known else 'C17:nonsequential',
                    'as_forged plan %s: thread %d inspect.signature(o) returned %s, alone it returns %s%s'
                    % (list(plan), tid, res, sc.solo,
                       ' (its guard check at specifiers.py:65 found o in currently_computing, put there by another thread)'
                       if known else '')))
    return out


def explore_G(ctx, rep, workers):
    rng = ctx.rng('plansG')
    K = 25 if ctx.quick else 130
    sc = GScenario()
    if sc.solo != sc.spec:
        rep.violation('C17:solo-answer', 'as_forged: inspect.signature(o) alone returns %s, expected %s' % (sc.solo, sc.spec),
                      {'machine': 'G', 'n': 1, 'plan': [[0, None]]})
        return
    cov = rep.coverage.setdefault('G', {})
    sets = [(2, all_plans(2, 2, K), True)]
    ps = set()
    while len(ps) < (300 if ctx.quick else 5000):
        ps.add(random_plan(rng, 3, 2, K))
    sets.append((3, sorted(ps, key=str), False))
    for n, plans, exhaustive in sets:
        kinds = ['G'] * n
        obs = run_batch_GC('G', kinds, plans, workers)
        shards = []
        for i in range(0, len(plans), 1000):
            intern = {}

            def tr_name(tr):
                key = tuple(tr)
                if key not in intern:
                    intern[key] = 'tr%d' % len(intern)
                return intern[key]
            body = ';\n'.join(
                '(%s, %s)' % (coq_plan(p), 'None' if o['status'] != 'ok' else '(Some [%s])' % '; '.join(
                    '(%d, %s)' % (sc.answer_num(r), tr_name(t)) for r, t in zip(o['results'], o['traces'])))
                for p, o in zip(plans[i:i + 1000], obs[i:i + 1000]))
            defs = ''.join('Definition %s : list N := [%s].\n' % (nm, '; '.join(str(c) for c in key))
                           for key, nm in intern.items())
            pre = PREAMBLE + defs + 'Definition cases : list (plan * option (list (N * list N))) := [\n%s].\n' % body
            outq = ('disagreeing (fun x => match grun_plan (ginit %d%%nat) (fst x) with Some st => negb (g_any_out st) | None => true end) cases 0' % n)
            shards.append((i, pre, 'disagreeing (fun x => gcase_agrees %d%%nat (fst x) (snd x)) cases 0' % n, outq))
        bad, outside = set(), set()
        for i, pre, term, outq in shards:
            a, b = coqrun.coq_eval(pre, [term, outq], timeout=300)
            bad.update(i + j for j in coqrun.parse_nat_list(a))
            outside.update(i + j for j in coqrun.parse_nat_list(b))
        stats = {'plans': len(plans), 'valid': 0, 'nonsequential': 0, 'outside_modelled_region': len(outside),
                 'model_disagreements': len(bad), 'preemption_positions': K,
                 'exhaustive_le2_preemptions_within_positions': exhaustive}
        for i, (p, o) in enumerate(zip(plans, obs)):
            rep.evaluations += 1
            if o['status'] == 'ok':
                stats['valid'] += 1
                rep.distinct.add(('G', n, tuple(o['results']), tuple(tuple(t) for t in o['traces'])))
            v = judge_G(sc, n, p, o, i not in bad)
            if v:
                stats['nonsequential'] += 1
            for key, what in v:
                rep.violation(key, what, {'machine': 'G', 'n': n, 'plan': [list(x) for x in p]})
            if i in bad:
                rep.corr_break('C17 machine G: plan outcome (answers, line traces)',
                               {'n': n, 'plan': [list(x) for x in p]}, 'see Model/Sched.v grun_plan',
                               {k: o[k] for k in ('status', 'results', 'traces')})
        cov['as_forged/%d threads' % n] = stats


def explore_C(ctx, rep, workers):
    rng = ctx.rng('plansC')
    sc = CScenario()
    for k in (KSIG, KPLAIN):
        if sc.solo[k] != sc.spec:
            rep.violation('C17:solo-answer', 'modifiers method: %s alone returns %s, expected %s' % (k, sc.solo[k], sc.spec),
                          {'machine': 'C', 'kinds': [k], 'plan': [[0, None]]})
            return
    cov = rep.coverage.setdefault('C', {})
    K = 30
    sets = [([KSIG, KSIG], all_plans(2, 2, K)), ([KSIG, KPLAIN], all_plans(2, 2, K))]
    ps = set()
    while len(ps) < (200 if ctx.quick else 3000):
        ps.add(random_plan(rng, 3, 2, K))
    sets.append(([KSIG, KPLAIN, KSIG], sorted(ps, key=str)))
    for kinds, plans in sets:
        obs = run_batch_GC('C', kinds, plans, workers)
        stats = {'plans': len(plans), 'valid': 0, 'nonsequential': 0}
        for p, o in zip(plans, obs):
            rep.evaluations += 1
            if o['status'] == 'ok':
                stats['valid'] += 1
                rep.distinct.add(('C', tuple(kinds), tuple(o['results']), tuple(tuple(t) for t in o['traces'])))
            rp = {'machine': 'C', 'kinds': kinds, 'plan': [list(x) for x in p]}
            if not o['final_ok']:
                rep.violation('C17:cache-broken', 'modifiers method plan %s: after the threads finished the method no longer has its signature / behaviour' % (list(p),), rp)
            for tid, (k, res) in enumerate(zip(kinds, o['results'])):
                if res != sc.solo[k]:
                    stats['nonsequential'] += 1
                    rep.violation('C17:cache-race', 'modifiers method %s plan %s: thread %d returned %s, alone it returns %s'
                                  % (''.join(kinds), list(p), tid, res, sc.solo[k]), rp)
        cov['modifiers-method/%s' % ''.join(kinds)] = stats


# ----------------------------------------------------------------------------
# machine F: the one-time lazy transform of _ForgerWrapper.__get__ (emulate=True forgers)
# ----------------------------------------------------------------------------
def _f_make(item, strict=False):
    return item, strict


F_KINDS = ['L', 'I', 'S', 'B']
F_KIND_NAMES = {
    'L': 'sigtools.signature(lookup)  [lookup forwards to Registry.__class_getitem__]',
    'I': 'inspect.signature(Registry.__class_getitem__)',
    'S': 'sigtools.signature(Registry.__class_getitem__)',
    'B': 'b = Registry.__class_getitem__; inspect.signature(b.__wrapped__)',
}
F_SPEC = {'L': '(item, strict=False)', 'I': '(item, strict=False)', 'S': '(item, strict=False)',
          'B': '(*args, **kwargs)'}


class FScenario(object):
    """A FRESH, never bound class whose __class_getitem__ carries an emulate=True forger:
    the first bindings of the attribute (which run the lazy classmethod transform on the
    shared descriptor in the class __dict__) happen inside the scheduled threads."""
    machine = 'F'
    name = 'forger-transform'

    def __init__(self):
        class Registry(object):
            @specifiers.forwards_to_function(_f_make, emulate=True)
            def __class_getitem__(cls, *args, **kwargs):
                return _f_make(*args, **kwargs)

        def lookup(*args, **kwargs):
            return Registry.__class_getitem__(*args, **kwargs)
        self.R = Registry
        self.lookup = lookup
        self.desc = vars(Registry)['__class_getitem__']
        self.tracked = [self.desc]

    def call(self, kind):
        R, lookup = self.R, self.lookup
        if kind == 'L':
            return lambda: str(sigtools.signature(lookup))
        if kind == 'I':
            return lambda: str(inspect.signature(R.__class_getitem__))
        if kind == 'S':
            return lambda: str(sigtools.signature(R.__class_getitem__))
        return lambda: str(inspect.signature(R.__class_getitem__.__wrapped__))

    def final(self):
        """(flag, __wrapped__ is a classmethod/staticmethod) of the shared descriptor"""
        d = self.desc
        return (bool(getattr(d, '_transformed', None)),
                isinstance(d.__dict__.get('__wrapped__'), (classmethod, staticmethod)))


_F_SOLO = {}


def f_solo(kind):
    """what the retrieval returns on a fresh class when it runs alone (measured once per process)"""
    if kind not in _F_SOLO:
        _F_SOLO[kind] = _safe(FScenario().call(kind))
    return _F_SOLO[kind]


def f_answer_num(kind, text):
    if text == f_solo(kind):
        return 1
    raw = {'L': '(cls, item, strict=False)', 'I': '(cls, item, strict=False)',
           'S': '(cls, item, strict=False)', 'B': '(cls, *args, **kwargs)'}[kind]
    return 2 if text == raw else 99


def _worker_F(job):
    kinds, plans = job
    sys.setswitchinterval(0.005)
    out = []
    for p in plans:
        sc = FScenario()                       # fresh class per plan
        r = Run([sc.call(k) for k in kinds], sc.tracked)
        status = r.run_plan(list(p))
        res = list(r.result)
        again = [_safe(sc.call(k)) for k in kinds]     # quiescence: later calls
        out.append({'status': status, 'results': res, 'traces': [list(t) for t in r.trace],
                    'final': sc.final(), 'again': again})
    return out


def run_batch_F(kinds, plans, workers):
    chunk = max(1, min(100, (len(plans) + workers - 1) // workers))
    jobs = [(kinds, plans[i:i + chunk]) for i in range(0, len(plans), chunk)]
    if workers <= 1 or len(jobs) == 1:
        res = [_worker_F(j) for j in jobs]
    else:
        import multiprocessing
        ctxmp = multiprocessing.get_context('fork')
        with concurrent.futures.ProcessPoolExecutor(max_workers=workers, mp_context=ctxmp) as ex:
            res = list(ex.map(_worker_F, jobs))
    return [o for part in res for o in part]


FPREAMBLE = PREAMBLE + 'Require Import Sigtools.Proofs.SchedForger.\nOpen Scope N_scope.\n'


def judge_F(kinds, plan, o):
    out = []
    for tid, (k, res) in enumerate(zip(kinds, o['results'])):
        if res != f_solo(k):
            out.append(('C17:forger-transform-race',
                        'emulate=True forger on __class_getitem__ of a fresh class, threads %s, plan %s: thread %d %s returned %s, alone it returns %s'
                        % (''.join(kinds), list(plan), tid, F_KIND_NAMES[k], res, f_solo(k))))
    if o['status'] == 'ok':
        if o['final'] != (True, True):
            out.append(('C17:forger-transform-lost',
                        'emulate=True forger, threads %s, plan %s: after the threads finished the shared descriptor has (_transformed, __wrapped__ transformed) = %s'
                        % (''.join(kinds), list(plan), o['final'])))
        for k, a in zip(kinds, o['again']):
            if a != f_solo(k):
                out.append(('C17:forger-transform-lost',
                            'emulate=True forger, threads %s, plan %s: after the threads finished %s returns %s instead of %s'
                            % (''.join(kinds), list(plan), F_KIND_NAMES[k], a, f_solo(k))))
    return out


def explore_F(ctx, rep, workers):
    rng = ctx.rng('plansF')
    for k in F_KINDS:
        if f_solo(k) != F_SPEC[k]:
            rep.violation('C17:solo-answer', 'emulate=True forger on __class_getitem__: %s alone returns %s, expected %s'
                          % (F_KIND_NAMES[k], f_solo(k), F_SPEC[k]),
                          {'machine': 'F', 'kinds': [k], 'plan': [[0, None]]})
            return
    K = 13
    two = all_plans(2, 2, K)
    sets = []
    pairs = [(a, b) for a in F_KINDS for b in F_KINDS]
    if ctx.quick:
        # every plan for four pairs, a third of the plans (seeded) for the other twelve
        full = set([('L', 'L'), ('I', 'S'), ('B', 'I'), ('S', 'L')])
        for pr in pairs:
            ps = two if pr in full else [p for p in two if rng.random() < 0.34]
            sets.append((list(pr), ps, pr in full))
    else:
        for pr in pairs:
            sets.append((list(pr), two, True))
    n3 = 150 if ctx.quick else 3000
    for trio in (['L', 'I', 'S'], ['B', 'S', 'L']):
        ps = set()
        while len(ps) < n3:
            ps.add(random_plan(rng, 3, 2, K))
        sets.append((trio, sorted(ps, key=str), False))
    cov = rep.coverage.setdefault('F', {})
    shards = []
    results = []
    for kinds, plans, exhaustive in sets:
        obs = run_batch_F(kinds, plans, workers)
        results.append((kinds, plans, obs, exhaustive))
        for i in range(0, len(plans), 1000):
            intern = {}

            def tr_name(tr):
                key = tuple(tr)
                if key not in intern:
                    intern[key] = 'tr%d' % len(intern)
                return intern[key]
            body = ';\n'.join(
                '(%s, %s)' % (coq_plan(p), 'None' if o['status'] != 'ok' else '(Some ([%s], (%s, %s)))' % (
                    '; '.join('(%d, %s)' % (f_answer_num(k, r), tr_name(t))
                              for k, r, t in zip(kinds, o['results'], o['traces'])),
                    coqrun.coq_bool(o['final'][0]), coqrun.coq_bool(o['final'][1])))
                for p, o in zip(plans[i:i + 1000], obs[i:i + 1000]))
            defs = ''.join('Definition %s : list N := [%s].\n' % (nm, '; '.join(str(c) for c in key))
                           for key, nm in intern.items())
            pre = (FPREAMBLE + defs
                   + 'Definition cases : list (plan * option (list (N * list N) * (bool * bool))) := [\n%s].\n' % body)
            shards.append((len(results) - 1, (i, pre, 'disagreeing (fun x => fcase_agrees %d%%nat (fst x) (snd x)) cases 0' % len(kinds))))
    disagree = dict((i, set()) for i in range(len(results)))
    try:
        with concurrent.futures.ThreadPoolExecutor(max_workers=min(10, workers)) as ex:
            for (ri, _sh), bad in zip(shards, ex.map(eval_shard, [sh for _, sh in shards])):
                disagree[ri].update(bad)
    except coqrun.CoqError as e:
        # e.g. Proofs/SchedForger.vo not built: the tie is broken, the direct judgement below still runs
        rep.corr_break('C17 machine F: the model could not be evaluated', 'Proofs/SchedForger.v', str(e)[-600:], '')
    for ri, (kinds, plans, obs, exhaustive) in enumerate(results):
        stats = {'plans': len(plans), 'valid': 0, 'nonsequential': 0, 'both_transform': 0,
                 'model_disagreements': len(disagree[ri]), 'preemption_positions': K,
                 'exhaustive_le2_preemptions': exhaustive}
        for i, (p, o) in enumerate(zip(plans, obs)):
            rep.evaluations += 1
            if o['status'] == 'ok':
                stats['valid'] += 1
                if sum(1 for t in o['traces'] if 901 in t) >= 2:
                    stats['both_transform'] += 1
                rep.distinct.add(('F', tuple(kinds), tuple(o['results']), tuple(tuple(t) for t in o['traces'])))
            v = judge_F(kinds, p, o)
            if v:
                stats['nonsequential'] += 1
            rp = {'machine': 'F', 'kinds': kinds, 'plan': [list(x) for x in p]}
            for key, what in v:
                rep.violation(key, what, rp)
            if i in disagree[ri]:
                rep.corr_break('C17 machine F: plan outcome (answers, line traces, flag / transformed at the end)', rp,
                               'see Proofs/SchedForger.v frun_plan',
                               {k: o[k] for k in ('status', 'results', 'traces', 'final')})
        cov['forger-transform/%s' % ''.join(kinds)] = stats


def stress_F(ctx, rep, seconds):
    """first bindings on a fresh class by 3 free-running threads"""
    rng = ctx.rng('stressF')
    old = sys.getswitchinterval()
    rounds = wrong = 0
    try:
        sys.setswitchinterval(1e-6)
        t_end = time.time() + seconds
        while time.time() < t_end:
            rounds += 1
            sc = FScenario()
            kinds = [rng.choice(F_KINDS) for _ in range(3)]
            barrier = threading.Barrier(3)
            res = [None] * 3

            def body(i):
                fn = sc.call(kinds[i])
                try:
                    barrier.wait(10)
                except threading.BrokenBarrierError:
                    return
                res[i] = _safe(fn)
            ths = [threading.Thread(target=body, args=(i,), daemon=True) for i in range(3)]
            for t in ths:
                t.start()
            for t in ths:
                t.join(30)
            for k, r in zip(kinds, res):
                if r is None:
                    continue      # the thread never got to run (barrier timed out): nothing to judge
                if r != f_solo(k):
                    wrong += 1
                    rep.violation('C17:forger-transform-race',
                                  'stress, emulate=True forger on a fresh class: %s returned %s, alone %s'
                                  % (F_KIND_NAMES[k], r, f_solo(k)), {'machine': 'stressF'})
    finally:
        sys.setswitchinterval(old)
    rep.coverage['stressF'] = {'rounds': rounds, 'wrong_answers': wrong}


# ----------------------------------------------------------------------------
# machine E: "equal instances" - modifiers-wrapped methods of instances with value equality
# ----------------------------------------------------------------------------
E_INSTANCES = {'p': 'primary', 'r': 'replica', 'o': 'other'}
E_QUERY_NAMES = {
    'S': 'sigtools.signature(ep.call)',
    'I': 'inspect.signature(ep.call_emulated)',
    'B': 'b = ep.call: (__self__ of the bound wrapper, b(...) result)',
    'E': 'b = ep.call_emulated: (__self__ of the bound wrapper, b(...) result)',
}
# written-down answers of the retrievals run alone
E_SPEC = {
    ('p', 'S'): '(url, retries=3, *, timeout=None)',
    ('r', 'S'): '(key, value, *, timeout=None, ttl=None)',
    ('o', 'S'): '(key, *, timeout=None)',
    ('p', 'I'): '(url, retries=3, *, timeout=None)',
    ('r', 'I'): '(key, value, *, timeout=None, ttl=None)',
    ('o', 'I'): '(key, *, timeout=None)',
    ('p', 'B'): "primary|('fetch', 1)", ('r', 'B'): "replica|('store', 1)", ('o', 'B'): "other|('drop', 1)",
    ('p', 'E'): "primary|('fetch', 1)", ('r', 'E'): "replica|('store', 1)", ('o', 'E'): "other|('drop', 1)",
}


def _self_of(obj, depth=0):
    """the instance a bound sigtools wrapper is bound to (through _ForgerWrapper.__wrapped__,
    _PokTranslator.func, bound method __self__)"""
    if depth > 6:
        return None
    if inspect.ismethod(obj):
        return obj.__self__
    for attr in ('func', '__wrapped__'):
        try:
            nxt = vars(obj).get(attr) if hasattr(obj, '__dict__') else None
        except TypeError:
            nxt = None
        if nxt is None:
            nxt = getattr(obj, attr, None)
        if nxt is not None and nxt is not obj:
            r = _self_of(nxt, depth + 1)
            if r is not None:
                return r
    return None


class EScenario(object):
    """A FRESH class with value equality (__eq__/__hash__ by name) and three instances:
    primary == replica (not identical, different handlers), other != both."""
    machine = 'E'
    name = 'equal-instances'

    def __init__(self):
        def fetch(url, retries=3):
            return ('fetch', url)

        def drop(key):
            return ('drop', key)

        class Endpoint(object):
            def __init__(self, name, handler):
                self.name = name
                self.handler = handler

            def __eq__(self, other):
                return isinstance(other, Endpoint) and self.name == other.name

            def __ne__(self, other):
                return not self == other

            def __hash__(self):
                return hash(self.name)

            @specifiers.forwards_to_method('handler')
            @modifiers.kwoargs('timeout')
            def call(self, timeout=None, *args, **kwargs):
                return self.handler(*args, **kwargs)

            @specifiers.forwards_to_method('handler', emulate=True)
            @modifiers.kwoargs('timeout')
            def call_emulated(self, timeout=None, *args, **kwargs):
                return self.handler(*args, **kwargs)

        def store2(key, value, *, ttl=None):
            return ('store', key)
        self.cls = Endpoint
        self.inst = {'p': Endpoint('cache', fetch), 'r': Endpoint('cache', store2), 'o': Endpoint('purge', drop)}
        d = vars(Endpoint)
        self.tracked = [d['call'], d['call_emulated']]
        w = getattr(d['call_emulated'], '__wrapped__', None)
        if w is not None:
            self.tracked.append(w)

    def who(self, obj):
        for k, v in self.inst.items():
            if obj is v:
                return E_INSTANCES[k]
        return 'none' if obj is None else 'unknown'

    def call(self, spec):
        ep = self.inst[spec[0]]
        q = spec[1]
        if q == 'S':
            return lambda: str(sigtools.signature(ep.call))
        if q == 'I':
            return lambda: str(inspect.signature(ep.call_emulated))

        def bind():
            b = ep.call if q == 'B' else ep.call_emulated
            if spec[0] == 'r':
                res = b(1, 2)
            else:
                res = b(1)
            return '%s|%s' % (self.who(_self_of(b)), (res,) if not isinstance(res, tuple) else res)
        return bind


_E_SOLO = {}


def e_solo(spec):
    if spec not in _E_SOLO:
        _E_SOLO[spec] = _safe(EScenario().call(spec))
    return _E_SOLO[spec]


def _worker_E(job):
    specs, plans = job
    sys.setswitchinterval(0.005)
    out = []
    for p in plans:
        sc = EScenario()
        r = Run([sc.call(sp) for sp in specs], sc.tracked)
        status = r.run_plan(list(p))
        again = [_safe(sc.call(sp)) for sp in specs]
        out.append({'status': status, 'results': list(r.result), 'traces': [list(t) for t in r.trace],
                    'again': again})
    return out


def run_batch_E(specs, plans, workers):
    chunk = max(1, min(100, (len(plans) + workers - 1) // workers))
    jobs = [(specs, plans[i:i + chunk]) for i in range(0, len(plans), chunk)]
    if workers <= 1 or len(jobs) == 1:
        res = [_worker_E(j) for j in jobs]
    else:
        import multiprocessing
        ctxmp = multiprocessing.get_context('fork')
        with concurrent.futures.ProcessPoolExecutor(max_workers=workers, mp_context=ctxmp) as ex:
            res = list(ex.map(_worker_E, jobs))
    return [o for part in res for o in part]


def judge_E(specs, plan, o):
    out = []
    for tid, (sp, res) in enumerate(zip(specs, o['results'])):
        if res != e_solo(sp):
            out.append(('C17:equal-instances',
                        'equal instances (primary == replica, different handlers), threads %s, plan %s: thread %d on %s, %s returned %s, alone it returns %s'
                        % (' '.join(specs), list(plan), tid, E_INSTANCES[sp[0]], E_QUERY_NAMES[sp[1]], res, e_solo(sp))))
    for sp, a in zip(specs, o['again']):
        if a != e_solo(sp):
            out.append(('C17:equal-instances',
                        'equal instances, threads %s, plan %s: after the threads finished, on %s %s returns %s instead of %s'
                        % (' '.join(specs), list(plan), E_INSTANCES[sp[0]], E_QUERY_NAMES[sp[1]], a, e_solo(sp))))
    return out


def explore_E(ctx, rep, workers):
    rng = ctx.rng('plansE')
    for sp, want in sorted(E_SPEC.items()):
        sp = ''.join(sp)
        if e_solo(sp) != want:
            rep.violation('C17:solo-answer', 'equal instances: on %s %s alone returns %s, expected %s'
                          % (E_INSTANCES[sp[0]], E_QUERY_NAMES[sp[1]], e_solo(sp), want),
                          {'machine': 'E', 'specs': [sp], 'plan': [[0, None]]})
            return
    K = 26
    two = all_plans(2, 2, K)
    qs = ['S', 'I', 'B', 'E']
    pairs = [('p' + a, 'r' + b) for a in qs for b in qs] + [('pS', 'pS'), ('rI', 'rB'), ('pB', 'oS')]
    sets = []
    for pr in pairs:
        if ctx.quick:
            ps = two[:2] + [p for p in two[2:] if rng.random() < 0.12]
        else:
            ps = two
        sets.append((list(pr), ps, not ctx.quick))
    n3 = 200 if ctx.quick else 4000
    for _ in range(2):
        trio = [i + rng.choice(qs) for i in 'pro']
        rng.shuffle(trio)
        ps = set()
        while len(ps) < n3:
            ps.add(random_plan(rng, 3, 2, K))
        sets.append((trio, sorted(ps, key=str), False))
    cov = rep.coverage.setdefault('E', {})
    for specs, plans, exhaustive in sets:
        obs = run_batch_E(specs, plans, workers)
        stats = {'plans': len(plans), 'valid': 0, 'nonsequential': 0, 'preemption_positions': K,
                 'exhaustive_le2_preemptions': exhaustive}
        for p, o in zip(plans, obs):
            rep.evaluations += 1
            if o['status'] == 'ok':
                stats['valid'] += 1
                rep.distinct.add(('E', tuple(specs), tuple(o['results']), tuple(tuple(t) for t in o['traces'])))
            v = judge_E(specs, p, o)
            if v:
                stats['nonsequential'] += 1
            for key, what in v:
                rep.violation(key, what, {'machine': 'E', 'specs': specs, 'plan': [list(x) for x in p]})
        cov['equal-instances/%s' % '-'.join(specs)] = stats


def stress_E(ctx, rep, seconds):
    """three free-running threads on the three instances of a fresh class, several rounds each"""
    rng = ctx.rng('stressE')
    old = sys.getswitchinterval()
    rounds = wrong = 0
    try:
        sys.setswitchinterval(1e-6)
        t_end = time.time() + seconds
        while time.time() < t_end:
            rounds += 1
            sc = EScenario()
            specs = [i + rng.choice('SIBE') for i in 'pro']
            barrier = threading.Barrier(3)
            res = [[] for _ in specs]

            def body(i):
                fn = sc.call(specs[i])
                try:
                    barrier.wait(10)
                except threading.BrokenBarrierError:
                    return
                for _ in range(3):
                    res[i].append(_safe(fn))
            ths = [threading.Thread(target=body, args=(i,), daemon=True) for i in range(3)]
            for t in ths:
                t.start()
            for t in ths:
                t.join(30)
            for sp, rs in zip(specs, res):
                for r in rs:
                    if r != e_solo(sp):
                        wrong += 1
                        rep.violation('C17:equal-instances',
                                      'stress, equal instances: on %s %s returned %s, alone %s'
                                      % (E_INSTANCES[sp[0]], E_QUERY_NAMES[sp[1]], r, e_solo(sp)), {'machine': 'stressE'})
    finally:
        sys.setswitchinterval(old)
    rep.coverage['stressE'] = {'rounds': rounds, 'wrong_answers': wrong}


# ----------------------------------------------------------------------------
# machine I: retrievals that share no mutable state in the code as it is
#   family K - class access of methods decorated with wrappers.wrapper_decorator /
#              wrappers.decorator (every access builds a fresh as_forged object: the
#              entries of the shared guard set as_forged.currently_computing never collide)
#   family R - sigtools.signature, from threads that did not import sigtools, of functions
#              forwarding *args/**kwargs to themselves / to each other (the per-thread
#              recursion stack of autoforwards_function)
#   family P - one modifiers object (kwoargs / posoargs / autokwoargs result), with and without
#              readable source, function / method on an instance / on the class, retrieved by all
#              threads: retrieval only reads it (cleanup_functools_wrapper is never applied to it)
# Model: coq/theories/Proofs/SchedIndep.v (n independent programs under the plan scheduler).
# ----------------------------------------------------------------------------
from sigtools import wrappers as _wrappers  # noqa: E402

I_KEYS = {'K': 'C17:class-access', 'R': 'C17:thread-recursion', 'P': 'C17:modifiers-shared'}
I_FAMILIES = ('K', 'R', 'P')
I_LABEL = {'K': 'methods looked up on the class', 'R': 'self/mutually forwarding functions',
           'P': 'one modifiers-wrapped callable (kwoargs / posoargs / autokwoargs) retrieved by every thread'}
# family P: object letter + how (I = inspect.signature, S = sigtools.signature); every thread works on the SAME object
P_OBJECTS = {
    'e': 'pok_exec = kwoargs("c")(f), f(a, b=2, c=3) made by exec (no readable source)',
    's': 'pok_src = kwoargs("c")(g), g(a, b=2, c=3) defined in a file',
    'a': 'auto_exec = autokwoargs(f), f made by exec',
    'o': 'poso_exec = posoargs("a")(f), f made by exec',
    'f': 'fwd_exec = kwoargs("c")(fw), fw(a, c=3, *args, **kwargs) made by exec, forwards to target',
    'g': 'fwd_src = kwoargs("c")(fw), fw(a, c=3, *args, **kwargs) defined in a file, forwards to target',
    'm': 'k.em, em = kwoargs("c")(method made by exec), looked up on the shared instance k by each thread',
    'n': 'k.sm, sm = kwoargs("c")(method defined in a file), looked up on the shared instance k by each thread',
    'c': 'K.em, the same exec-made method looked up on the class by each thread',
}
I_QUERY_NAMES = {
    'K': {
        'wI': 'inspect.signature(K.logged)  [wrapper_decorator method, looked up on the class]',
        'wS': 'sigtools.signature(K.logged)  [wrapper_decorator method, looked up on the class]',
        'sI': 'inspect.signature(K.tagged)  [wrappers.decorator method, looked up on the class]',
        'sS': 'sigtools.signature(K.tagged)  [wrappers.decorator method, looked up on the class]',
        'iI': 'inspect.signature(k.logged)  [wrapper_decorator method, looked up on the shared instance k]',
    },
    'R': {
        'r': 'sigtools.signature(retry)  [retry forwards *args, **kwargs to itself, then to target]',
        'p': 'sigtools.signature(ping)  [ping -> pong -> ping -> target]',
        'q': 'sigtools.signature(pong)  [pong -> ping -> pong / target]',
        'w': 'sigtools.signature(wrapped_retry)  [functools.wraps(impl) wrapper; impl calls the wrapper again]',
        'm': 'sigtools.signature(impl)  [the implementation under that functools.wraps wrapper]',
        'x': 'sigtools.signature(plain)  [ordinary forwarder to target, no recursion]',
    },
    'P': dict((o + h, '%s.signature(%s)' % ('inspect' if h == 'I' else 'sigtools', P_OBJECTS[o]))
              for o in P_OBJECTS for h in 'IS'),
}
# the answers of the retrievals run alone, written down
I_SPEC = {
    'K': {'wI': '(self, a, b=2, *, _show=True)', 'wS': '(self, a, b=2, *, _show=True)',
          'sI': '(this, c, *, tag=None)', 'sS': '(this, c, *, tag=None)',
          'iI': '(a, b=2, *, _show=True)'},
    'R': {'r': '(attempts, a, b=1, *, c=None)', 'p': '(n, a, b=1, *, c=None)', 'q': '(m, a, b=1, *, c=None)',
          'w': '(attempts, a, b=1, *, c=None)', 'm': '(attempts, a, b=1, *, c=None)', 'x': '(z, a, b=1, *, c=None)'},
    'P': {'eI': '(a, b=2, *, c=3)', 'eS': '(a, b=2, *, c=3)', 'sI': '(a, b=2, *, c=3)', 'sS': '(a, b=2, *, c=3)',
          'aI': '(a, *, b=2, c=3)', 'aS': '(a, *, b=2, c=3)', 'oI': '(a, /, b=2, c=3)', 'oS': '(a, /, b=2, c=3)',
          'fI': '(a, *args, c=3, **kwargs)', 'fS': '(a, *args, c=3, **kwargs)',
          'gI': '(a, *args, c=3, **kwargs)', 'gS': '(a, x, y=1, *, c=3, z=None)',
          'mI': '(a, b=2, *, c=3)', 'mS': '(a, b=2, *, c=3)', 'nI': '(a, b=2, *, c=3)', 'nS': '(a, b=2, *, c=3)',
          'cI': '(self, a, b=2, *, c=3)', 'cS': '(self, a, b=2, *, c=3)'},
}
# queries that touch a functools.wraps function: its delete/restore window is the listed
# C17:wrapped-window race when two threads work on it, so such a query is scheduled next to
# unrelated ones only (and alone)
I_WINDOWED = {'K': set(), 'R': set(['w', 'm']), 'P': set()}


class IScenario(object):
    """fresh objects of one family"""
    machine = 'I'

    def __init__(self, family):
        self.family = family
        self.pred = None
        self.extra = None
        if family == 'K':
            self._init_K()
        elif family == 'R':
            self._init_R()
        elif family == 'P':
            self._init_P()
        else:
            raise KeyError(family)

    # -- family K
    def _init_K(self):
        @_wrappers.wrapper_decorator
        @modifiers.autokwoargs
        def log_call(func, _show=True, *args, **kwargs):
            return func(*args, **kwargs)

        def tag_raw(func, *args, tag=None, **kwargs):
            return func(*args, **kwargs)
        tag_call = _wrappers.decorator(tag_raw)

        def logged_raw(self, a, b=2):
            return (a, b)

        def tagged_raw(this, c):
            return c

        class K(object):
            logged = log_call(logged_raw)
            tagged = tag_call(tagged_raw)
        self.K = K
        self.k = K()
        raws = (logged_raw, tagged_raw)
        self.tracked = [K, self.k, logged_raw, tagged_raw, tag_raw, vars(K)['logged'], vars(K)['tagged']]
        kinds = (_wrappers._Wrapped, _wrappers._SimpleWrapped)

        def pred(o):
            # the wrapper objects that attribute access builds while the threads run
            if isinstance(o, kinds):
                w = vars(o).get('__wrapped__')
                w = getattr(w, '__func__', w)
                return any(w is r for r in raws)
            return False
        self.pred = pred

    # -- family R
    def _init_R(self):
        def target(a, b=1, *, c=None):
            return (a, b, c)

        def retry(attempts, *args, **kwargs):
            if attempts:
                return retry(attempts - 1, *args, **kwargs)
            return target(*args, **kwargs)

        def ping(n, *args, **kwargs):
            if n:
                return pong(n - 1, *args, **kwargs)
            return target(*args, **kwargs)

        def pong(m, *args, **kwargs):
            return ping(m, *args, **kwargs)

        def impl(attempts, *args, **kwargs):
            if attempts:
                return wrapped_retry(attempts - 1, *args, **kwargs)
            return target(*args, **kwargs)

        @functools.wraps(impl)
        def wrapped_retry(*args, **kwargs):
            return impl(*args, **kwargs)

        def plain(z, *args, **kwargs):
            return target(*args, **kwargs)
        self.fns = {'r': retry, 'p': ping, 'q': pong, 'w': wrapped_retry, 'm': impl, 'x': plain}
        self.impl = impl
        self.tracked = [target, retry, ping, pong, impl, wrapped_retry, plain]

    # -- family P
    def _init_P(self):
        def target(x, y=1, *, z=None):
            return (x, y, z)

        def made(src, name):
            ns = {'target': target}
            exec(src, ns)                      # no file behind the code object: inspect.getsource fails
            return ns[name]
        src_f = 'def f(a, b=2, c=3):\n    return a, b, c\n'
        src_fw = 'def fw(a, c=3, *args, **kwargs):\n    return target(*args, **kwargs)\n'
        src_em = 'def em(self, a, b=2, c=3):\n    return a, b, c\n'

        def g(a, b=2, c=3):
            return a, b, c

        def fw(a, c=3, *args, **kwargs):
            return target(*args, **kwargs)

        class K(object):
            em = modifiers.kwoargs('c')(made(src_em, 'em'))

            @modifiers.kwoargs('c')
            def sm(self, a, b=2, c=3):
                return a, b, c
        self.K = K
        self.k = k = K()
        objs = {
            'e': modifiers.kwoargs('c')(made(src_f, 'f')),
            's': modifiers.kwoargs('c')(g),
            'a': modifiers.autokwoargs(made(src_f, 'f')),
            'o': modifiers.posoargs('a')(made(src_f, 'f')),
            'f': modifiers.kwoargs('c')(made(src_fw, 'fw')),
            'g': modifiers.kwoargs('c')(fw),
            # the bound translator objects, built (and cached by OverrideableDataDesc.__get__) before the
            # threads start: each thread's k.em finds this one object (the cache itself is machine C's subject)
            'm': k.em,
            'n': k.sm,
            'c': K.em,
        }
        self.objs = objs
        self.readable = dict((o, _util.get_ast(getattr(p.func, '__func__', p.func)) is not None)
                             for o, p in objs.items())
        self.tracked = list(objs.values()) + [vars(K)['em'], vars(K)['sm'], target, k, K]
        self.tracked += [p.func for p in objs.values()]
        self.initial = dict((o, (p.__signature__, vars(p).get('__wrapped__'))) for o, p in objs.items())
        self.extra = extra_codes_P()

    def _final_P(self):
        """-> list of what is wrong with the shared translator objects"""
        bad = []
        for o, p in sorted(self.objs.items()):
            sig0, w0 = self.initial[o]
            if getattr(p, '__signature__', None) is not sig0:
                bad.append('%s has lost / changed its __signature__' % P_OBJECTS[o].split(',')[0])
            if vars(p).get('__wrapped__') is not w0:
                bad.append('%s has lost / changed its __wrapped__' % P_OBJECTS[o].split(',')[0])
        if len(specifiers.as_forged.currently_computing):
            bad.append('as_forged.currently_computing is not empty')
        if self.k.em is not self.objs['m'] or self.k.sm is not self.objs['n']:
            bad.append('k.em / k.sm is no longer the cached bound object')
        return bad

    def call(self, q):
        if self.family == 'R':
            f = self.fns[q]
            return lambda: str(sigtools.signature(f))
        if self.family == 'P':
            how = inspect.signature if q[1] == 'I' else sigtools.signature
            K, k = self.K, self.k
            if q[0] == 'm':
                return lambda: str(how(k.em))
            if q[0] == 'n':
                return lambda: str(how(k.sm))
            if q[0] == 'c':
                return lambda: str(how(K.em))
            obj = self.objs[q[0]]
            return lambda: str(how(obj))
        K, k = self.K, self.k
        how = inspect.signature if q[1] == 'I' else sigtools.signature
        if q[0] == 'w':
            return lambda: str(how(K.logged))
        if q[0] == 's':
            return lambda: str(how(K.tagged))
        return lambda: str(how(k.logged))

    def final_ok(self):
        """quiescence: nothing left in the shared guard set; the functools.wraps function has its attribute"""
        if self.family == 'K':
            return len(specifiers.as_forged.currently_computing) == 0
        if self.family == 'P':
            self.final_bad = self._final_P()
            return not self.final_bad
        return vars(self.fns['w']).get('__wrapped__') is self.impl


_I_SOLO = {}


def i_solo(family, q):
    """the retrieval alone, in the thread that runs the check (measured once per process)"""
    if (family, q) not in _I_SOLO:
        _I_SOLO[family, q] = _safe(IScenario(family).call(q))
    return _I_SOLO[family, q]


def in_worker_thread(fn):
    """fn alone, but in a thread started for it (not the thread that imported sigtools)"""
    box = []
    t = threading.Thread(target=lambda: box.append(_safe(fn)), daemon=True)
    t.start()
    t.join(60)
    return box[0] if box else ('EXC', 'no answer after 60 s')


def _worker_I(job):
    family, specs, plans = job
    sys.setswitchinterval(0.005)
    out = []
    for p in plans:
        sc = IScenario(family)
        r = Run([sc.call(q) for q in specs], sc.tracked, sc.pred, sc.extra)
        status = r.run_plan(list(p))
        ok = sc.final_ok()
        again = [_safe(sc.call(q)) for q in specs]
        out.append({'status': status, 'results': list(r.result), 'traces': [list(t) for t in r.trace],
                    'final_ok': ok, 'again': again, 'final_bad': getattr(sc, 'final_bad', None)})
        if not ok:
            specifiers.as_forged.currently_computing.clear()
    return out


def run_batches_I(sets, workers):
    """sets: [(family, specs, plans)] -> one list of observations per set (one pool for all of them)"""
    jobs, owner = [], []
    for si, (family, specs, plans) in enumerate(sets):
        for i in range(0, len(plans), 25):
            jobs.append((family, specs, plans[i:i + 25]))
            owner.append(si)
    if workers <= 1 or len(jobs) <= 1:
        res = [_worker_I(j) for j in jobs]
    else:
        import multiprocessing
        ctxmp = multiprocessing.get_context('fork')
        with concurrent.futures.ProcessPoolExecutor(max_workers=workers, mp_context=ctxmp) as ex:
            res = list(ex.map(_worker_I, jobs))
    out = [[] for _ in sets]
    for si, part in zip(owner, res):
        out[si].extend(part)
    return out


def quiescence_text(family, bad=None):
    if family == 'K':
        return 'as_forged.currently_computing is not empty'
    if family == 'P':
        return '; '.join(bad or ['a shared modifiers object lost an attribute'])
    return 'wrapped_retry has lost its __wrapped__'


def judge_I(family, specs, plan, o):
    out = []
    names = I_QUERY_NAMES[family]
    for tid, (q, res) in enumerate(zip(specs, o['results'])):
        if res != i_solo(family, q):
            out.append((I_KEYS[family], '%s, threads %s, plan %s: thread %d %s returned %s, alone it returns %s'
                        % (I_LABEL[family], ' '.join(specs), list(plan), tid, names[q], res, i_solo(family, q))))
    if not o['final_ok']:
        out.append((I_KEYS[family] + '-quiescence',
                    'threads %s, plan %s: after the threads finished %s' % (
                        ' '.join(specs), list(plan), quiescence_text(family, o.get('final_bad')))))
    for q, a in zip(specs, o['again']):
        if a != i_solo(family, q):
            out.append((I_KEYS[family] + '-quiescence',
                        'threads %s, plan %s: after the threads finished %s returns %s instead of %s'
                        % (' '.join(specs), list(plan), names[q], a, i_solo(family, q))))
    return out


def one_preemption_plans(nthreads, K):
    return all_plans(nthreads, 1, K)


_INDEP_SRC = os.path.join(os.path.dirname(os.path.abspath(coqrun.__file__)), '..', 'coq', 'theories', 'Proofs',
                          'SchedIndep.v')


def indep_preamble():
    with open(_INDEP_SRC) as f:
        return f.read() + '\nOpen Scope N_scope.\n'


def solo_trace(family, q):
    """line trace of the retrieval under the scheduler with the one-thread plan (a worker thread, alone)"""
    o = _worker_I((family, [q], [[(0, None)]]))[0]
    return o


I_SETS = {
    # (specs, all one-preemption plans in the quick tier?)
    'K': [(['wI', 'wI'], True), (['sI', 'sI'], False), (['wI', 'wS'], False), (['wS', 'wS'], False),
          (['wI', 'sI'], False), (['sI', 'sS'], False), (['iI', 'wI'], False), (['iI', 'iI'], False)],
    'R': [(['r', 'r'], False), (['p', 'q'], False), (['p', 'p'], False), (['q', 'r'], False),
          (['w', 'r'], False), (['m', 'x'], False), (['x', 'x'], False)],
    # family P: both threads on the SAME object; every one-preemption plan in every tier
    'P': [(['eS', 'eI'], True), (['eS', 'eS'], True), (['mI', 'mI'], True),
          (['sS', 'sI'], True), (['sS', 'sS'], True),
          (['aS', 'aI'], True), (['aS', 'aS'], True), (['oS', 'oI'], True), (['oS', 'oS'], True),
          (['fS', 'fI'], True), (['fS', 'fS'], True), (['gS', 'gI'], True), (['gS', 'gS'], True),
          (['mS', 'mI'], True), (['mS', 'mS'], True), (['nS', 'nI'], True), (['nS', 'nS'], True),
          (['cS', 'cI'], True), (['cS', 'cS'], True)],
}
I_TRIOS = {'K': [['wI', 'wI', 'sI'], ['wI', 'iI', 'wS']], 'R': [['r', 'p', 'q'], ['r', 'r', 'w']],
           'P': [['aS', 'aI', 'aS'], ['gS', 'gS', 'gI'], ['nS', 'nI', 'nS'], ['fS', 'fI', 'fI']]}
# trios of which every one-preemption plan is run in every tier (plus the random two-preemption plans)
I_TRIOS_FULL = {'K': [], 'R': [], 'P': [['eS', 'eI', 'eS'], ['mS', 'mI', 'mS'], ['sS', 'sI', 'sS']]}


def explore_I(ctx, rep, workers):
    rng = ctx.rng('plansI')
    cov = rep.coverage.setdefault('I', {})
    coq_jobs, family_results = [], {}
    for family in I_FAMILIES:
        broken = set()
        progs = {}
        for q in sorted(I_SPEC[family]):
            want = I_SPEC[family][q]
            rp = {'machine': 'I', 'family': family, 'specs': [q], 'plan': [[0, None]]}
            if i_solo(family, q) != want:
                rep.violation('C17:solo-answer', '%s alone returns %s, expected %s'
                              % (I_QUERY_NAMES[family][q], i_solo(family, q), want), rp)
                broken.add(q)
                continue
            # alone, but in a thread that did not import sigtools
            rep.evaluations += 1
            got = in_worker_thread(IScenario(family).call(q))
            if got != want:
                rep.violation(I_KEYS[family], '%s run ALONE in a worker thread (not the thread that imported sigtools) '
                              'returned %s, in the importing thread it returns %s'
                              % (I_QUERY_NAMES[family][q], got, want), rp)
                broken.add(q)
                continue
            o = solo_trace(family, q)
            rep.evaluations += 1
            v = judge_I(family, [q], [(0, None)], o)
            for key, what in v:
                rep.violation(key, what, rp)
            if v or o['status'] != 'ok':
                broken.add(q)
                continue
            progs[q] = o['traces'][0]
        sets = []
        for specs, full in I_SETS[family]:
            if any(q in broken for q in specs):
                continue
            K = max(len(progs[q]) for q in specs) + 1
            one = one_preemption_plans(2, K)
            if not (full or not ctx.quick):
                one = one[:2] + [p for p in one[2:] if rng.random() < 0.15]
            ps = set(one)
            # (family P has 19 pairs with every one-preemption plan in every tier: the random plans on top stay at the quick tier's number, or the thorough run takes over 40 minutes)
            n2 = (30 if (ctx.quick or family == 'P') else 800) + len(ps)
            while len(ps) < n2:
                ps.add(random_plan(rng, 2, 2, K))
            sets.append((specs, sorted(ps, key=str), K, full or not ctx.quick))
        for trio in I_TRIOS[family]:
            if any(q in broken for q in trio):
                continue
            K = max(len(progs[q]) for q in trio) + 1
            ps = set()
            while len(ps) < (60 if (ctx.quick or family == 'P') else 800):
                ps.add(random_plan(rng, 3, 2, K))
            sets.append((trio, sorted(ps, key=str), K, False))
        for trio in I_TRIOS_FULL[family]:
            if any(q in broken for q in trio):
                continue
            K = max(len(progs[q]) for q in trio) + 1
            ps = set(one_preemption_plans(3, K))
            n2 = (40 if (ctx.quick or family == 'P') else 800) + len(ps)
            while len(ps) < n2:
                ps.add(random_plan(rng, 3, 2, K))
            sets.append((trio, sorted(ps, key=str), K, True))
        results = []
        all_obs = run_batches_I([(family, specs, plans) for specs, plans, K, full in sets], workers)
        # the model's side: one Coq file per family (traces interned once), one term per set
        intern = {}

        def tr_name(tr):
            key = tuple(tr)
            if key not in intern:
                intern[key] = 'tr%d' % len(intern)
            return intern[key]
        sdefs, terms = [], []
        for (specs, plans, K, full), obs in zip(sets, all_obs):
            k = len(results)
            results.append((specs, plans, obs, K, full))
            body = ';\n'.join(
                '(%s, %s)' % (coq_plan(p), 'None' if o['status'] != 'ok' else '(Some [%s])' % '; '.join(
                    '(%d, %s)' % (1 if r == i_solo(family, q) else 99, tr_name(t))
                    for q, r, t in zip(specs, o['results'], o['traces'])))
                for p, o in zip(plans, obs))
            sdefs.append('Definition progs%d : list (list N) := [%s].\n' % (k, '; '.join(tr_name(progs[q]) for q in specs))
                         + 'Definition cases%d : list (plan * option (list (N * list N))) := [\n%s].\n' % (k, body))
            terms.append('disagreeing (fun x => icase_agrees progs%d (fst x) (snd x)) cases%d 0' % (k, k))
        defs = ''.join('Definition %s : list N := [%s].\n' % (nm, '; '.join(str(c) for c in key))
                       for key, nm in intern.items())
        disagree = dict((i, set()) for i in range(len(results)))
        coq_jobs.append((family, indep_preamble() + defs + ''.join(sdefs), terms, disagree))
        family_results[family] = (results, disagree, broken, progs)
    # both families' Coq files in parallel
    def coq_one(job):
        family, pre, terms, disagree = job
        if not terms:
            return None
        try:
            for ri, a in enumerate(coqrun.coq_eval(pre, terms, timeout=600)):
                disagree[ri].update(coqrun.parse_nat_list(a))
        except coqrun.CoqError as e:
            return str(e)[-600:]
        return None
    with concurrent.futures.ThreadPoolExecutor(max_workers=len(I_FAMILIES)) as ex:
        for err in ex.map(coq_one, coq_jobs):
            if err:
                rep.corr_break('C17 machine I: the model could not be evaluated', 'Proofs/SchedIndep.v', err, '')
    for family in I_FAMILIES:
        results, disagree, broken, progs = family_results[family]
        for ri, (specs, plans, obs, K, full) in enumerate(results):
            stats = {'plans': len(plans), 'valid': 0, 'nonsequential': 0, 'preemption_positions': K,
                     'all_one_preemption_plans': full, 'model_disagreements': len(disagree[ri])}
            for i, (p, o) in enumerate(zip(plans, obs)):
                rep.evaluations += 1
                if o['status'] == 'ok':
                    stats['valid'] += 1
                    rep.distinct.add(('I', family, tuple(specs), tuple(o['results']),
                                      tuple(len(t) for t in o['traces'])))
                v = judge_I(family, specs, p, o)
                if v:
                    stats['nonsequential'] += 1
                rp = {'machine': 'I', 'family': family, 'specs': specs, 'plan': [list(x) for x in p]}
                for key, what in v:
                    rep.violation(key, what, rp)
                if i in disagree[ri]:
                    rep.corr_break('C17 machine I (independent threads): plan outcome (validity, answers, line traces)', rp,
                                   'every thread emits the trace of its retrieval alone: see Proofs/SchedIndep.v irun_plan',
                                   {'status': o['status'], 'results': o['results'],
                                    'trace lengths': [len(t) for t in o['traces']],
                                    'solo trace lengths': [len(progs[q]) for q in specs]})
            cov['%s/%s' % (family, '-'.join(specs))] = stats
        cov['%s/alone-in-a-worker-thread' % family] = {'queries': len(I_SPEC[family]), 'wrong': len(broken)}
    scP = IScenario('P')
    cov['P/objects'] = dict((o, {'what': P_OBJECTS[o], 'readable_source': scP.readable[o],
                                 'solo_trace_length': dict((h, len(family_results['P'][3].get(o + h, [])))
                                                           for h in 'IS')})
                            for o in sorted(P_OBJECTS))
    cov['P/traced_functions'] = sorted(getattr(c, 'co_name', '?') for c in
                                       list(modelled_codes().values()) + list(extra_codes_P().values()))


def stress_I(ctx, rep, seconds):
    """free-running threads (none of them the importing thread) on fresh objects of both families"""
    rng = ctx.rng('stressI')
    old = sys.getswitchinterval()
    stats = {}
    try:
        sys.setswitchinterval(1e-6)
        for family in I_FAMILIES:
            rounds = wrong = 0
            t_end = time.time() + seconds / float(len(I_FAMILIES))
            pool = sorted(q for q in I_SPEC[family] if q not in I_WINDOWED[family])
            while time.time() < t_end:
                rounds += 1
                sc = IScenario(family)
                if rng.random() < 0.5:
                    specs = [rng.choice(pool)] * 3            # all three on the same attribute / function
                else:
                    specs = [rng.choice(pool) for _ in range(3)]
                if family == 'R' and rng.random() < 0.3:
                    specs[0] = rng.choice(sorted(I_WINDOWED[family]))   # one thread on the functools.wraps pair
                if family == 'P':
                    # all three on the same object; at least one sigtools.signature among them
                    o = rng.choice(sorted(P_OBJECTS))
                    specs = [o + 'S'] + [o + rng.choice('IS') for _ in range(2)]
                    rng.shuffle(specs)
                barrier = threading.Barrier(3)
                res = [[] for _ in specs]
                iters = rng.randint(3, 8)

                def body(i):
                    fn = sc.call(specs[i])
                    try:
                        barrier.wait(10)
                    except threading.BrokenBarrierError:
                        return
                    for _ in range(iters):
                        res[i].append(_safe(fn))
                ths = [threading.Thread(target=body, args=(i,), daemon=True) for i in range(3)]
                for t in ths:
                    t.start()
                for t in ths:
                    t.join(60)
                seen = set()
                for q, rs in zip(specs, res):
                    for r in rs:
                        if r != i_solo(family, q):
                            wrong += 1
                            if (q, r) not in seen:
                                seen.add((q, r))
                                rep.violation(I_KEYS[family], 'stress, threads %s: %s returned %s, alone %s'
                                              % (' '.join(specs), I_QUERY_NAMES[family][q], r, i_solo(family, q)),
                                              {'machine': 'stressI', 'family': family})
                if not sc.final_ok():
                    wrong += 1
                    rep.violation(I_KEYS[family] + '-quiescence', 'stress, threads %s: at quiescence %s' % (
                        ' '.join(specs), quiescence_text(family, getattr(sc, 'final_bad', None))),
                        {'machine': 'stressI', 'family': family})
                    specifiers.as_forged.currently_computing.clear()
                if wrong > 20:
                    break
            stats[family] = {'rounds': rounds, 'wrong_answers': wrong}
    finally:
        sys.setswitchinterval(old)
    rep.coverage['stressI'] = stats


# ----------------------------------------------------------------------------
# randomized stress (true preemption, minimal switch interval)
# ----------------------------------------------------------------------------
def stress(ctx, rep, seconds):
    """Free-running threads; no tracing.  Every answer must be the solo answer; the
    attributes must be back at quiescence.  A wrong answer that is another plain
    view of the same function is the listed window race (the deterministic part
    gives the replayable schedule); anything else is reported under its own key."""
    rng = ctx.rng('stress')
    old = sys.getswitchinterval()
    stats = {}
    try:
        sys.setswitchinterval(1e-6)
        for name in ('wraps', 'wraps+sig'):
            sc = make_scenario(name)
            views = set(sc.strings[n] for n in (1, 2, 3) if n in sc.strings)
            nthreads = 3
            kinds = [KSIG, KSIG, KPLAIN]
            wrong = []
            rounds = 0
            start = threading.Barrier(nthreads)

            def body(k, out, iters):
                fn = sc.call(k)
                try:
                    start.wait(10)
                except threading.BrokenBarrierError:
                    return
                for _ in range(iters):
                    try:
                        r = fn()
                    except BaseException as e:  # noqa: BLE001
                        r = ('EXC', type(e).__name__)
                    if r != sc.solo[k]:
                        out.append((k, r))
            t_end = time.time() + seconds / 2.0
            lost = None
            while time.time() < t_end:
                rounds += 1
                outs = [[] for _ in kinds]
                ths = [threading.Thread(target=body, args=(k, outs[i], rng.randint(20, 60)), daemon=True)
                       for i, k in enumerate(kinds)]
                for t in ths:
                    t.start()
                for t in ths:
                    t.join(30)
                start.reset()
                for o in outs:
                    wrong.extend(o)
                if not sc.intact():
                    lost = sc.final()
                    break
            stats[name] = {'rounds': rounds, 'wrong_answers': len(wrong)}
            if lost is not None:
                rep.violation('C17:lost-attribute',
                              'stress %s: at quiescence the function has (__wrapped__, __signature__) = %s, initially %s'
                              % (name, lost, sc.init), {'machine': 'stress', 'scenario': name})
            for k, r in wrong:
                torn = (r == ('EXC', 'AttributeError'))   # inspect.unwrap: hasattr(__wrapped__) then getattr, deleted in between
                if (isinstance(r, str) and r in views) or torn:
                    rep.violation(KNOWN_KEY, 'stress %s: %s returned %s, alone %s (plain view of the same function, or AttributeError from a read torn by the delete)'
                                  % (name, k, r, sc.solo[k]), witness_replay())
                else:
                    rep.violation('C17:nonsequential', 'stress %s: %s returned %s, alone %s' % (name, k, r, sc.solo[k]),
                                  {'machine': 'stress', 'scenario': name})
    finally:
        sys.setswitchinterval(old)
    rep.coverage['stress'] = stats


# ----------------------------------------------------------------------------
# entry points
# ----------------------------------------------------------------------------
WITNESS = {'machine': 'W', 'scenario': 'wraps', 'kinds': [KSIG, KSIG],
           'plan': [[0, 25], [1, 26], [0, None], [1, None]]}


GUARD_WITNESS = {'machine': 'G', 'n': 2, 'plan': [[0, 5], [1, None], [0, None]]}


def witness_replay():
    return dict(WITNESS)


def run(ctx, rep):
    workers = max(1, min(12, (os.cpu_count() or 2) - 2))
    rep.rule = ('distinct = (scenario, thread kinds, per-thread answers, windows overlap?, per-thread line traces) '
                'observed on the implementation under the deterministic scheduler')
    rep.exhaustive = True
    explore_W(ctx, rep, workers)
    explore_G(ctx, rep, workers)
    explore_C(ctx, rep, workers)
    explore_F(ctx, rep, workers)
    explore_E(ctx, rep, workers)
    explore_I(ctx, rep, workers)
    stress(ctx, rep, 4.0 if ctx.quick else 30.0)
    stress_F(ctx, rep, 2.0 if ctx.quick else 15.0)
    stress_E(ctx, rep, 2.0 if ctx.quick else 15.0)
    stress_I(ctx, rep, 4.5 if ctx.quick else 30.0)
    rep.traces = rep.evaluations
    rep.assumptions.extend([
        'threads are preempted only at line events of the modelled sigtools functions '
        '(forged_signature, autoforwards_function, cleanup_functools_wrapper.__init__/__enter__/__exit__, '
        '_AsForged.__get__, OverrideableDataDesc.__get__, _ForgerWrapper.__get__ and the _transform it calls) '
        'whose frame works on the shared object (family P of machine I only: also autoforwards, autoforwards_hint and '
        '_PokTranslator._sigtools__autoforwards_hint); '
        'preemption inside C code or inside inspect/ast, and the real granularity of the GIL, are not exhibited by the '
        'model (only by the randomized stress part)',
        'inspect.signature reads __wrapped__/__signature__ as one atomic step (validated: no modelled line lies inside it)',
        'machine I: a thread\'s program is the line trace of its retrieval run alone under the scheduler (measured '
        'before the concurrent runs, like machine W\'s cfg/init); Proofs/SchedIndep.v is not listed in _CoqProject, '
        'its text is compiled as the preamble of the check\'s Coq evaluations',
    ])


def _replay_W(data):
    sc = make_scenario(data['scenario'])
    kinds = list(data['kinds'])
    plan = [(t, n) for t, n in data['plan']]
    o = run_one(sc, kinds, plan)
    return sc, kinds, plan, o


def replay(ctx, data):
    d = data.get('replay') or {}
    if d.get('machine') == 'W':
        sc, kinds, plan, o = _replay_W(d)
        v = judge(sc, kinds, plan, o, False)
        if v:
            return '; '.join(w for _, w in v)
        return None
    if d.get('machine') in ('G', 'C'):
        kinds = d.get('kinds') or ['G'] * d.get('n', 2)
        plan = [(t, n) for t, n in d['plan']]
        o = _worker_GC((d['machine'], kinds, [plan]))[0]
        if d['machine'] == 'G':
            v = judge_G(GScenario(), len(kinds), plan, o, False)
            return '; '.join(w for _, w in v) if v else None
        sc = CScenario()
        bad = ['thread %d returned %s, alone %s' % (i, r, sc.solo[k])
               for i, (k, r) in enumerate(zip(kinds, o['results'])) if r != sc.solo[k]]
        if not o['final_ok']:
            bad.append('the method lost its signature / behaviour')
        return '; '.join(bad) if bad else None
    if d.get('machine') == 'E':
        specs = list(d['specs'])
        plan = [(t, n) for t, n in d['plan']]
        o = _worker_E((specs, [plan]))[0]
        v = judge_E(specs, plan, o)
        return '; '.join(w for _, w in v) if v else None
    if d.get('machine') == 'I':
        family, specs = d['family'], list(d['specs'])
        plan = [(t, n) for t, n in d['plan']]
        if len(specs) == 1:
            got = in_worker_thread(IScenario(family).call(specs[0]))
            if got != i_solo(family, specs[0]) or got != I_SPEC[family][specs[0]]:
                return ('%s run alone in a worker thread returned %s; in the importing thread %s, written down %s'
                        % (I_QUERY_NAMES[family][specs[0]], got, i_solo(family, specs[0]), I_SPEC[family][specs[0]]))
        o = _worker_I((family, specs, [plan]))[0]
        v = judge_I(family, specs, plan, o)
        return '; '.join(w for _, w in v) if v else None
    if d.get('machine') == 'stressI':
        class RI(object):
            def __init__(self):
                self.v = []
                self.coverage = {}

            def violation(self, key, what, rp):
                self.v.append(what)
        rI = RI()
        stress_I(ctx, rI, 10.0)
        return '; '.join(rI.v[:3]) if rI.v else None
    if d.get('machine') == 'stressE':
        class RE(object):
            def __init__(self):
                self.v = []
                self.coverage = {}

            def violation(self, key, what, rp):
                self.v.append(what)
        rE = RE()
        stress_E(ctx, rE, 8.0)
        return '; '.join(rE.v[:3]) if rE.v else None
    if d.get('machine') == 'F':
        kinds = list(d['kinds'])
        plan = [(t, n) for t, n in d['plan']]
        o = _worker_F((kinds, [plan]))[0]
        v = judge_F(kinds, plan, o)
        return '; '.join(w for _, w in v) if v else None
    if d.get('machine') == 'stressF':
        class RF(object):
            def __init__(self):
                self.v = []
                self.coverage = {}

            def violation(self, key, what, rp):
                self.v.append(what)
        rf = RF()
        stress_F(ctx, rf, 8.0)
        return '; '.join(rf.v[:3]) if rf.v else None
    if d.get('machine') == 'stress':
        class R(object):
            def __init__(self):
                self.v = []
                self.coverage = {}

            def violation(self, key, what, rp):
                self.v.append(what)
        r = R()
        stress(ctx, r, 6.0)
        return '; '.join(r.v[:3]) if r.v else None
    return None


def replay_known(ctx, k):
    if k.get('key') == KNOWN_KEY:
        w = k.get('witness') or WITNESS
        # the listed plan first; its step counts move when lines are added to the modelled
        # functions, so then the same shape (A preempted after k steps, B after k-1) nearby
        cands = [w] + [dict(w, plan=[[0, kk], [1, kk - 1], [0, None], [1, None]]) for kk in range(15, 45)]
        for cand in cands:
            sc, kinds, plan, o = _replay_W(cand)
            if o['status'] != 'ok':
                continue
            views = set(sc.strings[n] for n in (1, 2, 3) if n in sc.strings)
            if any(r != sc.solo[kd] and r in views for kd, r in zip(kinds, o['results'])):
                return True
        return False
    if k.get('key') == GUARD_KEY:
        w = k.get('witness') or GUARD_WITNESS
        plan = [(t, n) for t, n in w['plan']]
        o = _worker_GC(('G', ['G'] * w.get('n', 2), [plan]))[0]
        sc = GScenario()
        return o['status'] == 'ok' and any(r == sc.rawcall for r in o['results'])
    return True
