"""C07 — retrieval is total and only ever narrows the callable's own signature."""
import functools
import importlib
import inspect
import sys
import types
import warnings

import sigtools
from sigtools import signatures as PS, _signatures as S, _util, _autoforwards as AF

import core
from core import describe_sig, tok_sig, parse_cex, show_sig, show_call
from algebra import ask
import discovery as D
import programs as PG

LEVEL = 'proof'

STDLIB = '''abc argparse ast asyncio.base_events asyncio.events asyncio.futures asyncio.locks asyncio.queues asyncio.streams
asyncio.tasks base64 bdb bisect calendar cmd code codecs collections collections.abc colorsys compileall concurrent.futures._base
concurrent.futures.thread configparser contextlib copy csv dataclasses datetime decimal difflib dis doctest email.message
email.parser email.utils enum filecmp fileinput fnmatch fractions ftplib functools getopt gettext glob gzip hashlib heapq hmac
html.parser http.client http.cookies http.server imaplib inspect io ipaddress itertools json json.decoder json.encoder keyword
linecache locale logging logging.config logging.handlers lzma mailbox mimetypes modulefinder netrc numbers operator optparse os
pathlib pdb pickle pickletools pkgutil platform plistlib poplib pprint profile pstats queue quopri random re reprlib runpy sched
secrets selectors shelve shlex shutil signal smtplib socket socketserver sqlite3 ssl stat statistics string struct subprocess
sysconfig tabnanny tarfile tempfile textwrap threading timeit token tokenize trace traceback types typing unittest.case
unittest.loader unittest.mock unittest.result unittest.runner unittest.suite urllib.parse urllib.request uuid warnings wave
weakref xml.dom.minidom xml.etree.ElementTree xml.sax.handler zipfile zipimport'''.split()
THIRD = '''attr attr._make attr.validators pluggy pluggy._hooks pluggy._manager packaging.version packaging.specifiers iniconfig
jinja2.environment jinja2.runtime markupsafe docutils.nodes docutils.utils pygments.lexer pygments.formatter sortedcontainers
requests.sessions requests.models mock.mock sigtools.signatures sigtools.specifiers sigtools.modifiers sigtools.wrappers
sigtools.support sigtools._autoforwards sigtools._signatures sigtools._util sigtools.tests.test_autoforwards
sigtools.tests.test_specifiers sigtools.tests.sphinxextfixt'''.split()


def collect(quick):
    """objects of the corpus: (qualified name, object)"""
    out = []
    seen = set()

    def add(name, o):
        if id(o) in seen:
            return
        seen.add(id(o))
        out.append((name, o))
    with warnings.catch_warnings():
        warnings.simplefilter('ignore')
        for m in STDLIB + THIRD:
            try:
                mod = importlib.import_module(m)
            except Exception:  # noqa: BLE001
                continue
            for name, obj in sorted(vars(mod).items()):
                if name.startswith('__'):
                    continue
                q = '%s.%s' % (m, name)
                if isinstance(obj, (types.FunctionType, types.BuiltinFunctionType, functools.partial)):
                    add(q, obj)
                elif isinstance(obj, type):
                    if getattr(obj, '__module__', None) != mod.__name__:
                        continue
                    add(q, obj)
                    inst = None
                    for n2, o2 in sorted(vars(obj).items()):
                        if n2.startswith('__') and n2 not in ('__init__', '__call__', '__new__'):
                            continue
                        try:
                            attr = getattr(obj, n2)
                        except Exception:  # noqa: BLE001
                            continue
                        if callable(attr):
                            add('%s.%s' % (q, n2), attr)
                elif callable(obj) and not isinstance(obj, type):
                    add(q, obj)
    if quick:
        # a fixed slice: every second object (the whole corpus takes ~10 s)
        out = out[::2]
    return out


def outcome(f, *a, **k):
    try:
        with warnings.catch_warnings():
            warnings.simplefilter('ignore')
            return ('ok', f(*a, **k))
    except RecursionError:
        return ('err', 'RecursionError')
    except Exception as e:  # noqa: BLE001
        return ('err', type(e).__name__)


def is_plain(obj):
    """plain function or method: no declared forger, __signature__ or __wrapped__"""
    f = obj.__func__ if isinstance(obj, types.MethodType) else obj
    if not isinstance(f, types.FunctionType):
        return False
    for a in ('_sigtools__forger', '__signature__', '__wrapped__', '_sigtools__autoforwards_hint'):
        if hasattr(f, a):
            return False
    return True


def is_plain_callable_object(obj):
    """class or callable instance without a declared forger / __signature__ / __wrapped__:
    its own parameter list is what inspect.signature reports for it"""
    if isinstance(obj, (types.FunctionType, types.MethodType, types.BuiltinFunctionType, functools.partial)):
        return False
    if not (isinstance(obj, type) or hasattr(type(obj), '__call__')):
        return False
    for a in ('_sigtools__forger', '__signature__', '__wrapped__', '_sigtools__autoforwards_hint', '_sigtools__wrappers'):
        try:
            if hasattr(obj, a):
                return False
        except Exception:  # noqa: BLE001
            return False
    return True


ADVERSARIAL = r'''
import functools, contextlib, asyncio, inspect
import sigtools.specifiers
def callee(x, y=1, *, z=2): return None
def other(*a, **k): return None
async def a_async(*args, **kwargs):
    return callee(*args, **kwargs)
async def a_async_await(*args, **kwargs):
    await asyncio.sleep(0)
    async with contextlib.AsyncExitStack() as st:
        return callee(*args, **kwargs)
def a_gen(*args, **kwargs):
    yield callee(*args, **kwargs)
def a_genfrom(*args, **kwargs):
    yield from [callee(*args, **kwargs)]
def a_walrus(*args, **kwargs):
    if (r := callee(*args, **kwargs)) is None:
        return r
def a_walrus_rebind(*args, **kwargs):
    if (kwargs := dict(kwargs)):
        pass
    return callee(*args, **kwargs)
def a_match(cmd, *args, **kwargs):
    match cmd:
        case [x, *rest]:
            return callee(*args, **kwargs)
        case {"k": v, **kw}:
            return callee(*args, **kw)
        case _:
            return other(*args, **kwargs)
def a_match_capture(cmd, *args, **kwargs):
    match cmd:
        case {"k": v, **kwargs}:
            pass
    return callee(*args, **kwargs)
def a_comp(*args, **kwargs):
    return [callee(*args, **kwargs) for _ in range(2)], {k: callee(*args, **kwargs) for k in 'ab'}, (callee(*args) for a in ())
def a_comp_shadow(*args, **kwargs):
    return [callee(*args) for args in [(1,)]]
def a_starred(*args, **kwargs):
    return callee(*args, *args, **kwargs, **kwargs)
def a_starred_expr(*args, **kwargs):
    first, *rest = args or (None,)
    return callee(*rest, **{**kwargs})
_g = None
def a_global(*args, **kwargs):
    global _g
    _g = callee(*args, **kwargs)
    return _g
def a_nonlocal(*args, **kwargs):
    def inner():
        nonlocal kwargs
        kwargs = {}
    inner()
    return callee(*args, **kwargs)
def a_nonlocal_outside():
    v = 1
    def f(*args, **kwargs):
        nonlocal v
        v = 2
        return callee(*args, **kwargs)
    return f
a_nonlocal_outside = a_nonlocal_outside()
def a_classbody(*args, **kwargs):
    class C:
        r = callee(*args, **kwargs)
        def m(self, *args, **kwargs):
            return callee(*args, **kwargs)
    return C
def a_decorated_inner(*args, **kwargs):
    @functools.lru_cache(maxsize=callee(*args, **kwargs))
    def inner(x=callee(*args, **kwargs)) -> callee(*args, **kwargs):
        return x
    return inner
def a_lambda_default(*args, **kwargs):
    return (lambda a=callee(*args, **kwargs): a)()
def a_lambda_in_call(*args, **kwargs):
    return other(lambda: callee(*args, **kwargs), key=lambda *args: callee(*args))
def a_try(*args, **kwargs):
    try:
        return callee(*args, **kwargs)
    except TypeError as kwargs:
        return other(kwargs)
    finally:
        other()
def a_with_as(*args, **kwargs):
    with contextlib.nullcontext({}) as kwargs:
        return callee(*args, **kwargs)
def a_for(*args, **kwargs):
    for kwargs in [{}]:
        pass
    else:
        return callee(*args, **kwargs)
def a_while(*args, **kwargs):
    while args:
        args = args[1:]
    return callee(*args, **kwargs)
def a_import(*args, **kwargs):
    import json as kwargs
    return callee(*args)
def a_del(*args, **kwargs):
    del kwargs
    return callee(*args)
def a_attr_call(self, *args, **kwargs):
    return self.x.y.z(*args, **kwargs)
def a_subscript_call(*args, **kwargs):
    return {0: callee}[0](*args, **kwargs)
def a_call_call(*args, **kwargs):
    return functools.partial(callee)(*args, **kwargs)
def a_nested_calls(*args, **kwargs):
    return other(other(callee(*args, **kwargs), *args), **kwargs)
def a_fstring(*args, **kwargs):
    return f"{callee(*args, **kwargs)!r:>{len(args)}}"
def a_ternary(*args, **kwargs):
    return callee(*args, **kwargs) if args else other(*args, **kwargs)
def a_kwonly_only(*, k=1, **kwargs):
    return callee(0, **kwargs)
def a_posonly(a, /, *args, **kwargs):
    return a(*args, **kwargs)
def a_annot(a: "int", *args: "str", **kwargs: "bytes") -> "None":
    return callee(*args, **kwargs)
def a_ret_tuple(a, *args, **kwargs) -> (int, str):
    return callee(*args, **kwargs)
def a_ret_tuple_plain(a) -> (int, str, None):
    return a
def a_ret_percent(a) -> "100%s":
    return a
def a_ret_dict(a: {'k': 1}, *args, **kwargs) -> {'a': (1, 2)}:
    return callee(*args, **kwargs)
def a_deep(*args, **kwargs):
    def l1():
        def l2():
            def l3():
                return callee(*args, **kwargs)
            return l3()
        return l2()
    return l1()
def a_empty_nested(*args, **kwargs):
    def l1():
        return (lambda: callee(*args, **kwargs))()
    return l1()
def a_partial_in(*args, **kwargs):
    return functools.partial(callee, *args, **kwargs)
def a_partial_star(*args, **kwargs):
    return functools.partial(*args, **kwargs)
def a_two_incompatible(a, *args, **kwargs):
    if a:
        return callee(*args, **kwargs)
    return a_kwonly_only(*args, **kwargs)
def a_recursive(*args, **kwargs):
    return a_recursive(*args, **kwargs)
def a_mutual1(*args, **kwargs):
    return a_mutual2(*args, **kwargs)
def a_mutual2(*args, **kwargs):
    return a_mutual1(*args, **kwargs)
a_lambda = lambda *a, **k: callee(*a, **k)
a_lambda_multi = (lambda *a, **k:
                  callee(*a, **k))
class A_Callable:
    def __call__(self, *args, **kwargs):
        return callee(*args, **kwargs)
a_callable = A_Callable()
class A_InitCall:
    def __init__(self, q):
        self.q = q
    def __call__(self, *args, **kwargs):
        return callee(*args, **kwargs)
a_initcall = A_InitCall(1)
class A_MetaCall(type):
    def __call__(cls, *args, **kwargs):
        return callee(*args, **kwargs)
class A_WithMeta(metaclass=A_MetaCall):
    def __call__(self, a, *args, **kwargs):
        return callee(*args, **kwargs)
class A_Init:
    def __init__(self, *args, **kwargs):
        callee(*args, **kwargs)
class A_Meth:
    def m(self, *args, **kwargs):
        return self.n(*args, **kwargs)
    def n(self, p, q=1):
        return None
    @classmethod
    def c(cls, *args, **kwargs):
        return cls.s(*args, **kwargs)
    @staticmethod
    def s(u, v=2):
        return None
    @property
    def prop(self):
        return None
    def noself(*args, **kwargs):
        return a_kwonly_only(*args, **kwargs)
    opts = None
    def starattr(self, *args, **kwargs):
        return callee(*args, **self.opts)
    def starattr_args(self, *args, **kwargs):
        return callee(*self.opts, **kwargs)
a_meth = A_Meth()
a_noself = a_meth.noself
a_starattr = a_meth.starattr
a_starattr_args = a_meth.starattr_args
class A_Unhashable:
    __hash__ = None
    def __call__(self, *args, **kwargs):
        return callee(*args, **kwargs)
a_unhashable = A_Unhashable()
a_bound = a_meth.m
a_cls = A_Meth.c
# an ordinary function that forwards TO an unhashable callable (global, closure cell, attribute)
def a_fwd_unhashable(*args, **kwargs):
    return a_unhashable(*args, **kwargs)
def a_make_fwd_unhashable(target):
    def a_inner_fwd(*args, **kwargs):
        return target(*args, **kwargs)
    return a_inner_fwd
a_fwd_unhashable_closure = a_make_fwd_unhashable(A_Unhashable())
class A_HoldsUnhashable:
    def __init__(self):
        self.handler = A_Unhashable()
    def run(self, *args, **kwargs):
        return self.handler(*args, **kwargs)
a_fwd_unhashable_attr = A_HoldsUnhashable().run
# members of every kind, as autodoc documents them through their dotted name
class A_Kinds:
    def __init__(self):
        self.handler = callee
    def plain(self, a, b=1):
        return None
    @staticmethod
    def static(p, q=2):
        return None
    @classmethod
    def clsm(cls, r, *more):
        return None
    def inner(self, a, b=1):
        return None
    @sigtools.specifiers.forwards_to_method('inner')
    def declared(self, x, *args, **kwargs):
        return self.inner(*args, **kwargs)
    @sigtools.specifiers.forwards_to_method('handler')
    def declared_attr(self, x, *args, **kwargs):
        return self.handler(*args, **kwargs)
    def discovered(self, x, *args, **kwargs):
        return self.inner(*args, **kwargs)
    def discovered_attr(self, x, *args, **kwargs):
        return self.handler(*args, **kwargs)
# a partial object binding more positionals than the discovered callee takes (a valid object:
# inspect reports the wrapper's own stars), and star arguments read from globals of any type
def a_fwd_plain(*args, **kwargs):
    return callee(*args, **kwargs)
a_partial_overbound = functools.partial(a_fwd_plain, 1, 2, 3, 4)
a_partial_badkw = functools.partial(a_fwd_plain, nosuch=1)
OPTS_STR = "ab"
OPTS_INT = 5
OPTS_LIST = [1, 2]
def a_kwargs_from_str(*args, **kwargs):
    return callee(*args, **OPTS_STR)
def a_kwargs_from_int(*args, **kwargs):
    return callee(*args, **OPTS_INT)
def a_kwargs_from_list(*args, **kwargs):
    return callee(*args, **OPTS_LIST)
def a_args_from_int(*args, **kwargs):
    return callee(*OPTS_INT, **kwargs)
def a_args_from_str(*args, **kwargs):
    return callee(*OPTS_STR, **kwargs)
# inner functions and lambdas with every kind of parameter and default
def a_inner_kwonly_required(*args, **kwargs):
    def inner(x, *, key):
        return callee(x, y=key)
    return inner(*args, **kwargs)
def a_inner_kwonly_mixed(*args, **kwargs):
    def inner(x=1, /, y=other(), *rest, key, flag=other(1), **more):
        return callee(x, *rest, **more)
    return callee(*args, **kwargs)
def a_lambda_kwonly_required(*args, **kwargs):
    pick = lambda *, n: callee(n)
    return callee(*args, **kwargs) or pick(n=1)
def a_lambda_defaults(*args, **kwargs):
    pick = lambda a=other(), *r, k=other(2), **m: callee(a, *r, **m)
    return callee(*args, **kwargs)
async def a_async_inner_kwonly(*args, **kwargs):
    def inner(*, key):
        return key
    return callee(*args, **kwargs)
a_partial_obj = functools.partial(a_posonly, callee)
a_partial_kw = functools.partial(callee, y=5)
@functools.wraps(callee)
def a_wraps(*args, **kwargs):
    return callee(*args, **kwargs)
@functools.lru_cache()
def a_lru(*args, **kwargs):
    return callee(*args, **kwargs)
@contextlib.contextmanager
def a_ctx(*args, **kwargs):
    yield callee(*args, **kwargs)
class A_NoTruth:
    # the result of comparing it has no truth value (like a numpy array or a query expression)
    def __eq__(self, other):
        return A_NoTruth()
    def __ne__(self, other):
        return A_NoTruth()
    def __bool__(self):
        raise TypeError('the truth value of a comparison is ambiguous')
    __hash__ = object.__hash__
    def __repr__(self):
        return 'NoTruth'
class A_EqualsAll:
    def __eq__(self, other):
        return True
    def __ne__(self, other):
        return False
    __hash__ = object.__hash__
    def __repr__(self):
        return 'ANY'
def a_annot_notruth(value, factor: A_NoTruth() = 1, *, clamp=False) -> A_NoTruth():
    return None
def a_annot_equalsall(pattern: A_EqualsAll(), flags=0) -> A_EqualsAll():
    return None
def a_annot_notruth_fwd(value: A_NoTruth(), *args, **kwargs):
    return callee(*args, **kwargs)
class A_Model:
    # a descriptor CLASS reached as a member of another class (documented as Model.Column):
    # the class itself is the documented object, its __get__ is for its instances
    class Column:
        def __init__(self, column, *, nullable=False, default=None):
            self.column = column
        def __get__(self, instance, owner):
            return self.column
    class Field:
        def __init__(self, column, *, nullable=False):
            self.column = column
        def __get__(self, instance, owner=None):
            return instance.__dict__[self.column]
        def __set__(self, instance, value):
            instance.__dict__[self.column] = value
    field_class = Field
    col = Column('c')
# a keyword-only parameter of the forwarder whose NAME the callee also has (consumed by the
# forwarder, never passed on): required / optional on either side, reached through *args and
# **kwargs, **kwargs only, a bare star, a method, a callee parameter that is positional-or-keyword
def callee_pok(x, key=0, flag=False): return None
def callee_req(x, *, key): return None
def a_kwshared_req_opt(*args, z, **kwargs):
    return z, callee(*args, **kwargs)
def a_kwshared_opt_opt(*args, z=5, **kwargs):
    return z, callee(*args, **kwargs)
def a_kwshared_opt_req(*args, key=5, **kwargs):
    return key, callee_req(*args, **kwargs)
def a_kwshared_req_req(*args, key, **kwargs):
    return key, callee_req(*args, **kwargs)
def a_kwshared_kwargs_only(a, *, key, **kwargs):
    return a, key, callee_pok(**kwargs)
def a_kwshared_barestar(*, z, **kwargs):
    return z, callee(0, **kwargs)
def a_kwshared_pok_name(*args, y, **kwargs):
    return y, callee(*args, **kwargs)
def a_kwshared_two(*args, y, z, **kwargs):
    return y, z, callee(*args, **kwargs)
def a_kwshared_partly(a, *args, flag, other_flag=None, **kwargs):
    return flag, callee_pok(a, **kwargs)
def a_kwshared_annotated(*args, z: int, **kwargs) -> None:
    return z, callee(*args, **kwargs)
def a_kwshared_chain(*args, z, **kwargs):
    return z, a_fwd_plain(*args, **kwargs)
def a_kwshared_passed_on(*args, z, **kwargs):
    return callee(*args, z=z, **kwargs)
a_kwshared_lambda = lambda *a, z, **k: callee(*a, **k)
class A_KwShared:
    def m(self, *args, z, **kwargs):
        return z, callee(*args, **kwargs)
    def via_self(self, *args, q, **kwargs):
        return q, self.n(*args, **kwargs)
    def n(self, p, q=1):
        return None
    @classmethod
    def c(cls, *args, key, **kwargs):
        return key, callee_pok(*args, **kwargs)
    @staticmethod
    def s(*, key, **kwargs):
        return key, callee_pok(1, **kwargs)
    def __call__(self, *args, z, **kwargs):
        return z, callee(*args, **kwargs)
a_kwshared_bound = A_KwShared().m
a_kwshared_bound_self = A_KwShared().via_self
a_kwshared_instance = A_KwShared()
# objects on which __wrapped__ / __signature__ can be read but neither deleted nor assigned:
# raw static / class method objects as a class __dict__ holds them, instances without a
# per-instance __dict__ entry (slots, frozen dataclass) whose class carries the attribute
import dataclasses
a_raw_static = vars(A_Meth)['s']
a_raw_classm = vars(A_Meth)['c']
a_raw_static_fwd = staticmethod(a_fwd_plain)
a_raw_classm_fwd = classmethod(a_posonly)
a_raw_static_of_partial = staticmethod(a_partial_kw)
class A_SlottedSig:
    __slots__ = ()
    __signature__ = inspect.signature(callee)
    def __call__(self, *args, **kwargs):
        return callee(*args, **kwargs)
a_slotted_sig = A_SlottedSig()
class A_SlottedWrapped:
    __slots__ = ('q',)
    __wrapped__ = callee
    def __call__(self, *args, **kwargs):
        return callee(*args, **kwargs)
a_slotted_wrapped = A_SlottedWrapped()
class A_SlottedBoth:
    __slots__ = ()
    __wrapped__ = callee_pok
    __signature__ = inspect.signature(callee)
    def __call__(self, a, *args, **kwargs):
        return callee(*args, **kwargs)
a_slotted_both = A_SlottedBoth()
@dataclasses.dataclass(frozen=True)
class A_FrozenSig:
    factor: int = 1
    __signature__ = inspect.signature(callee)
    def __call__(self, *args, **kwargs):
        return callee(*args, **kwargs)
a_frozen_sig = A_FrozenSig()
@dataclasses.dataclass(frozen=True)
class A_FrozenWrapped:
    factor: int = 1
    __wrapped__ = callee
    def __call__(self, *args, **kwargs):
        return callee(*args, **kwargs)
a_frozen_wrapped = A_FrozenWrapped()
class A_ClassLevelSig:
    __signature__ = inspect.signature(callee)
    def __call__(self, *args, **kwargs):
        return callee(*args, **kwargs)
class A_InheritsSig(A_SlottedSig):
    __slots__ = ()
a_classlevel_sig = A_ClassLevelSig()
a_inherits_sig = A_InheritsSig()
class A_ReadOnlyProp:
    # __signature__ / __wrapped__ computed by a property without setter
    @property
    def __signature__(self):
        return inspect.signature(callee)
    @property
    def __wrapped__(self):
        return callee
    def __call__(self, *args, **kwargs):
        return callee(*args, **kwargs)
a_readonly_prop = A_ReadOnlyProp()
a_builtin_method_wrapper = callee.__call__
# bound methods whose function cannot take the instance: inspect.signature raises ValueError
class A_BadMethods:
    def m(**kwargs):
        return callee(**kwargs)
    def n():
        return None
    def k(*, self):
        return None
a_bad_m = A_BadMethods().m
a_bad_n = A_BadMethods().n
a_bad_k = A_BadMethods().k
a_bad_partial = functools.partial(A_BadMethods().n)
'''


ADVERSARIAL_FUTURE = r'''
from __future__ import annotations
import typing
if typing.TYPE_CHECKING:
    from decimal import Decimal
def callee(x: Decimal, y: int = 1) -> Decimal: return None
def a_future_fwd(*args: Undefined, **kwargs) -> Decimal:
    return callee(*args, **kwargs)
def a_future_plain(a: Decimal, b: "list[int]" = None) -> None:
    return None
'''


def adversarial_objects():
    ns = PG.load_module(ADVERSARIAL, tag='adv')
    ns2 = PG.load_module(ADVERSARIAL_FUTURE, tag='advf')
    ns['a_future_fwd'] = ns2['a_future_fwd']
    ns['a_future_plain'] = ns2['a_future_plain']
    # importable by dotted name, as a documentable object is (sphinx hook)
    mod = types.ModuleType('verif_adv')
    mod.__dict__.update(ns)
    sys.modules['verif_adv'] = mod
    out = []
    for k, v in sorted(ns.items()):
        if k.startswith('a_') or k.startswith('A_'):
            out.append(('adversarial.' + k, v))
            if isinstance(v, type):
                for n2, o2 in sorted(vars(v).items()):
                    if not n2.startswith('__') or n2 in ('__init__', '__call__'):
                        try:
                            attr = getattr(v, n2)
                        except Exception:  # noqa: BLE001
                            continue
                        if callable(attr):
                            out.append(('adversarial.%s.%s' % (k, n2), attr))
    # functions without source, builtins, C callables
    nosrc = {}
    exec('def nosource(*args, **kwargs):\n    return len(*args, **kwargs)\n', nosrc)
    out += [('exec.nosource', nosrc['nosource']), ('builtins.len', len), ('builtins.print', print),
            ('builtins.dict.get', dict.get), ('builtins.int', int), ('builtins.str.join', str.join),
            ('builtins.sorted', sorted), ('type', type), ('object', object), ('functools.partial', functools.partial)]
    import unittest.mock as _m
    out += [('unittest.mock.call', _m.call)]
    return ns, out


def fabricates(obj):
    try:
        return hasattr(obj, '_verif_surely_absent_attribute_')
    except Exception:  # noqa: BLE001
        return False


def check_object(name, obj, rep, stats, narrow_reqs, narrow_meta):
    if fabricates(obj):
        # known finding C07:fabricated-attributes (delimited class): the forger
        # protocol cannot tell a fabricated attribute from a declared one
        stats['fabricating_objects'] += 1
        base = outcome(inspect.signature, obj)
        got = outcome(sigtools.signature, obj)
        if (base[0], base[1] if base[0] == 'err' else str(base[1])) != (got[0], got[1] if got[0] == 'err' else str(got[1])):
            rep.violation('C07:fabricated-attributes', 'sigtools.signature(%s) -> %s where inspect.signature -> %s'
                          % (name, got[1], base[1]), {'kind': 'object', 'name': name, 'label': 'fabricated'})
        return
    try:
        hash(obj)
        unhashable = False
    except TypeError:
        unhashable = True
    except Exception:  # noqa: BLE001
        unhashable = False
    if unhashable:
        # known finding C07:unhashable-callable (delimited class): provenance maps are keyed by the callable
        stats['unhashable_objects'] += 1
        base = outcome(inspect.signature, obj)
        got = outcome(PS.signature, obj)
        if base[0] == 'ok' and got[0] != 'ok':
            rep.violation('C07:unhashable-callable', 'signatures.signature(%s) raised %s where inspect.signature succeeds (the callable is unhashable)'
                          % (name, got[1]), {'kind': 'object', 'name': name, 'label': 'unhashable'})
        return
    base = outcome(inspect.signature, obj)
    results = {
        'sigtools.signature': outcome(sigtools.signature, obj),
        'sigtools.signature(auto=False)': outcome(sigtools.signature, obj, auto=False),
        'signatures.signature': outcome(PS.signature, obj),
    }
    stats['inspect_ok' if base[0] == 'ok' else 'inspect_raises'] += 1
    for label, r in results.items():
        if base[0] == 'ok':
            if r[0] != 'ok':
                rep.violation('C07:total', '%s(%s) raised %s although inspect.signature succeeds' % (label, name, r[1]),
                              {'kind': 'object', 'name': name, 'label': label})
                return
            if not isinstance(r[1], S.UpgradedSignature):
                rep.violation('C07:type', '%s(%s) returned %s, not an UpgradedSignature' % (label, name, type(r[1]).__name__),
                              {'kind': 'object', 'name': name, 'label': label})
                return
        else:
            if r[0] == 'ok':
                # succeeding where inspect fails is not forbidden (partial objects, forgers)
                continue
            if r[1] != base[1]:
                rep.violation('C07:exception-type', '%s(%s) raised %s where inspect.signature raises %s'
                              % (label, name, r[1], base[1]), {'kind': 'object', 'name': name, 'label': label})
                return
    if base[0] != 'ok':
        return
    got = results['sigtools.signature'][1]
    if str(got) != str(results['signatures.signature'][1]):
        stats['refined'] += 1
        rep.distinct.add(name)
    # narrowing, for plain functions and methods
    if is_plain(obj) or is_plain_callable_object(obj):
        own = base[1]
        try:
            d_got = describe_sig(got)
            d_own = describe_sig(S.UpgradedSignature._upgrade_with_warning(own))
        except Exception:  # noqa: BLE001
            return
        d_got, d_own = shape_only(d_got), shape_only(d_own)
        if d_got['params'] == d_own['params']:
            stats['narrow_identical'] += 1
            if name.startswith('adversarial.') and is_plain(obj) and str(got) != str(own):
                # same parameters: the text (annotations, defaults) is the one inspect gives
                rep.violation('C07:text', 'sigtools.signature(%s) prints %s, inspect.signature prints %s' % (name, got, own),
                              {'kind': 'object', 'name': name, 'label': 'text'})
            return
        if len({q[0] for q in d_got['params']} | {q[0] for q in d_own['params']}) > 10:
            stats['narrow_skipped_large'] += 1      # 2^n call shapes: not decided
            return
        narrow_reqs.append('incl %s %s' % (tok_sig(d_got), tok_sig(d_own)))
        narrow_meta.append((name, d_got, d_own))


def shape_only(d):
    """acceptance projection of a description (defaults reduced to present/absent)"""
    return {'params': [(nm, k, (1 if de is not None else None), None, ('E',)) for nm, k, de, an, ua in d['params']],
            'ret': None, 'uret': ('E',), 'srcs': {}, 'deps': {}}


def sphinx_check(name, obj, rep, stats):
    try:
        from sigtools import sphinxext
    except Exception:  # noqa: BLE001
        stats['sphinx_unavailable'] += 1
        return
    r = outcome(sphinxext.process_signature, None, 'function', name, obj, None, '(orig)', 'origret')
    stats['sphinx_calls'] += 1
    if r[0] != 'ok':
        rep.violation('C07:sphinx', 'sphinxext.process_signature raised %s for %s' % (r[1], name),
                      {'kind': 'sphinx', 'name': name})
        return
    s, ra = r[1]
    # the string forms of the evaluated signature
    exp = outcome(lambda: sigtools.signature(obj))
    if exp[0] == 'ok' and ((name.count('.') == 1 and isinstance(obj, types.FunctionType))
                           or (isinstance(obj, type) and '__get__' in vars(obj))):   # no rebinding by the hook
        try:
            ev = exp[1].evaluated()
        except Exception:  # noqa: BLE001
            ev = exp[1]
        want_ra = '' if ev.return_annotation is ev.empty else repr(ev.return_annotation)
        want_s = str(ev.replace(return_annotation=ev.empty))
        if (s, ra) != (want_s, want_ra) and (s, ra) != ('(orig)', 'origret'):
            rep.violation('C07:sphinx', 'sphinxext.process_signature(%s) returned %r, expected %r'
                          % (name, (s, ra), (want_s, want_ra)), {'kind': 'sphinx', 'name': name})
            return
    # members of a class, documented through their dotted name: a static or class method keeps
    # all the parameters its callers pass; a plain method loses exactly `self`
    member = class_member(name)
    if member is not None and (s, ra) != ('(orig)', 'origret'):
        parent, raw, attr = member
        want = None
        if isinstance(raw, staticmethod):
            want = outcome(lambda: sigtools.signature(getattr(parent, attr)))
        # (class methods, like plain methods, are documented through a stand-in)
        # (a plain method is documented through a stand-in instance: what discovery finds through
        # `self` there is not specified, only that the hook does not raise)
        if want is not None and want[0] == 'ok':
            try:
                ev = want[1].evaluated()
            except Exception:  # noqa: BLE001
                ev = want[1]
            want_s = str(ev.replace(return_annotation=ev.empty))
            stats['sphinx_member_compared'] += 1
            if s != want_s:
                rep.violation('C07:sphinx', 'sphinxext.process_signature(%s) returned %r; as a member of its class (%s) the callable has the signature %s'
                              % (name, s, type(raw).__name__, want_s), {'kind': 'sphinx', 'name': name})
                return
    if not (isinstance(s, str) or s is None) or not (isinstance(ra, str) or ra is None):
        rep.violation('C07:sphinx', 'sphinxext.process_signature returned non-strings for %s: %r' % (name, r[1]),
                      {'kind': 'sphinx', 'name': name})


def class_member(name):
    """(class, raw class attribute, attribute name) when the dotted name is a member of a plain class"""
    from sigtools import sphinxext
    try:
        parent, _obj = sphinxext.fetch_dotted_name(name)
    except Exception:  # noqa: BLE001
        return None
    if not isinstance(parent, type) or type(parent) is not type:
        return None
    attr = name.rpartition('.')[2]
    try:
        raw = inspect.getattr_static(parent, attr)
    except AttributeError:
        return None
    return parent, raw, attr


def resolve_name(name):
    if name.startswith('adversarial.') or name.startswith('exec.') or name.startswith('builtins.') or name in ('type', 'object', 'functools.partial'):
        ns, objs = adversarial_objects()
        for n, o in objs:
            if n == name:
                return o
        return None
    parts = name.split('.')
    for i in range(len(parts) - 1, 0, -1):
        try:
            o = importlib.import_module('.'.join(parts[:i]))
        except Exception:  # noqa: BLE001
            continue
        try:
            for a in parts[i:]:
                o = getattr(o, a)
            return o
        except AttributeError:
            continue
    return None


def run(ctx, rep):
    import collections
    stats = collections.Counter()
    corpus = collect(ctx.quick)
    ns, adv = adversarial_objects()
    objs = adv + corpus
    rep.rule = ('every function, builtin, class, partial, callable instance and class attribute of %d stdlib and %d third-party/sigtools modules '
                '(%s) plus %d adversarial sources (async, generators, walrus, match, comprehensions, starred calls, global/nonlocal, class '
                'bodies, decorators, lambdas, loops, except-as, import-as, no-source, builtins); distinct non-trivial = discovery refined the plain signature'
                % (len(STDLIB), len(THIRD), 'fixed slice' if ctx.quick else 'all', len(adv)))
    narrow_reqs, narrow_meta = [], []
    prog_sources = {}
    vis_reqs, vis_impl, vis_names = [], [], []
    for name, obj in objs:
        rep.evaluations += 1
        check_object(name, obj, rep, stats, narrow_reqs, narrow_meta)
        # the walker itself: model vs implementation on the very tree
        f = obj.__func__ if isinstance(obj, types.MethodType) else obj
        if isinstance(f, types.FunctionType):
            tree = outcome(_util.get_ast, f)
            if tree[0] == 'err':
                rep.violation('C07:get_ast', '_util.get_ast raised %s for %s' % (tree[1], name),
                              {'kind': 'object', 'name': name, 'label': 'get_ast'})
            elif tree[1] is not None:
                req, intern = D.visit_request(tree[1])
                vis_reqs.append(req)
                vis_impl.append(D.impl_calls(tree[1], intern))
                vis_names.append(name)
    # the same retrievals from another thread (a worker thread never imported sigtools itself):
    # same outcome as on this thread
    import threading
    sample = adv + corpus[:120 if ctx.quick else 1500]
    main_out = [(name, outcome(sigtools.signature, obj)) for name, obj in sample if not fabricates(obj)]
    box = []

    def worker():
        for name, obj in sample:
            if not fabricates(obj):
                box.append((name, outcome(sigtools.signature, obj)))
    th = threading.Thread(target=worker)
    th.start()
    th.join()
    canon_out = lambda r: (r[0], r[1] if r[0] == 'err' else str(r[1]))
    for (name, a), (_, b) in zip(main_out, box):
        stats['thread_retrievals'] += 1
        if canon_out(a) != canon_out(b):
            rep.violation('C07:thread', 'sigtools.signature(%s) gives %s on a worker thread, %s on the main thread'
                          % (name, canon_out(b)[1], canon_out(a)[1]), {'kind': 'object', 'name': name, 'label': 'thread'})
    if len(box) != len(main_out):
        rep.violation('C07:thread', 'the worker thread stopped after %d of %d retrievals' % (len(box), len(main_out)),
                      {'kind': 'object', 'name': 'thread', 'label': 'thread'})
    for name, obj in adv:
        if name.startswith('adversarial.'):
            sphinx_check('verif_adv.' + name.split('.', 1)[1], obj, rep, stats)
    # sphinx hook on documentable corpus objects (by dotted name)
    for name, obj in corpus[:300 if ctx.quick else 3000]:
        if isinstance(obj, (types.FunctionType, type, types.MethodType)):
            sphinx_check(name, obj, rep, stats)
    # totality over the forwarding grammar, including programs whose written
    # call can never succeed (too many literal arguments, foreign keywords)
    rng = ctx.rng('programs')
    progs = PG.gen_programs(rng, 300 if ctx.quick else 2500, tainted=False, valid_only=False) \
        + PG.gen_programs(rng, 150 if ctx.quick else 1200, tainted=True, valid_only=False)
    import discheck as DC
    for p in progs:
        pns = PG.load_module(p.source)
        try:
            fn, o = DC.wrapper_function(p, pns)
            base = outcome(inspect.signature, o)
            for label, f in (('sigtools.signature', sigtools.signature),
                             ('sigtools.signature(auto=False)', lambda x: sigtools.signature(x, auto=False))):
                r = outcome(f, o)
                stats['program_retrievals'] += 1
                if base[0] == 'ok' and r[0] != 'ok':
                    rep.violation('C07:total', '%s(wrapper) raised %s although inspect.signature succeeds\n%s'
                                  % (label, r[1], p.source), {'kind': 'program', 'source': p.source})
                    break
                # narrowing of plain functions: the result never accepts what the def rejects
                if (label == 'sigtools.signature' and base[0] == 'ok' and r[0] == 'ok'
                        and p.route in ('global', 'closure', 'attribute') and is_plain(o)):
                    d_got = shape_only(describe_sig(r[1]))
                    d_own = shape_only(describe_sig(S.UpgradedSignature._upgrade_with_warning(base[1])))
                    if d_got['params'] != d_own['params']:
                        narrow_reqs.append('incl %s %s' % (tok_sig(d_got), tok_sig(d_own)))
                        narrow_meta.append(('generated program\n' + p.source, d_got, d_own))
                        prog_sources[len(narrow_meta) - 1] = p.source
        finally:
            PG.unload(pns)
    rep.evaluations += len(progs)
    outs = D.run_vdriver_parallel(vis_reqs)
    ncalls = 0
    for name, o, i in zip(vis_names, outs, vis_impl):
        ncalls += o.count(';') + (1 if len(o) > 6 else 0)
        if o != i:
            rep.corr_break('CallListerVisitor', name, o[:500], i[:500])
    stats['visitor_trees'] = len(vis_reqs)
    stats['visitor_calls'] = ncalls
    answers = ask(narrow_reqs)
    for idx_, ((name, d_got, d_own), ans) in enumerate(zip(narrow_meta, answers)):
        cex = parse_cex(ans)
        stats['narrow_decided'] += 1
        if cex is not None:
            rp = {'kind': 'object', 'name': name, 'label': 'narrow'}
            if idx_ in prog_sources:
                rp = {'kind': 'program-narrow', 'source': prog_sources[idx_]}
            rep.violation('C07:narrow', 'sigtools.signature(%s) = %s accepts call %s that its own parameter list %s rejects'
                          % (name, show_sig(d_got), show_call(cex), show_sig(d_own)), rp)
    for name, obj in adv[:3] + corpus[:3]:
        rep.sample({'object': name, 'sigtools.signature': str(outcome(sigtools.signature, obj)[1])})
    rep.coverage.update(dict(stats))
    rep.coverage['objects'] = len(objs)
    rep.assumptions = [
        'modules are imported from this environment; import side effects are limited by the fixed module list',
        'succeeding where inspect.signature fails (partial objects, forgers) is allowed',
    ]
    PG.unload(ns)


def replay(ctx, data):
    r = data['replay']
    if r.get('kind') == 'program-narrow':
        pns = PG.load_module(r['source'])
        try:
            o = pns['wrapper']
            got = outcome(sigtools.signature, o)
            base = outcome(inspect.signature, o)
            if got[0] != 'ok' or base[0] != 'ok':
                return None
            d_got = shape_only(describe_sig(got[1]))
            d_own = shape_only(describe_sig(S.UpgradedSignature._upgrade_with_warning(base[1])))
            cex = parse_cex(ask(['incl %s %s' % (tok_sig(d_got), tok_sig(d_own))])[0])
            return None if cex is None else 'reported %s accepts %s rejected by the def' % (show_sig(d_got), show_call(cex))
        finally:
            PG.unload(pns)
    if r.get('kind') == 'program':
        pns = PG.load_module(r['source'])
        try:
            o = pns['wrapper']
            if outcome(inspect.signature, o)[0] == 'ok' and outcome(sigtools.signature, o)[0] != 'ok':
                return 'sigtools.signature(wrapper) raises although inspect.signature succeeds'
            return None
        finally:
            PG.unload(pns)
    name = r['name']
    obj = resolve_name(name)
    if obj is None:
        return None

    class _R(object):
        def __init__(self):
            self.v = []
            self.distinct = set()

        def violation(self, key, what, rp):
            self.v.append(what)
    rr = _R()
    import collections
    if r['kind'] == 'sphinx':
        sphinx_check(name, obj, rr, collections.Counter())
    else:
        reqs, meta = [], []
        check_object(name, obj, rr, collections.Counter(), reqs, meta)
        for (n, d_got, d_own), ans in zip(meta, ask(reqs)):
            cex = parse_cex(ans)
            if cex is not None:
                rr.v.append('%s accepts %s rejected by its own parameter list' % (n, show_call(cex)))
    return rr.v[0] if rr.v else None


def replay_known(ctx, k):
    if k.get('key') == 'C07:unhashable-callable':
        class _U(object):
            __hash__ = None

            def __call__(self, a):
                return a
        return outcome(PS.signature, _U())[0] == 'err'
    if k.get('key') == 'C07:fabricated-attributes':
        import unittest.mock as m
        return outcome(sigtools.signature, m.Mock())[0] == 'err'
    return True
