"""C18 — decorator application order, repeated use, lifetimes.

Part 1 (order): for small functions and every set of <= 3 modifier applications
(kwoargs / posoargs incl. start= / end=, autokwoargs, annotate) every
permutation is applied to a fresh copy of the function.  For each permutation
the implementation's admissibility, advertised signature (sigtools.signature
and inspect.signature) and call translation on a fixed family of call shapes
are compared with Model/Cache.v (run_mods / advertised / pok_call, evaluated
inside Coq), and the property is decided directly: all admissible permutations
of one set agree on signature and on the result (mapping or TypeError) of every
real call; every annotation given is visible in the final signature.

Part 2 (histories): all operation sequences over {get / retrieve on instance
0|1 or the class, call, re-decorate, drop + gc.collect()} on classes whose
method goes through OverrideableDataDesc (modifiers.kwoargs), a forger
attribute (forwards_to_method), _ForgerWrapper (emulate=True), _SimpleWrapped
(wrappers.decorator) and _Wrapped (wrappers.wrapper_decorator).  Every
observation is compared with the model's state machine (run_impl) and decided
directly against the cache-less specification realised on the implementation
(a freshly built class decorated in specification order): right instance,
signature equal to the fresh one, weak reference dead after drop.
"""
import concurrent.futures
import gc
import inspect
import itertools
import weakref

import coqrun
import sigtools
from sigtools import modifiers, specifiers, support, wrappers, _signatures

LEVEL = 'proof'

NAMES = {1: 'a', 2: 'b', 3: 'c', 4: 'd', 8: 'args', 9: 'kwargs'}
IDS = dict((v, k) for k, v in NAMES.items())
KINDS = {inspect.Parameter.POSITIONAL_ONLY: 0, inspect.Parameter.POSITIONAL_OR_KEYWORD: 1,
         inspect.Parameter.VAR_POSITIONAL: 2, inspect.Parameter.KEYWORD_ONLY: 3,
         inspect.Parameter.VAR_KEYWORD: 4}
KNAME = ['PO', 'PK', 'VP', 'KO', 'VK']
MOD = 1000000007


def H(xs):
    acc = 17
    for x in xs:
        acc = (acc * 31 + x + 7) % MOD
    return acc


COQ_PRE = r'''
From Sigtools.Model Require Import Base Cache.
Definition hsh (l : list N) : N := fold_left (fun acc x => (acc * 31 + x + 7) mod 1000000007) l 17.
Definition optN (o : option N) : N := match o with Some v => v + 1 | None => 0 end.
Definition enc_param (p : param) : list N :=
  [pname p; N.of_nat (kind_rank (pkind p)); optN (pdef p); optN (pann p)].
Definition enc_sig (d : dobj) : list N := flat_map enc_param (adv_params d) ++ [999; optN (d_ret d)].
Definition enc_call (r : callres) : list N :=
  match r with
  | CTypeErr => [1]
  | CForward a k => [2] ++ a ++ [998] ++ flat_map (fun kv => [fst kv; snd kv]) k ++ [997]
  end.
Definition mk (n : N) (k : kind) (d : bool) : param :=
  mkParam n k (if d then Some (50 + n) else None) None UEmpty.
Definition case_code (ps : list param) (pool : list modifier)
           (calls : list (list N * list (name * N))) (ms : list nat) : N * N * N :=
  match run_mods (mkD ps None [] []) (map (fun i => nth i pool (MKwo [])) ms) with
  | None => (0, 0, 0)
  | Some d => (1, hsh (enc_sig d),
               hsh (flat_map (fun c => enc_call (pok_call d (fst c) (snd c))) calls))
  end.
Definition triple_eqb (a b : N * N * N) : bool :=
  N.eqb (fst (fst a)) (fst (fst b)) && N.eqb (snd (fst a)) (snd (fst b)) && N.eqb (snd a) (snd b).
Fixpoint bad_cases (ps : list param) (pool : list modifier) (calls : list (list N * list (name * N)))
         (cs : list (list nat * (N * N * N))) (i : nat) : list nat :=
  match cs with
  | [] => []
  | (ms, ans) :: r =>
    (if triple_eqb (case_code ps pool calls ms) ans then [] else [i]) ++ bad_cases ps pool calls r (S i)
  end.
Definition op_of (c : nat) : op :=
  match c with
  | 0 => OpGet (Some false) | 1 => OpGet (Some true) | 2 => OpGet None
  | 3 => OpRetrieve (Some false) | 4 => OpRetrieve (Some true) | 5 => OpRetrieve None
  | 6 => OpCall false | 7 => OpCall true | 8 => OpRedecorate
  | 9 => OpDrop false | 10 => OpDrop true | 11 => OpConnect false | _ => OpConnect true
  end%nat.
Definition kind_of (c : nat) : dkind := match c with 0 => DPok | 1 => DFunc | _ => DWrap end%nat.
Fixpoint Nlist_eqb (a b : list N) : bool :=
  match a, b with
  | [], [] => true
  | x :: a', y :: b' => N.eqb x y && Nlist_eqb a' b'
  | _, _ => false
  end.
Fixpoint bad_hist (cs : list (nat * list nat * list N)) (i : nat) : list nat :=
  match cs with
  | [] => []
  | (k, h, ans) :: r =>
    (if Nlist_eqb (map obs_code (run_impl (kind_of k) c_init (map op_of h))) ans then [] else [i])
    ++ bad_hist r (S i)
  end.
'''

# ----------------------------------------------------------------- part 1
# function descriptions: list of (name id, kind index, has default)
FUNCS = []
for n in (1, 2, 3):
    for nd in range(n + 1):
        FUNCS.append([(i + 1, 1, i >= n - nd) for i in range(n)])
FUNCS += [
    [(1, 1, False), (2, 1, True), (3, 3, True)],            # (a, b=, *, c=)
    [(1, 0, False), (2, 1, False), (3, 1, True)],           # (a, /, b, c=)
    [(1, 1, False), (2, 1, True), (9, 4, False)],           # (a, b=, **kwargs)
    [(1, 1, False), (2, 1, False), (8, 2, False)],          # (a, b, *args)
    [(1, 1, False), (2, 1, True), (3, 1, True), (4, 1, True)],
]


def func_source(desc):
    parts = []
    seen_star = False
    for i, (nm, k, d) in enumerate(desc):
        s = NAMES[nm]
        if k == 3 and not seen_star:
            parts.append('*')
            seen_star = True
        if k == 2:
            s = '*' + s
            seen_star = True
        if k == 4:
            s = '**' + s
        if d:
            s += '=%d' % (50 + nm)
        parts.append(s)
        if k == 0 and (i + 1 == len(desc) or desc[i + 1][1] != 0):
            parts.append('/')
    return 'def f(%s):\n    return dict(locals())\n' % ', '.join(parts)


def make_func(desc):
    ns = {}
    exec(func_source(desc), ns)
    return ns['f']


def pool_for(desc):
    """modifier pool: (tag, payload) with names as ids"""
    named = [nm for nm, k, d in desc if k in (0, 1, 3)]
    pool = []
    for x in named:
        pool.append(('kwo', (x,)))
        pool.append(('pos', (x,)))
        pool.append(('start', x))
        pool.append(('end', x))
        pool.append(('auto', (x,)))
        pool.append(('ann', (None, ((x, 300 + x),))))
    pool.append(('auto', ()))
    pool.append(('ann', (400, ())))          # annotate with a return annotation only
    if len(named) >= 2:
        pool.append(('kwo', (named[-1], named[-2])))
        pool.append(('pos', (named[0], named[1])))
        pool.append(('ann', (400, ((named[0], 300 + named[0]), (named[-1], 300 + named[-1])))))
    return pool


def coq_mod(m):
    tag, p = m
    nl = lambda xs: coqrun.coq_list(['%d' % x for x in xs])
    if tag == 'kwo':
        return 'MKwo %s' % nl(p)
    if tag == 'pos':
        return 'MPos %s' % nl(p)
    if tag == 'start':
        return 'MKwoStart %d []' % p
    if tag == 'end':
        return 'MPosEnd %d []' % p
    if tag == 'auto':
        return 'MAuto %s' % nl(p)
    ret, anns = p
    return 'MAnn %s %s' % ('None' if ret is None else '(Some %d)' % ret,
                            coqrun.coq_list(['(%d, %d)' % a for a in anns]))


def show_mod(m):
    tag, p = m
    nm = lambda xs: ', '.join(repr(NAMES[x]) for x in xs)
    if tag == 'kwo':
        return 'kwoargs(%s)' % nm(p)
    if tag == 'pos':
        return 'posoargs(%s)' % nm(p)
    if tag == 'start':
        return 'kwoargs(start=%r)' % NAMES[p]
    if tag == 'end':
        return 'posoargs(end=%r)' % NAMES[p]
    if tag == 'auto':
        return 'autokwoargs(exceptions=[%s])' % nm(p)
    ret, anns = p
    return 'annotate(%s)' % ', '.join(([] if ret is None else ['%d' % ret])
                                       + ['%s=%d' % (NAMES[k], v) for k, v in anns])


def apply_modifier(obj, m):
    tag, p = m
    if tag == 'kwo':
        return modifiers.kwoargs(*[NAMES[x] for x in p])(obj)
    if tag == 'pos':
        return modifiers.posoargs(*[NAMES[x] for x in p])(obj)
    if tag == 'start':
        return modifiers.kwoargs(start=NAMES[p])(obj)
    if tag == 'end':
        return modifiers.posoargs(end=NAMES[p])(obj)
    if tag == 'auto':
        if p:
            return modifiers.autokwoargs(exceptions=[NAMES[x] for x in p])(obj)
        return modifiers.autokwoargs(obj)
    ret, anns = p
    kw = dict((NAMES[k], v) for k, v in anns)
    if ret is None:
        return modifiers.annotate(**kw)(obj)
    return modifiers.annotate(ret, **kw)(obj)


def enc_sig(sig):
    out = []
    for p in sig.parameters.values():
        out += [IDS[p.name], KINDS[p.kind],
                0 if p.default is p.empty else p.default + 1,
                0 if p.annotation is p.empty else p.annotation + 1]
    out += [999, 0 if sig.return_annotation is sig.empty else sig.return_annotation + 1]
    return out


def call_shapes(desc):
    named = [nm for nm, k, d in desc]
    kwnames = [nm for nm, k, d in desc if k in (0, 1, 3)]
    shapes = []
    for npos in range(len(named) + 2):
        for r in range(len(kwnames) + 1):
            for sub in itertools.combinations(kwnames, r):
                shapes.append((tuple(100 + j for j in range(npos)), tuple((x, 200 + x) for x in sub)))
    if len(shapes) > 24:
        # deterministic thinning, keeps every npos and every keyword subset size
        shapes = shapes[::(len(shapes) + 23) // 24]
    return shapes


def _rec(*args, **kwargs):
    return ('fwd', args, kwargs)


def forward_of(w, a, k):
    """what the translator passes to the wrapped function (observed by swapping
    in a recorder for the duration of the call)"""
    kw = dict((NAMES[x], v) for x, v in k)
    if not isinstance(w, modifiers._PokTranslator):
        return [2] + list(a) + [998] + [t for x, v in k for t in (x, v)] + [997]
    orig = w.func
    w.func = _rec
    try:
        try:
            _, fa, fk = w(*a, **kw)
        except TypeError:
            return [1]
    finally:
        w.func = orig
    return [2] + list(fa) + [998] + [t for x, v in fk.items() for t in (IDS[x], v)] + [997]


def real_call(w, a, k):
    kw = dict((NAMES[x], v) for x, v in k)
    try:
        r = w(*a, **kw)
    except TypeError:
        return 'TypeError'
    except RecursionError:
        return 'BROKEN:RecursionError'
    except Exception as e:
        return 'BROKEN:' + type(e).__name__
    return tuple(sorted((n, repr(v)) for n, v in r.items()))


class _Timeout(BaseException):
    pass


class time_limit(object):
    """raise _Timeout in the main thread when the block runs longer than `seconds`
    (a decorator application or a retrieval that loops for ever must become a
    finding, not a hang)"""
    def __init__(self, seconds):
        self.seconds = seconds
        self.armed = False

    def _fire(self, signum, frame):
        raise _Timeout()

    def __enter__(self):
        import signal
        import threading
        if threading.current_thread() is threading.main_thread():
            self.old = signal.signal(signal.SIGALRM, self._fire)
            signal.setitimer(signal.ITIMER_REAL, self.seconds)
            self.armed = True
        return self

    def __exit__(self, *exc):
        if self.armed:
            import signal
            signal.setitimer(signal.ITIMER_REAL, 0)
            signal.signal(signal.SIGALRM, self.old)
        return False


def make_decorator(m):
    """the decorator OBJECT of a modifier: built once, it can then be applied to
    any number of functions (a module keeping `defaults_kwo = autokwoargs(exceptions=[...])`)"""
    tag, p = m
    if tag == 'kwo':
        return modifiers.kwoargs(*[NAMES[x] for x in p])
    if tag == 'pos':
        return modifiers.posoargs(*[NAMES[x] for x in p])
    if tag == 'start':
        return modifiers.kwoargs(start=NAMES[p])
    if tag == 'end':
        return modifiers.posoargs(end=NAMES[p])
    if tag == 'auto':
        if p:
            return modifiers.autokwoargs(exceptions=[NAMES[x] for x in p])
        return modifiers.autokwoargs()
    ret, anns = p
    kw = dict((NAMES[k], v) for k, v in anns)
    if ret is None:
        return modifiers.annotate(**kw)
    return modifiers.annotate(ret, **kw)


class Bank(object):
    """decorator objects built once per modifier and handed out again on every use"""
    def __init__(self):
        self.objs = {}
        self.uses = {}

    def get(self, m):
        if m not in self.objs:
            self.objs[m] = make_decorator(m)
        self.uses[m] = self.uses.get(m, 0) + 1
        return self.objs[m]


def run_order(fi, mods, bank=None):
    """apply the modifiers (application order) to a fresh function; returns
    None (not admissible) or (w, sigtools enc, inspect enc).  With a bank the
    decorator objects are taken from it (reused) instead of built afresh."""
    desc = FUNCS[fi]
    obj = make_func(desc)
    try:
        for m in mods:
            if bank is not None:
                obj = bank.get(m)(obj)
            else:
                obj = apply_modifier(obj, m)
    except ValueError:
        return None
    return obj


def order_case(fi, pool, shapes, idxs, bank=None):
    """one ordered application list on a fresh function, under a time guard"""
    try:
        with time_limit(4.0):
            c = _order_case(fi, pool, shapes, idxs, bank)
    except _Timeout:
        return {'adm': True, 'ans': (2, 0, 0), 'broken': 'does not terminate (stopped after 4 s)', 'str': '?'}
    except RecursionError:
        return {'adm': True, 'ans': (2, 0, 0), 'broken': 'raises RecursionError', 'str': '?'}
    except Exception as e:
        return {'adm': True, 'ans': (2, 0, 0), 'broken': 'raises %s(%s)' % (type(e).__name__, e), 'str': '?'}
    if c['adm']:
        bad = [i for i, r in enumerate(c['real']) if isinstance(r, str) and r.startswith('BROKEN:')]
        if bad:
            a, k = shapes[bad[0]]
            c['broken'] = 'call args=%s kwargs=%s raises %s (neither a result nor TypeError)' % (
                list(a), dict((NAMES[x], v) for x, v in k), c['real'][bad[0]][7:])
    return c


def _order_case(fi, pool, shapes, idxs, bank=None):
    mods = [pool[i] for i in idxs]
    w = run_order(fi, mods, bank)
    if w is None:
        return {'adm': False, 'ans': (0, 0, 0)}
    ssig = sigtools.signature(w)
    s1 = enc_sig(ssig)
    s2 = enc_sig(inspect.signature(w))
    upg = upgraded_problem(ssig)
    fw = []
    real = []
    for a, k in shapes:
        fw += forward_of(w, a, k)
        real.append(real_call(w, a, k))
    return {'adm': True, 'ans': (1, H(s1), H(fw)), 'sig': s1, 'isig': s2, 'real': real,
            'str': str(ssig), 'upg': upg}


_EMPTY_UPG = _signatures.UpgradedAnnotation.upgrade(inspect.Parameter.empty, None, 'x')


def upgraded_problem(sig):
    """upgraded_annotation / upgraded_return_annotation must carry the same value
    as annotation / return_annotation (annotate stores pre-evaluated values)"""
    try:
        for p in sig.parameters.values():
            if p.annotation is not p.empty and p.upgraded_annotation.source_value() != p.annotation:
                return 'upgraded annotation of %s is %r' % (p.name, p.upgraded_annotation)
            if p.annotation is p.empty and p.upgraded_annotation != _EMPTY_UPG:
                return 'upgraded annotation of un-annotated %s is %r' % (p.name, p.upgraded_annotation)
        if sig.return_annotation is not sig.empty:
            if sig.upgraded_return_annotation.source_value() != sig.return_annotation:
                return 'upgraded return annotation is %r' % (sig.upgraded_return_annotation,)
        elif sig.upgraded_return_annotation != _EMPTY_UPG:
            return 'upgraded return annotation of an un-annotated return is %r' % (sig.upgraded_return_annotation,)
    except Exception as e:
        return 'reading upgraded annotations raised %s(%s)' % (type(e).__name__, e)
    return None


def order_sets(ctx, fi, pool):
    rng = ctx.rng('order-%d' % fi)
    n = len(pool)
    sets = [(i,) for i in range(n)] + list(itertools.combinations(range(n), 2))
    triples = list(itertools.combinations(range(n), 3))
    if ctx.quick:
        sets = sets if len(sets) <= 130 else [(i,) for i in range(n)] + rng.sample(sets[n:], 130 - n)
        triples = rng.sample(triples, min(len(triples), 30))
    else:
        triples = rng.sample(triples, min(len(triples), 400))
    sets += triples
    # repeated application of one modifier (re-decoration with the same decorator)
    sets += [(i, i) for i in range(0, n, 3)]
    return sets


def describe_order(fi, mods):
    return '%s with %s (application order)' % (
        func_source(FUNCS[fi]).split('\n')[0], ', '.join(show_mod(m) for m in mods))


def decide_set(rep, fi, pool, idxs, results):
    """results: {perm: case}; direct decision of the property on the implementation"""
    adm = [(p, c) for p, c in results.items() if c['adm']]
    for p, c in adm:
        if c.get('broken'):
            rep.violation('C18:order', 'admissible decoration is unusable: %s: %s (signature %s)' % (
                describe_order(fi, [pool[i] for i in p]), c['broken'], c['str']),
                {'part': 'order', 'func': fi, 'perms': [list(p)], 'pool': idxs_pool(pool, p)})
    adm = [(p, c) for p, c in adm if 'sig' in c]
    for p, c in adm:
        if c.get('upg'):
            rep.violation('C18:annotate-lost', '%s after %s: signature %s' % (
                c['upg'], describe_order(fi, [pool[i] for i in p]), c['str']),
                {'part': 'order', 'func': fi, 'perms': [list(p)], 'pool': idxs_pool(pool, p)})
        if c['sig'] != c['isig']:
            rep.violation('C18:order', 'sigtools.signature and inspect.signature differ: %s' %
                          describe_order(fi, [pool[i] for i in p]),
                          {'part': 'order', 'func': fi, 'perms': [list(p)], 'pool': idxs_pool(pool, p)})
        # every annotation given is advertised
        want = {}
        wret = None
        for i in p:
            if pool[i][0] == 'ann':
                wret = pool[i][1][0] if pool[i][1][0] is not None else wret
                want.update(dict(pool[i][1][1]))
        s = c['sig']
        got = dict((s[j], s[j + 3] - 1) for j in range(0, len(s) - 2, 4))
        lost = [k for k, v in want.items() if got.get(k) != v]
        if lost or (wret is not None and s[-1] != wret + 1):
            rep.violation('C18:annotate-lost', 'annotation not advertised after %s: got %s' % (
                describe_order(fi, [pool[i] for i in p]), c['str']),
                {'part': 'order', 'func': fi, 'perms': [list(p)], 'pool': idxs_pool(pool, p)})
    for (p1, c1), (p2, c2) in itertools.combinations(adm, 2):
        if c1['sig'] != c2['sig'] or c1['real'] != c2['real']:
            what = 'signature' if c1['sig'] != c2['sig'] else 'call behaviour'
            rep.violation('C18:order', '%s depends on the order: %s gives %s, %s gives %s' % (
                what, describe_order(fi, [pool[i] for i in p1]), c1['str'],
                describe_order(fi, [pool[i] for i in p2]), c2['str']),
                {'part': 'order', 'func': fi, 'perms': [list(p1), list(p2)], 'pool': idxs_pool(pool, p1)})
            return


def idxs_pool(pool, p):
    return dict((str(i), pool[i]) for i in p)


def coq_order_file(fi, pool, shapes, cases):
    return coq_order_file_desc(FUNCS[fi], pool, shapes, cases)


def coq_order_file_desc(desc, pool, shapes, cases):
    ps = coqrun.coq_list(['mk %d %s %s' % (nm, KNAME[k], coqrun.coq_bool(d)) for nm, k, d in desc])
    pl = coqrun.coq_list([coq_mod(m) for m in pool])
    cl = coqrun.coq_list(['(%s, %s)' % (coqrun.coq_list(['%d' % v for v in a]),
                                         coqrun.coq_list(['(%d, %d)' % kv for kv in k]))
                          for a, k in shapes])
    cs = coqrun.coq_list(['(%s, (%d, %d, %d))' % (coqrun.coq_list(['%d%%nat' % i for i in p]),
                                                    c['ans'][0], c['ans'][1], c['ans'][2])
                          for p, c in cases])
    pre = COQ_PRE + '\nDefinition PS : list param := %s.\nDefinition POOL : list modifier := %s.\n' \
        'Definition CALLS : list (list N * list (name * N)) := %s.\n' \
        'Definition CASES : list (list nat * (N * N * N)) := %s.\n' % (ps, pl, cl, cs)
    return pre, ['bad_cases PS POOL CALLS CASES 0']


def part_order(ctx, rep):
    jobs = []
    n_eval = 0
    n_adm = 0
    n_sets = 0
    kinds_hit = {}
    for fi, desc in enumerate(FUNCS):
        pool = pool_for(desc)
        shapes = call_shapes(desc)
        cases = []
        for idxs in order_sets(ctx, fi, pool):
            perms = sorted(set(itertools.permutations(idxs)))
            results = {}
            for p in perms:
                c = order_case(fi, pool, shapes, p)
                results[p] = c
                cases.append((p, c))
                n_eval += 1 + len(shapes) * (1 if c['adm'] else 0)
                if c['adm']:
                    n_adm += 1
                    rep.distinct.add(('order', fi, p))
                    for i in p:
                        kinds_hit[pool[i][0]] = kinds_hit.get(pool[i][0], 0) + 1
            n_sets += 1
            decide_set(rep, fi, pool, idxs, results)
            if len(idxs) == 3 and sum(1 for c in results.values() if c['adm']) >= 2:
                rep.sample({'function': func_source(desc).split('\n')[0],
                            'modifiers': [show_mod(pool[i]) for i in idxs],
                            'admissible_orders': sum(1 for c in results.values() if c['adm']),
                            'signature': [c['str'] for c in results.values() if c['adm']][0]}, limit=3)
        for off in range(0, len(cases), 500):
            jobs.append((fi, pool, shapes, cases[off:off + 500]))
    rep.coverage['order_sets'] = n_sets
    rep.coverage['order_permutations'] = sum(len(j[3]) for j in jobs)
    rep.coverage['order_admissible'] = n_adm
    rep.coverage['order_modifier_kinds_in_admissible_runs'] = kinds_hit

    def work(job):
        fi, pool, shapes, cases = job
        pre, terms = coq_order_file(fi, pool, shapes, cases)
        ans = coqrun.coq_eval(pre, terms, name='c18order')
        return coqrun.parse_nat_list(ans[0])
    with concurrent.futures.ThreadPoolExecutor(8) as ex:
        for job, bad in zip(jobs, ex.map(work, jobs)):
            fi, pool, shapes, cases = job
            for i in bad[:5]:
                p, c = cases[i]
                rep.corr_break('run_mods/advertised/pok_call vs modifiers',
                               describe_order(fi, [pool[j] for j in p]),
                               'model (adm, hash sig, hash calls) differs',
                               '%s %s' % (c['ans'], c.get('str')))
    return n_eval


# ----------------------------------------------------------------- part 2
@wrappers.decorator
def _deco(func, *args, **kwargs):
    return func(*args, **kwargs)


@wrappers.wrapper_decorator
def _wdeco(func, *args, **kwargs):
    return func(*args, **kwargs)


HKINDS = ['pok', 'pokeq', 'func', 'fwrap', 'swrap', 'wwrap', 'iw', 'is', 'if']
MODEL_KIND = {'pok': 0, 'pokeq': 0, 'func': 1, 'fwrap': 2, 'swrap': 2, 'wwrap': 2, 'iw': 2, 'is': 2, 'if': 2}
# 'pokeq': the kwoargs class again, but all its instances compare and hash equal
# (value objects); they are still distinct objects and must be kept apart
POKS = ('pok', 'pokeq')
# forwards_to_ivar('target') under wrapper_decorator / decorator / emulate=True: the
# forwarded-to attribute only exists after `conn`; before it a retrieval fails
# (sigtools.signature) or silently falls back (inspect.signature)
IVAR = ('iw', 'is', 'if')


def _target(x, y=1):
    return (x, y)


def build_classes(kind):
    if kind == 'pok':
        class A(object):
            @modifiers.kwoargs('b')
            def m(self, a, b=2):
                return (self, a, b)
    elif kind == 'pokeq':
        class A(object):
            def __eq__(self, other):
                return isinstance(other, A)

            def __hash__(self):
                return 7

            @modifiers.kwoargs('b')
            def m(self, a, b=2):
                return (self, a, b)
    elif kind == 'func':
        class A(object):
            def target(self, x=1):
                return x

            @specifiers.forwards_to_method('target')
            def m(self, a, *args, **kwargs):
                return (self, a, self.target(*args, **kwargs))
    elif kind == 'fwrap':
        class A(object):
            def target(self, x=1):
                return x

            @specifiers.forwards_to_method('target', emulate=True)
            def m(self, a, *args, **kwargs):
                return (self, a, self.target(*args, **kwargs))
    elif kind == 'swrap':
        class A(object):
            @_deco
            def m(self, a):
                return (self, a)
    elif kind == 'iw':
        class A(object):
            @_wdeco
            @specifiers.forwards_to_ivar('target')
            def m(self, *args, **kwargs):
                return (self, self.target(*args, **kwargs))
    elif kind == 'is':
        class A(object):
            @_deco
            @specifiers.forwards_to_ivar('target')
            def m(self, *args, **kwargs):
                return (self, self.target(*args, **kwargs))
    elif kind == 'if':
        class A(object):
            @specifiers.forwards_to_ivar('target', emulate=True)
            def m(self, *args, **kwargs):
                return (self, self.target(*args, **kwargs))
    else:
        class A(object):
            @_wdeco
            def m(self, a):
                return (self, a)

    class B(A):
        pass
    return A, B


def sig_str(obj):
    try:
        return str(sigtools.signature(obj))
    except Exception as e:                      # class-level retrieval of some wrappers raises; out of scope here
        return 'EXC:' + type(e).__name__


def sig_info(obj):
    """(printed signature, decoration version read off the annotation of `a`)"""
    try:
        sig = sigtools.signature(obj)
    except Exception as e:
        return 'EXC:' + type(e).__name__, 0
    p = sig.parameters.get('a')
    if p is None or p.annotation is p.empty:
        return str(sig), 0
    return str(sig), p.annotation


def redecorate(A, ver):
    try:
        modifiers.annotate(a=ver)(A.__dict__['m'])
        return True
    except Exception:
        return False


_FRESH = {}


def isig_str(obj):
    try:
        return str(inspect.signature(obj))
    except Exception as e:
        return 'EXC:' + type(e).__name__


def _fresh(kind, ver, level, connected):
    key = (kind, ver, level, connected)
    if key not in _FRESH:
        A, B = build_classes(kind)
        for v in range(1, ver + 1):
            redecorate(A, v)
        i = A()
        if connected and kind in IVAR:
            i.target = _target
        guard = specifiers.as_forged.currently_computing
        saved = set(guard)              # whatever the history under test left behind stays visible
        obj = i.m if level == 'inst' else A.m
        _FRESH[key] = (sig_str(obj), isig_str(obj))
        del obj, i
        guard.clear()
        guard.update(saved)
    return _FRESH[key]


def fresh_sig(kind, ver, level, connected=True):
    """the cache-less specification realised on the implementation: a freshly
    built class, decorated `ver` times before any access (sigtools.signature)"""
    return _fresh(kind, ver, level, connected)[0]


def fresh_isig(kind, ver, level, connected=True):
    return _fresh(kind, ver, level, connected)[1]


def bound_self(obj):
    for path in (('__self__',), ('__wrapped__', '__self__'), ('func', '__self__')):
        x = obj
        try:
            for a in path:
                x = getattr(x, a)
            return x
        except AttributeError:
            continue
    return None


OPS = ['get0', 'get1', 'getC', 'ret0', 'ret1', 'retC', 'call0', 'call1', 'redec', 'drop0', 'drop1',
       'conn0', 'conn1']


def n_ops(kind):
    return 13 if kind in IVAR else 11


def run_history(kind, hist):
    """returns (obs codes, findings); findings = list of (key, what)"""
    A, B = build_classes(kind)
    inst = [A(), B()]
    held = [[], []]
    touched = [False, False]          # instance accessed through the descriptor since it was created
    cached_ver = [None, None]         # decoration version when it was first accessed
    ver = 0
    codes = []
    finds = []
    desc = A.__dict__['m']
    connected = [kind not in IVAR, kind not in IVAR]
    guard = specifiers.as_forged.currently_computing

    def code(tag, ok, v, rec=True):
        return tag * 1000 + (100 if ok else 0) + (10 if rec else 0) + min(v, 9)

    def check_sig(s, got, step, which=''):
        want = fresh_sig(kind, ver, 'inst', connected[s])
        if got != want:
            stale = (kind in POKS and cached_ver[s] is not None and cached_ver[s] != ver
                     and got == fresh_sig(kind, cached_ver[s], 'inst'))
            finds.append(('C18:stale-cache' if stale else 'C18:history',
                          'step %d (%s): signature %s%s, a fresh retrieval gives %s' % (
                              step, OPS[hist[step]], which, got, want)))

    def check_isig(s, obj, got, step, which=''):
        if kind == 'func':
            return                      # a plain bound method: inspect does not know the forger
        ig = isig_str(obj)
        want = fresh_isig(kind, ver, 'inst', connected[s])
        if ig != want and not (kind in POKS and ig == got):
            finds.append(('C18:history', 'step %d (%s): inspect.signature %s%s, on a fresh object %s' % (
                step, OPS[hist[step]], which, ig, want)))
        elif connected[s] and ig != got:
            finds.append(('C18:history', 'step %d: inspect.signature %s%s but sigtools.signature %s' % (
                step, which, ig, got)))

    for step, o in enumerate(hist):
        name = OPS[o]
        if name in ('get0', 'get1', 'ret0', 'ret1', 'call0', 'call1'):
            s = int(name[-1])
            obj = getattr(inst[s], 'm')
            if name.startswith('get'):
                held[s].append(obj)
            if connected[s]:
                try:
                    r = obj(7)
                    ok = r[0] is inst[s] and r[1] in (7, (7, 1))
                    whom = 'the other instance' if r[0] is inst[1 - s] else 'another object'
                except Exception as e:
                    r = None
                    ok = False
                    whom = 'nothing usable: calling it raises %s(%s)' % (type(e).__name__, e)
            else:                       # the forwarded-to attribute does not exist yet: do not call
                r = bound_self(obj)
                ok = r is inst[s]
                whom = 'the other instance' if r is inst[1 - s] else 'another object'
            if not ok:
                finds.append(('C18:binding', 'step %d (%s): the object returned for instance %d is bound to %s'
                              % (step, name, s, whom)))
            if not touched[s]:
                touched[s] = True
                cached_ver[s] = ver
            if name.startswith('call'):
                codes.append(code(3, ok, 0))
            else:
                got, gver = sig_info(obj)
                check_sig(s, got, step)
                check_isig(s, obj, got, step)
                if name.startswith('ret') and held[s] and held[s][-1] is not obj:
                    # the same question asked of an object obtained earlier and kept
                    kept = held[s][-1]
                    kgot, _ = sig_info(kept)
                    check_sig(s, kgot, step, 'of the object kept from an earlier get ')
                    check_isig(s, kept, kgot, step, 'of the object kept from an earlier get ')
                    del kept
                codes.append(code(1 if name.startswith('get') else 2, ok, gver))
            del obj, r
        elif name in ('getC', 'retC'):
            obj = A.m if name == 'getC' else B.m
            got, gver = sig_info(obj)
            want = fresh_sig(kind, ver, 'cls')
            if got != want:
                finds.append(('C18:history', 'step %d (%s): class-level signature %s, fresh %s' % (step, name, got, want)))
            codes.append(code(1 if name == 'getC' else 2, True, gver if kind in POKS + ('func',) else 0))
            del obj
        elif name == 'redec':
            ver += 1
            redecorate(A, ver)
            codes.append(code(4, True, 0))
        elif name in ('conn0', 'conn1'):
            s = int(name[-1])
            inst[s].target = _target
            connected[s] = True
            codes.append(code(6, True, 0))
        else:
            s = int(name[-1])
            wr = weakref.ref(inst[s])
            was_touched = touched[s]
            inst[s] = None
            del held[s][:]
            gc.collect()
            dead = wr() is None
            if not dead:
                via_insts = False
                try:
                    via_insts = any(getattr(k, '__self__', None) is wr() for k in list(desc.insts.keys()))
                except Exception:
                    pass
                if kind in POKS and was_touched and via_insts:
                    key = 'C18:cache-leak'
                else:
                    key = 'C18:leak:%s%s' % (kind, '' if was_touched else '-untouched')
                finds.append((key, 'step %d (%s): the instance is still alive after del + gc.collect()%s' % (
                    step, name, ' (kept by the descriptor cache insts -> wrapper -> wrapper.func.__self__)' if via_insts else '')))
            codes.append(code(5, True, 0, dead))
            inst[s] = (A, B)[s]()
            touched[s] = False
            cached_ver[s] = None
            connected[s] = kind not in IVAR
        if guard:
            finds.append(('C18:guard-leak', 'step %d (%s): specifiers.as_forged.currently_computing still holds %d object(s) '
                          'after the operation returned' % (step, name, len(guard))))
    guard.clear()
    return codes, finds


def histories(ctx):
    rng = ctx.rng('hist')
    n = len(OPS)
    out = []
    full = {'pok': 4, 'pokeq': 2, 'func': 3, 'fwrap': 3, 'swrap': 3, 'wwrap': 3, 'iw': 2, 'is': 2, 'if': 2}
    if not ctx.quick:
        full = {'pok': 4, 'pokeq': 3, 'func': 4, 'fwrap': 3, 'swrap': 3, 'wwrap': 3, 'iw': 3, 'is': 3, 'if': 3}
    for kind in HKINDS:
        n = n_ops(kind)
        for L in range(1, full[kind] + 1):
            for h in itertools.product(range(n), repeat=L):
                out.append((kind, h))
        if kind in IVAR:
            # every early (failing / falling back) retrieval followed by connect, a later
            # retrieval, and the drop: [get|ret]s, conn s?, [get|ret]s?, drop s
            for s_ in (0, 1):
                for early in (s_, 3 + s_):
                    for conn in ((), (11 + s_,)):
                        for late in ((), (s_,), (3 + s_,)):
                            out.append((kind, (early,) + conn + late + (9 + s_,)))
                            out.append((kind, (s_, early) + conn + late + (9 + s_,)))
        extra = {'pok': 100, 'pokeq': 80, 'func': 100, 'fwrap': 50, 'swrap': 50, 'wwrap': 50,
                 'iw': 80, 'is': 80, 'if': 80}[kind]
        if not ctx.quick:
            extra *= 40
        for _ in range(extra):
            L = min(6, max(rng.choice([4, 5, 6]), full[kind] + 1))
            out.append((kind, tuple(rng.randrange(n) for _ in range(L))))
    return out


def part_history(ctx, rep):
    hs = histories(ctx)
    cases = []
    gc.collect()
    gc.freeze()
    try:
        for kind, h in hs:
            codes, finds = run_history(kind, list(h))
            cases.append((kind, h, codes))
            seen = set()
            for key, what in finds:
                if key in seen:
                    continue
                seen.add(key)
                rep.violation(key, '%s class, history %s: %s' % (kind, [OPS[o] for o in h], what),
                              {'part': 'history', 'kind': kind, 'history': list(h), 'key': key})
            rep.distinct.add(('hist', kind, h))
    finally:
        gc.unfreeze()
    rep.coverage['histories'] = len(hs)
    rep.coverage['histories_by_length'] = dict(
        (str(L), sum(1 for k, h in hs if len(h) == L)) for L in range(1, 7))
    rep.coverage['history_drops_observed'] = sum(1 for k, h, c in cases for x in c if x // 1000 == 5)
    rep.coverage['history_drops_not_reclaimed'] = sum(
        1 for k, h, c in cases for x in c if x // 1000 == 5 and (x // 10) % 10 == 0)
    for kind, h, codes in cases[:1] + [c for c in cases if len(c[1]) == 4][:2]:
        rep.sample({'class': kind, 'history': [OPS[o] for o in h], 'observations': codes}, limit=6)

    def work(chunk):
        cs = coqrun.coq_list(['(%d%%nat, %s, %s)' % (
            MODEL_KIND[k], coqrun.coq_list(['%d%%nat' % o for o in h]),
            coqrun.coq_list(['%d' % c for c in codes])) for k, h, codes in chunk])
        pre = COQ_PRE + '\nDefinition HS : list (nat * list nat * list N) := %s.\n' % cs
        ans = coqrun.coq_eval(pre, ['bad_hist HS 0'], name='c18hist')
        return coqrun.parse_nat_list(ans[0])
    chunks = [cases[i:i + 1500] for i in range(0, len(cases), 1500)]
    n_bad = 0
    with concurrent.futures.ThreadPoolExecutor(8) as ex:
        for chunk, bad in zip(chunks, ex.map(work, chunks)):
            for i in bad:
                n_bad += 1
                if n_bad <= 5:
                    k, h, codes = chunk[i]
                    rep.corr_break('run_impl (cache state machine) vs descriptors',
                                   '%s %s' % (k, [OPS[o] for o in h]), 'model observations differ', codes)
    return sum(len(h) for k, h in hs)


# ----------------------------------------------------------------- part 3: sibling translators
# One class body holds a translator that is used on its own (`base`) AND a second
# translator stacked on it (`derived`); both are methods.  Binding, retrieving
# and calling the two on several instances, in any interleaving, must give for
# each attribute what a fresh class gives when only that attribute is touched.
# The custom getter of a translator (cg / Combination / partial(_kwoargs_start..))
# re-applies the name sets to the bound function, i.e. the bound object must be
# what Model/Cache.v's run_mods gives for the same modifiers on the function
# without its first parameter.
SIB_DESC = [(1, 1, False), (2, 1, True), (3, 1, True)]          # (a, b=52, c=53) after binding
SIB_POOL = [('kwo', (2,)), ('kwo', (3,)), ('end', 1), ('auto', ())]
SIB_VARIANTS = {                                                 # derived modifier -> model run
    'kwo': (1, lambda f: modifiers.kwoargs('c')(f)),
    'end': (2, lambda f: modifiers.posoargs(end='a')(f)),
    'auto': (3, lambda f: modifiers.autokwoargs(f)),
}
SIB_SHAPES = None
SOPS = (['%s-%s%d' % (o, a, i) for a in ('base', 'derived') for o in ('get', 'ret', 'call') for i in (0, 1)]
        + ['retC-base', 'retC-derived', 'drop0', 'drop1'])


def sib_shapes():
    global SIB_SHAPES
    if SIB_SHAPES is None:
        SIB_SHAPES = call_shapes(SIB_DESC)[::2]
    return SIB_SHAPES


def build_sibling(variant):
    def fetch(self, a, b=52, c=53):
        return (self, a, b, c)
    base_t = modifiers.kwoargs('b')(fetch)

    class A(object):
        base = base_t
        derived = SIB_VARIANTS[variant][1](base_t)

    class B(A):
        pass
    return A, B


def sib_observe(obj, owner):
    """everything observable of one bound attribute: printed signatures, encoded
    signature, forwarded arguments and real results on the call shapes"""
    try:
        ssig = sigtools.signature(obj)
        enc = enc_sig(ssig)
        st = str(ssig)
    except Exception as e:
        enc, st = None, 'EXC:' + type(e).__name__
    fw = []
    real = []
    bind_ok = True
    for a, k in sib_shapes():
        fw += forward_of(obj, a, k)
        kw = dict((NAMES[x], v) for x, v in k)
        try:
            r = obj(*a, **kw)
            if r[0] is not owner:
                bind_ok = False
            real.append(tuple(r[1:]))
        except TypeError:
            real.append('TypeError')
    return {'str': st, 'istr': isig_str(obj), 'enc': enc, 'fw': fw, 'real': real, 'bind': bind_ok}


_SIB_FRESH = {}


def sib_fresh(variant, attr, level):
    key = (variant, attr, level)
    if key not in _SIB_FRESH:
        A, B = build_sibling(variant)
        if level == 'inst':
            i = A()
            _SIB_FRESH[key] = sib_observe(getattr(i, attr), i)
        else:
            _SIB_FRESH[key] = {'str': sig_str(getattr(A, attr)), 'istr': isig_str(getattr(A, attr))}
    return _SIB_FRESH[key]


def run_sibling(variant, hist):
    """returns (model cases {(attr, ans)}, findings)"""
    A, B = build_sibling(variant)
    inst = [A(), B()]
    held = [[], []]
    touched = [False, False]
    finds = []
    cases = set()
    for step, o in enumerate(hist):
        name = SOPS[o]
        if name.startswith('drop'):
            s_ = int(name[-1])
            wr = weakref.ref(inst[s_])
            was = touched[s_]
            inst[s_] = None
            del held[s_][:]
            gc.collect()
            if wr() is not None:
                via = any(getattr(k, '__self__', None) is wr()
                          for d in (A.__dict__['base'], A.__dict__['derived']) for k in list(d.insts.keys()))
                key = 'C18:cache-leak' if (was and via) else 'C18:leak:sibling%s' % ('' if was else '-untouched')
                finds.append((key, 'step %d (%s): the instance is still alive after del + gc.collect()' % (step, name)))
            inst[s_] = (A, B)[s_]()
            touched[s_] = False
            continue
        if name.startswith('retC'):
            attr = name.split('-')[1]
            obj = getattr(B, attr)
            want = sib_fresh(variant, attr, 'cls')
            got = {'str': sig_str(obj), 'istr': isig_str(obj)}
            if got != want:
                finds.append(('C18:history', 'step %d (%s): class-level signature %s, on a fresh class %s' % (
                    step, name, got['str'], want['str'])))
            continue
        op, rest = name.split('-')
        attr, s_ = rest[:-1], int(rest[-1])
        obj = getattr(inst[s_], attr)
        touched[s_] = True
        if op == 'get':
            held[s_].append(obj)
        ob = sib_observe(obj, inst[s_])
        want = sib_fresh(variant, attr, 'inst')
        if not ob['bind']:
            finds.append(('C18:binding', 'step %d (%s): calling the object returned for instance %d runs on another object'
                          % (step, name, s_)))
        if ob['str'] != want['str'] or ob['istr'] != want['istr'] or ob['enc'] != want['enc']:
            finds.append(('C18:history', 'step %d (%s): %s advertises %s (inspect: %s); the same attribute of a fresh class '
                          'advertises %s' % (step, name, attr, ob['str'], ob['istr'], want['str'])))
        elif ob['real'] != want['real'] or ob['fw'] != want['fw']:
            j = [i for i in range(len(want['real'])) if ob['real'][i] != want['real'][i]]
            a, k = sib_shapes()[j[0]] if j else sib_shapes()[0]
            finds.append(('C18:history', 'step %d (%s): %s%s behaves differently from the same attribute of a fresh class: '
                          'call args=%s kwargs=%s gives %s instead of %s' % (
                              step, name, attr, ob['str'], list(a), dict((NAMES[x], v) for x, v in k),
                              ob['real'][j[0]] if j else '(different forwarded arguments)',
                              want['real'][j[0]] if j else '')))
        if ob['enc'] is not None:
            cases.add((attr, (1, H(ob['enc']), H(ob['fw']))))
        del obj
    return cases, finds


def sibling_histories(ctx, variant):
    rng = ctx.rng('sib-' + variant)
    n = len(SOPS)
    out = []
    for L in range(1, (2 if ctx.quick else 3) + 1):
        out += list(itertools.product(range(n), repeat=L))
    for _ in range(250 if ctx.quick else 6000):
        out.append(tuple(rng.randrange(n) for _ in range(rng.choice([3, 4, 5, 6]))))
    return out


def part_sibling(ctx, rep):
    n_ops_total = 0
    n_h = 0
    gc.collect()
    gc.freeze()
    try:
        for variant in sorted(SIB_VARIANTS):
            allcases = set()
            for h in sibling_histories(ctx, variant):
                cases, finds = run_sibling(variant, list(h))
                allcases |= cases
                n_ops_total += len(h)
                n_h += 1
                rep.distinct.add(('sib', variant, h))
                seen = set()
                for key, what in finds:
                    if key in seen:
                        continue
                    seen.add(key)
                    rep.violation(key, 'sibling translators (base = kwoargs(\'b\')(f); derived = %s(base)), history %s: %s' % (
                        {'kwo': "kwoargs('c')", 'end': "posoargs(end='a')", 'auto': 'autokwoargs'}[variant],
                        [SOPS[o] for o in h], what),
                        {'part': 'sibling', 'variant': variant, 'history': list(h), 'key': key})
            # the bound objects against the model: run_mods on the function without `self`
            lst = sorted(allcases)
            mcases = [((0,) if attr == 'base' else (0, SIB_VARIANTS[variant][0]), {'ans': ans}) for attr, ans in lst]
            pre = coq_order_file_desc(SIB_DESC, SIB_POOL, sib_shapes(), mcases)
            bad = coqrun.parse_nat_list(coqrun.coq_eval(pre[0], pre[1], name='c18sib')[0])
            for i in bad[:5]:
                rep.corr_break('run_mods on the bound function vs bound sibling translator',
                               '%s %s' % (variant, lst[i][0]), 'model (adm, hash sig, hash calls) differs', lst[i][1])
            got_attrs = set(a for a, _ in lst)
            if got_attrs != {'base', 'derived'}:
                rep.corr_break('sibling coverage', variant, 'both attributes observed', sorted(got_attrs))
    finally:
        gc.unfreeze()
    rep.coverage['sibling_histories'] = n_h
    return n_ops_total * len(sib_shapes())


def _replay_sibling(r):
    cases, finds = run_sibling(r['variant'], list(r['history']))
    for key, what in finds:
        if r.get('key') is None or key == r['key']:
            return '%s: sibling translators (%s), history %s: %s' % (
                key, r['variant'], [SOPS[o] for o in r['history']], what)
    return None


# ----------------------------------------------------------------- part 4: objects made from an instance on the fly
# Routes that never go through a class-level descriptor cache: a modifier (or a
# stack of modifiers) applied to a bound method taken from the instance, and a
# forwarding closure the instance created for itself.  Nothing is cached by
# design, so these are the model's DWrap kind: every access is fresh, and after
# drop + gc.collect() the instance must be gone (C18_reclaim_partial).
TOPS = ['bm0', 'bm1', 'bmm0', 'bmm1', 'clos0', 'clos1', 'drop0', 'drop1']
TOP_MODEL = {'bm0': 0, 'bm1': 1, 'bmm0': 0, 'bmm1': 1, 'clos0': 3, 'clos1': 4, 'drop0': 9, 'drop1': 10}
T_EXPECT = {'bm': '(a, *args, b=1, **kwargs)', 'bmm': '(a, /, *args, b=1, **kwargs)', 'clos': '(x, y=2)'}


def build_service():
    class Service(object):
        def __init__(self):
            def callback(*args, **kwargs):
                return self.handle(*args, **kwargs)
            self.callback = callback

        def handle(self, x, y=2):
            return (self, 'handle', x, y)

        def run(self, a, b=1, *args, **kwargs):
            return (self, 'run', a, b, args, kwargs)
    return Service


def run_transient(hist):
    Service = build_service()
    inst = [Service(), Service()]
    held = [[], []]
    routes = [set(), set()]
    codes = []
    finds = []

    def code(tag, ok, rec=True):
        return tag * 1000 + (100 if ok else 0) + (10 if rec else 0)

    for step, o in enumerate(hist):
        name = TOPS[o]
        s_ = int(name[-1])
        kind = name[:-1]
        if kind == 'drop':
            wr = weakref.ref(inst[s_])
            used = sorted(routes[s_])
            inst[s_] = None
            del held[s_][:]
            gc.collect()
            dead = wr() is None
            if not dead:
                key = 'C18:leak:%s' % ('+'.join(used) if used else 'untouched')
                finds.append((key, 'step %d (%s): the instance is still alive after del + gc.collect(); it was only used '
                              'through %s' % (step, name, ', '.join(
                                  {'bm': "kwoargs('b')(inst.run)", 'bmm': "posoargs('a')(autokwoargs(inst.run))",
                                   'clos': 'the forwarding closure inst.callback'}[u] for u in used) or 'nothing')))
            codes.append(code(5, True, dead))
            inst[s_] = Service()
            routes[s_] = set()
            continue
        routes[s_].add(kind)
        if kind == 'bm':
            obj = modifiers.kwoargs('b')(inst[s_].run)
            r = obj(1, 5, b=3)
            ok = r[0] is inst[s_] and r[1:] == ('run', 1, 3, (5,), {})
        elif kind == 'bmm':
            obj = modifiers.posoargs('a')(modifiers.autokwoargs(inst[s_].run))
            r = obj(1, 7)
            ok = r[0] is inst[s_] and r[1:] == ('run', 1, 1, (7,), {})
        else:
            obj = inst[s_].callback
            r = obj(1)
            ok = r[0] is inst[s_] and r[1:] == ('handle', 1, 2)
        if not ok:
            finds.append(('C18:binding', 'step %d (%s): the call returned %r' % (step, name, r[1:])))
        got = sig_str(obj)
        again = sig_str(obj)
        if got != T_EXPECT[kind] or again != got:
            finds.append(('C18:history', 'step %d (%s): signature %s then %s, expected %s' % (
                step, name, got, again, T_EXPECT[kind])))
        if kind != 'clos':
            held[s_].append(obj)
        codes.append(code(2 if kind == 'clos' else 1, ok))
        del obj, r
    return codes, finds


def part_transient(ctx, rep):
    rng = ctx.rng('transient')
    n = len(TOPS)
    hs = []
    for L in range(1, (3 if ctx.quick else 4) + 1):
        hs += list(itertools.product(range(n), repeat=L))
    for _ in range(150 if ctx.quick else 3000):
        hs.append(tuple(rng.randrange(n) for _ in range(rng.choice([4, 5, 6]))))
    cases = []
    gc.collect()
    gc.freeze()
    try:
        for h in hs:
            codes, finds = run_transient(list(h))
            cases.append((2, tuple(TOP_MODEL[TOPS[o]] for o in h), codes))
            rep.distinct.add(('transient', h))
            seen = set()
            for key, what in finds:
                if key in seen:
                    continue
                seen.add(key)
                rep.violation(key, 'objects made from an instance on the fly, history %s: %s' % ([TOPS[o] for o in h], what),
                              {'part': 'transient', 'history': list(h), 'key': key})
    finally:
        gc.unfreeze()
    rep.coverage['transient_histories'] = len(hs)
    cs = coqrun.coq_list(['(%d%%nat, %s, %s)' % (
        k, coqrun.coq_list(['%d%%nat' % o for o in h]), coqrun.coq_list(['%d' % c for c in codes]))
        for k, h, codes in cases])
    pre = COQ_PRE + '\nDefinition HS : list (nat * list nat * list N) := %s.\n' % cs
    bad = coqrun.parse_nat_list(coqrun.coq_eval(pre, ['bad_hist HS 0'], name='c18transient')[0])
    for i in bad[:5]:
        rep.corr_break('run_impl DWrap vs objects made from an instance on the fly',
                       [TOPS[o] for o in hs[i]], 'model observations differ', cases[i][2])
    return sum(len(h) for h in hs)


def _replay_transient(r):
    codes, finds = run_transient(list(r['history']))
    for key, what in finds:
        if r.get('key') is None or key == r['key']:
            return '%s: objects made from an instance on the fly, history %s: %s' % (
                key, [TOPS[o] for o in r['history']], what)
    return None


# ----------------------------------------------------------------- part 5: instances that can be falsy
# A user class following the documented recipe `__signature__ = as_forged` with a
# forwarding __call__, whose instances are containers: falsy while empty, truthy
# once a call has recorded something.  Whatever the truth value, a retrieval on
# an instance is about THAT instance (its own __call__ forwarding signature),
# before and after calls, and the class keeps its constructor's signature.
# Nothing is cached: the model's DWrap kind.
FOPS = ['ins0', 'ins1', 'sig0', 'sig1', 'attr0', 'attr1', 'call0', 'call1', 'cls', 'drop0', 'drop1']
FOP_MODEL = {'ins0': 3, 'ins1': 4, 'sig0': 3, 'sig1': 4, 'attr0': 3, 'attr1': 4, 'call0': 6, 'call1': 7,
             'cls': 5, 'drop0': 9, 'drop1': 10}
F_EXPECT = ["(stage, path, mode='w', *, encoding=None)", '(stage, host, port)']
F_CLASS = '(sink, history=())'


def _to_file(path, mode='w', *, encoding=None):
    return ('file', path, mode, encoding)


def _to_socket(host, port):
    return ('socket', host, port)


def build_pipeline():
    class Pipeline(object):
        __signature__ = specifiers.as_forged

        def __init__(self, sink, history=()):
            self.sink = sink
            self.history = list(history)

        def __len__(self):
            return len(self.history)

        @specifiers.forwards_to_method('sink')
        def __call__(self, stage, *args, **kwargs):
            self.history.append(stage)
            return (self, self.sink(*args, **kwargs))
    return Pipeline


def run_falsy(hist):
    Pipeline = build_pipeline()
    sinks = [_to_file, _to_socket]
    inst = [Pipeline(sinks[0]), Pipeline(sinks[1])]
    codes = []
    finds = []

    def code(tag, ok, rec=True):
        return tag * 1000 + (100 if ok else 0) + (10 if rec else 0)

    def safe(f, o):
        try:
            return str(f(o))
        except Exception as e:
            return 'EXC:' + type(e).__name__

    for step, o in enumerate(hist):
        name = FOPS[o]
        if name == 'cls':
            got = safe(inspect.signature, Pipeline)
            if got != F_CLASS:
                finds.append(('C18:history', 'step %d: inspect.signature(Pipeline) is %s, expected %s' % (step, got, F_CLASS)))
            codes.append(code(2, True))
            continue
        s_ = int(name[-1])
        kind = name[:-1]
        if kind == 'drop':
            wr = weakref.ref(inst[s_])
            inst[s_] = None
            gc.collect()
            dead = wr() is None
            if not dead:
                finds.append(('C18:leak:as-forged-instance', 'step %d (%s): the instance is still alive after del + gc.collect()' % (step, name)))
            codes.append(code(5, True, dead))
            inst[s_] = Pipeline(sinks[s_])
            continue
        if kind == 'call':
            try:
                r = inst[s_]('stage', 'x', 1)
                ok = r[0] is inst[s_] and r[1][0] == ('file', 'socket')[s_]
                del r
            except Exception as e:
                ok = False
            if not ok:
                finds.append(('C18:binding', 'step %d (%s): the call did not run on the instance it was made on' % (step, name)))
            codes.append(code(3, ok))
            continue
        f = {'ins': inspect.signature, 'sig': sigtools.signature,
             'attr': lambda x: x.__signature__}[kind]
        got = safe(f, inst[s_])
        if got != F_EXPECT[s_]:
            finds.append(('C18:history', 'step %d (%s): %s of the %s instance %d (its sink is %s) is %s, expected its own '
                          '__call__ forwarding signature %s' % (
                              step, name, {'ins': 'inspect.signature', 'sig': 'sigtools.signature', 'attr': '.__signature__'}[kind],
                              'empty (falsy)' if len(inst[s_]) == 0 else 'non-empty', s_, sinks[s_].__name__, got, F_EXPECT[s_])))
        codes.append(code(2, True))
    if specifiers.as_forged.currently_computing:
        finds.append(('C18:guard-leak', 'as_forged.currently_computing is not empty after the history'))
        specifiers.as_forged.currently_computing.clear()
    return codes, finds


def part_falsy(ctx, rep):
    rng = ctx.rng('falsy')
    n = len(FOPS)
    hs = []
    for L in range(1, (2 if ctx.quick else 4) + 1):
        hs += list(itertools.product(range(n), repeat=L))
    for _ in range(250 if ctx.quick else 3000):
        hs.append(tuple(rng.randrange(n) for _ in range(rng.choice([3, 4, 5, 6]))))
    cases = []
    for h in hs:
        codes, finds = run_falsy(list(h))
        cases.append((2, tuple(FOP_MODEL[FOPS[o]] for o in h), codes))
        rep.distinct.add(('falsy', h))
        seen = set()
        for key, what in finds:
            if key in seen:
                continue
            seen.add(key)
            rep.violation(key, 'container-like class with __signature__ = as_forged, history %s: %s' % ([FOPS[o] for o in h], what),
                          {'part': 'falsy', 'history': list(h), 'key': key})
    rep.coverage['falsy_instance_histories'] = len(hs)
    cs = coqrun.coq_list(['(%d%%nat, %s, %s)' % (
        k, coqrun.coq_list(['%d%%nat' % o for o in h]), coqrun.coq_list(['%d' % c for c in codes]))
        for k, h, codes in cases])
    pre = COQ_PRE + '\nDefinition HS : list (nat * list nat * list N) := %s.\n' % cs
    bad = coqrun.parse_nat_list(coqrun.coq_eval(pre, ['bad_hist HS 0'], name='c18falsy')[0])
    for i in bad[:5]:
        rep.corr_break('run_impl DWrap vs as_forged instances', [FOPS[o] for o in hs[i]],
                       'model observations differ', cases[i][2])
    return sum(len(h) for h in hs)


def _replay_falsy(r):
    codes, finds = run_falsy(list(r['history']))
    for key, what in finds:
        if r.get('key') is None or key == r['key']:
            return '%s: container-like class with __signature__ = as_forged, history %s: %s' % (
                key, [FOPS[o] for o in r['history']], what)
    return None



# ----------------------------------------------------------------- part 6: decorator objects used again
# The decorators of a session are OBJECTS built once (Bank) and applied again and
# again: to fresh copies of one function in every order of a set, to the same
# function twice, to different functions in turn.  Repeated use must not change
# the result: every application gives what the same application gives with
# decorators built afresh for it (admissibility, both signatures, every call).
# The answers obtained with the reused objects also go to the model (run_mods).
_FRESH_ORDER = {}


def fresh_order(fi, mods):
    key = (fi, tuple(mods))
    if key not in _FRESH_ORDER:
        _FRESH_ORDER[key] = order_case(fi, list(mods), call_shapes(FUNCS[fi]), tuple(range(len(mods))))
    return _FRESH_ORDER[key]


def case_view(c):
    return (c['adm'], c['ans'], c.get('sig'), c.get('isig'), c.get('real'), c.get('broken'), c.get('upg'))


def show_case(c):
    if not c['adm']:
        return 'ValueError (not admissible)'
    if 'sig' not in c:
        return c.get('broken') or '?'
    return c['str'] + (' [%s]' % c['broken'] if c.get('broken') else '')


def run_session(session):
    """session: [(function index, modifiers in application order)] sharing one
    Bank.  -> [(case with the reused objects, case with fresh ones, uses before)]"""
    bank = Bank()
    out = []
    for fi, mods in session:
        mods = [tuple(m) for m in mods]
        before = dict(bank.uses)
        c = order_case(fi, mods, call_shapes(FUNCS[fi]), tuple(range(len(mods))), bank)
        out.append((c, fresh_order(fi, mods), before))
    return out


def reuse_finding(session, k, c, f, before):
    fi, mods = session[k]
    mods = [tuple(m) for m in mods]
    if case_view(c) == case_view(f):
        return None
    used = ['%s (applied %d time%s before)' % (show_mod(m), before[m], '' if before[m] == 1 else 's')
            for m in dict.fromkeys(mods) if before.get(m)]
    detail = ''
    if c['adm'] and f['adm'] and c.get('sig') == f.get('sig') and c.get('real') != f.get('real') \
            and c.get('real') is not None and f.get('real') is not None:
        shapes = call_shapes(FUNCS[fi])
        j = [i for i in range(len(shapes)) if c['real'][i] != f['real'][i]][0]
        a, kw = shapes[j]
        detail = '; call args=%s kwargs=%s gives %s instead of %s' % (
            list(a), dict((NAMES[x], v) for x, v in kw), c['real'][j], f['real'][j])
    return ('C18:reuse', 'repeated use of a decorator object changes the result: %s gives %s when its decorators are '
            'objects that were used before [%s], and %s when they are built afresh%s' % (
                describe_order(fi, mods), show_case(c), '; '.join(used) or 'first use in this session',
                show_case(f), detail))


def reuse_sessions(ctx):
    rng = ctx.rng('reuse')
    out = []
    for fi, desc in enumerate(FUNCS):
        pool = pool_for(desc)
        n = len(pool)
        pairs = list(itertools.combinations(range(n), 2))
        triples = list(itertools.combinations(range(n), 3))
        sets = [(i,) for i in range(n)]
        sets += rng.sample(pairs, min(len(pairs), 40 if ctx.quick else 150))
        sets += rng.sample(triples, min(len(triples), 8 if ctx.quick else 40))
        twice = [(i, i) for i in range(n)]
        sets += twice
        for idxs in sets:
            # every order of the set, one after the other, then the first order again
            perms = sorted(set(itertools.permutations(idxs)))
            out.append([(fi, tuple(pool[i] for i in p)) for p in perms + [perms[0]]])
    # one decorator object applied to all the functions in turn (it is not admissible for all of them)
    allmods = []
    for desc in FUNCS:
        for m in pool_for(desc):
            if m not in allmods:
                allmods.append(m)
    for m in allmods:
        for _ in range(1 if ctx.quick else 4):
            order = list(range(len(FUNCS)))
            rng.shuffle(order)
            out.append([(fi, (m,)) for fi in order])
    # mixed sessions: several functions, several decorators, shared where they coincide
    for _ in range(80 if ctx.quick else 800):
        sess = []
        for _ in range(rng.choice([5, 6, 8])):
            fi = rng.randrange(len(FUNCS))
            pool = pool_for(FUNCS[fi])
            sess.append((fi, tuple(rng.choice(pool if rng.random() < 0.6 else allmods)
                                   for _ in range(rng.choice([1, 1, 2])))))
        out.append(sess)
    return out


def part_reuse(ctx, rep):
    sessions = reuse_sessions(ctx)
    n_eval = 0
    n_apps = 0
    n_reused = 0
    per_func = {}
    reported = 0
    for sess in sessions:
        res = run_session(sess)
        rep.distinct.add(('reuse', tuple(sess)))
        for k, (c, f, before) in enumerate(res):
            fi, mods = sess[k]
            n_apps += 1
            n_eval += 1 + (len(call_shapes(FUNCS[fi])) if c['adm'] else 0)
            if any(before.get(m) for m in mods):
                n_reused += 1
            per_func.setdefault(fi, {})[(tuple(mods), c['ans'])] = c
            fd = reuse_finding(sess, k, c, f, before)
            if fd is not None:
                reported += 1
                rep.violation(fd[0], fd[1], {'part': 'reuse', 'key': fd[0],
                                             'session': [[fi_, [list(m) for m in ms]] for fi_, ms in sess[:k + 1]]})
                break                       # later applications of this session use the same disturbed objects
    rep.coverage['reuse_sessions'] = len(sessions)
    rep.coverage['reuse_applications'] = n_apps
    rep.coverage['reuse_applications_with_an_object_used_before'] = n_reused
    # the answers obtained with reused objects against the model
    jobs = []
    for fi, d in sorted(per_func.items()):
        pool = []
        cases = []
        for (mods, _ans), c in sorted(d.items(), key=lambda kv: repr(kv[0])):
            for m in mods:
                if m not in pool:
                    pool.append(m)
            cases.append((tuple(pool.index(m) for m in mods), c))
        for off in range(0, len(cases), 500):
            jobs.append((fi, pool, call_shapes(FUNCS[fi]), cases[off:off + 500]))

    def work(job):
        fi, pool, shapes, cases = job
        pre, terms = coq_order_file(fi, pool, shapes, cases)
        return coqrun.parse_nat_list(coqrun.coq_eval(pre, terms, name='c18reuse')[0])
    with concurrent.futures.ThreadPoolExecutor(8) as ex:
        for job, bad in zip(jobs, ex.map(work, jobs)):
            fi, pool, shapes, cases = job
            for i in bad[:5]:
                p, c = cases[i]
                rep.corr_break('run_mods/advertised/pok_call vs modifiers applied through reused decorator objects',
                               describe_order(fi, [pool[j] for j in p]),
                               'model (adm, hash sig, hash calls) differs', '%s %s' % (c['ans'], c.get('str')))
    rep.coverage['reuse_model_cases'] = sum(len(j[3]) for j in jobs)
    return n_eval


def _replay_reuse(r):
    sess = [(fi, tuple(_tuplify(m) for m in ms)) for fi, ms in r['session']]
    res = run_session(sess)
    k = len(sess) - 1
    fd = reuse_finding(sess, k, *res[k])
    return None if fd is None else '%s: %s' % fd


# ----------------------------------------------------------------- part 7: forger wrappers on implicitly transformed names
# __class_getitem__ / __init_subclass__ (implicit classmethods) and __new__
# (implicit staticmethod) decorated with a forger.  With emulate=True the class
# attribute is a _ForgerWrapper, which has to emulate the transform Python
# applies to plain functions of those names.  Every history runs on a FRESH
# family of classes, so that the very first access of each wrapper object is
# observed (a subscript, the creation of a subclass, a retrieval); whatever
# came before, every retrieval advertises the same signature and is bound to
# the owner it was made on, and every call runs on that owner.  Owner 0 is
# Base, owner 1 the subclass created last by an `mk` operation (Base before the
# first one).  Nothing is cached: the model's DWrap kind, owners as instances.
PVARIANTS = ['fn', 'static', 'fn-noemu']
P_EXPECT = {'cgi': "(item, flavour='plain', colour=None)", 'isc': "(flavour='plain', colour=None)",
            'new': "(cls, flavour='plain', colour=None)"}
P_ATTR = {'cgi': '__class_getitem__', 'isc': '__init_subclass__', 'new': '__new__'}
POPS = (['ret-%s%d' % (n, o) for n in ('cgi', 'isc', 'new') for o in (0, 1)]
        + ['%s%d' % (n, o) for n in ('item', 'cgicall', 'mk', 'new', 'isccall') for o in (0, 1)])


def _hook(flavour='plain', colour=None):
    return (flavour, colour)


@specifiers.forger_function
@modifiers.kwoargs('obj')
def _static_signature(obj, sig):
    return sig


def build_special(variant):
    seen = []
    if variant == 'fn':
        def deco(n):
            return specifiers.forwards_to_function(_hook, emulate=True)
    elif variant == 'fn-noemu':
        def deco(n):
            return specifiers.forwards_to_function(_hook)
    else:
        def deco(n):
            return _static_signature(support.s(P_EXPECT[n][1:-1]), emulate=True)

    class Base(object):
        @deco('cgi')
        def __class_getitem__(cls, item, *args, **kwargs):
            return (cls, 'item', item, _hook(*args, **kwargs))

        @deco('isc')
        def __init_subclass__(cls, *args, **kwargs):
            seen.append((cls, _hook(*args, **kwargs)))

        @deco('new')
        def __new__(cls, *args, **kwargs):
            self = object.__new__(cls)
            self.made = (cls, _hook(*args, **kwargs))
            return self
    return Base, seen


def run_special(variant, hist):
    Base, seen = build_special(variant)
    owners = [Base, Base]
    touched = set()
    codes = []
    finds = []
    nsub = [0]

    def code(tag, ok):
        return tag * 1000 + (100 if ok else 0) + 10

    def attempt(f):
        try:
            return f()
        except Exception as e:  # noqa: BLE001
            return 'raised %s: %s' % (type(e).__name__, e)

    for step, o in enumerate(hist):
        name = POPS[o]
        s_ = int(name[-1])
        kind = name[:-1]
        own = owners[s_]
        oname = 'Base' if own is Base else 'the subclass created last'
        if kind.startswith('ret-'):
            n = kind[4:]
            first = n not in touched
            touched.add(n)
            where = 'step %d (%s, %s access of the %s attribute in this family)' % (
                step, name, 'FIRST' if first else 'a later', P_ATTR[n])
            obj = attempt(lambda: getattr(own, P_ATTR[n]))
            ok = True
            if isinstance(obj, str):
                finds.append(('C18:history', '%s: retrieving %s.%s %s' % (where, oname, P_ATTR[n], obj)))
                ok = False
            else:
                got = attempt(lambda: str(sigtools.signature(obj)))
                igot = attempt(lambda: str(inspect.signature(obj))) if variant != 'fn-noemu' else got
                if got != P_EXPECT[n] or igot != got:
                    finds.append(('C18:history', '%s: %s.%s advertises %s (inspect.signature: %s), every other retrieval gives %s'
                                  % (where, oname, P_ATTR[n], got, igot, P_EXPECT[n])))
                    ok = False
                bs = bound_self(obj)
                want = None if n == 'new' else own
                if bs is not want:
                    finds.append(('C18:binding', '%s: the object retrieved on %s is bound to %s, expected %s' % (
                        where, oname, 'nothing' if bs is None else ('Base' if bs is Base else repr(bs)),
                        'nothing (a static method)' if want is None else oname)))
                    ok = False
            codes.append(code(2, ok))
            del obj
            continue
        n = {'item': 'cgi', 'cgicall': 'cgi', 'mk': 'isc', 'new': 'new', 'isccall': 'isc'}[kind]
        first = n not in touched
        touched.add(n)
        where = 'step %d (%s, %s access of the %s attribute in this family)' % (
            step, name, 'FIRST' if first else 'a later', P_ATTR[n])
        if kind == 'item':
            r = attempt(lambda: own[step])
            want = (own, 'item', step, ('plain', None))
            what = '%s[%d]' % (oname, step)
        elif kind == 'cgicall':
            r = attempt(lambda: own.__class_getitem__(step, colour=5))
            want = (own, 'item', step, ('plain', 5))
            what = '%s.__class_getitem__(%d, colour=5)' % (oname, step)
        elif kind == 'new':
            r = attempt(lambda: own(flavour=step))
            if not isinstance(r, str):
                r = (type(r), r.made)
            want = (own, (own, (step, None)))
            what = '%s(flavour=%d)' % (oname, step)
        elif kind == 'isccall':
            before = len(seen)
            r = attempt(lambda: own.__init_subclass__(flavour=step))
            if not isinstance(r, str):
                r = (r, seen[before:])
            want = (None, [(own, (step, None))])
            what = '%s.__init_subclass__(flavour=%d)' % (oname, step)
        else:
            before = len(seen)
            nsub[0] += 1
            kw = {'flavour': step} if s_ == 0 else {'colour': step}
            r = attempt(lambda: type(Base)('S%d' % nsub[0], (own,), {}, **kw))
            what = 'class S%d(%s, %s=%d)' % (nsub[0], oname, list(kw)[0], step)
            if isinstance(r, str):
                want = 'the class to be created'
            else:
                sub = r
                r = seen[before:]
                want = [(sub, _hook(**kw))]
                owners[1] = sub
        ok = not isinstance(r, str) and r == want
        if not ok:
            finds.append(('C18:history' if isinstance(r, str) else 'C18:binding',
                          '%s: %s %s, expected %s as on every other access' % (
                              where, what, r if isinstance(r, str) else 'gave %r' % (r,), want if isinstance(want, str) else repr(want))))
        codes.append(code(3, ok))
        del r, want
    if specifiers.as_forged.currently_computing:
        finds.append(('C18:guard-leak', 'as_forged.currently_computing is not empty after the history'))
        specifiers.as_forged.currently_computing.clear()
    return codes, finds


def p_model_op(o):
    name = POPS[o]
    return (3 if name.startswith('ret-') else 6) + int(name[-1])


def part_special(ctx, rep):
    rng = ctx.rng('special')
    n = len(POPS)
    hs = []
    for v in PVARIANTS:
        for L in (1, 2):
            hs += [(v, h) for h in itertools.product(range(n), repeat=L)]
        for _ in range(250 if ctx.quick else 4000):
            hs.append((v, tuple(rng.randrange(n) for _ in range(rng.choice([3, 4, 5, 6])))))
    cases = []
    nfirst = 0
    for v, h in hs:
        codes, finds = run_special(v, list(h))
        cases.append((2, tuple(p_model_op(o) for o in h), codes))
        rep.distinct.add(('special', v, h))
        seen = set()
        for key, what in finds:
            if key in seen:
                continue
            seen.add(key)
            rep.violation(key, 'forger (%s) on __class_getitem__ / __init_subclass__ / __new__ of a fresh class family, history %s: %s' % (
                {'fn': 'forwards_to_function(hook, emulate=True)', 'static': 'a forger_function decorator with emulate=True',
                 'fn-noemu': 'forwards_to_function(hook)'}[v], [POPS[o] for o in h], what),
                {'part': 'special', 'variant': v, 'history': list(h), 'key': key})
    rep.coverage['special_method_forger_histories'] = len(hs)
    rep.coverage['special_method_forger_first_op'] = dict(
        (POPS[o], sum(1 for v, h in hs if h[0] == o)) for o in range(n))
    cs = coqrun.coq_list(['(%d%%nat, %s, %s)' % (
        k, coqrun.coq_list(['%d%%nat' % o for o in h]), coqrun.coq_list(['%d' % c for c in codes]))
        for k, h, codes in cases])
    pre = COQ_PRE + '\nDefinition HS : list (nat * list nat * list N) := %s.\n' % cs
    bad = coqrun.parse_nat_list(coqrun.coq_eval(pre, ['bad_hist HS 0'], name='c18special')[0])
    for i in bad[:5]:
        rep.corr_break('run_impl DWrap vs forger wrappers on implicitly transformed names',
                       '%s %s' % (hs[i][0], [POPS[o] for o in hs[i][1]]), 'model observations differ', cases[i][2])
    return sum(len(h) for v, h in hs)


def _replay_special(r):
    codes, finds = run_special(r['variant'], list(r['history']))
    for key, what in finds:
        if r.get('key') is None or key == r['key']:
            return '%s: forger (%s) on implicitly transformed names, history %s: %s' % (
                key, r['variant'], [POPS[o] for o in r['history']], what)
    return None



# ----------------------------------------------------------------- fixed scenarios
def posoargs_self_scenario():
    """posoargs('self', 'a') on a method: decoration and class-level use work,
    every instance access raises (custom_getter re-applies the names to the
    bound method, which has no `self`)"""
    class A(object):
        @modifiers.posoargs('self', 'a')
        def m(self, a, b=2):
            return (self, a, b)
    i = A()
    if A.m(i, 1)[0] is not i:
        return None
    try:
        i.m
    except ValueError as e:
        return 'posoargs(\'self\', \'a\') method: A.m(i, 1) works, i.m raises ValueError(%s)' % e
    return None


def run(ctx, rep):
    rep.rule = ('order: one (function, ordered modifier list) whose run is admissible on the implementation; '
                'history: one (class kind, operation sequence); sibling: one (derived modifier, operation sequence); special: one (forger variant, operation sequence on a fresh class family); '
                'reuse: one session = a list of (function, ordered modifier list) applied with decorator objects built once '
                '(all orders of a set then the first again, one decorator over all functions, mixed sessions)')
    rep.assumptions = [
        'reachability in the heap model abstracts CPython: reclaimed = weakref dead after del + gc.collect()',
        'annotations from different annotate calls agree where they overlap (hypothesis of C18_order)',
        'class-level retrieval errors of wrappers (C13:self-collision) are compared as opaque values, not judged here',
    ]
    e1 = part_order(ctx, rep)
    e2 = part_history(ctx, rep)
    e3 = part_sibling(ctx, rep)
    e4 = part_transient(ctx, rep)
    e5 = part_falsy(ctx, rep)
    e6 = part_reuse(ctx, rep)
    e7 = part_special(ctx, rep)
    rep.evaluations = e1 + e2 + e3 + e4 + e5 + e6 + e7
    msg = posoargs_self_scenario()
    if msg:
        rep.violation('C18:posoargs-self-rebind', msg, {'part': 'posoargs-self'})
    rep.exhaustive = not ctx.quick
    rep.coverage['exhaustive_note'] = (
        'histories: all sequences up to the per-kind full length (see histories_by_length) plus seeded samples up to '
        'length 6; order: all singletons/pairs (sampled in quick when > 130) and sampled triples per function (30 quick / 400 thorough)')


# ----------------------------------------------------------------- replay
def _replay_order(r):
    fi = r['func']
    pool = dict((int(k), (v[0], _tuplify(v[1]))) for k, v in r['pool'].items())
    shapes = call_shapes(FUNCS[fi])
    res = []
    for p in r['perms']:
        res.append(order_case(fi, pool, shapes, tuple(p)))
    out = []
    for p, c in zip(r['perms'], res):
        if c['adm'] and c.get('broken'):
            out.append('%s: %s' % (describe_order(fi, [pool[i] for i in p]), c['broken']))
    res = [c if ('sig' in c or not c['adm']) else {'adm': False} for c in res]
    for p, c in zip(r['perms'], res):
        if c['adm'] and c['sig'] != c['isig']:
            out.append('inspect/sigtools signatures differ for %s' % describe_order(fi, [pool[i] for i in p]))
        if c['adm'] and c.get('upg'):
            out.append('%s after %s' % (c['upg'], describe_order(fi, [pool[i] for i in p])))
        if c['adm']:
            want = {}
            wret = None
            for i in p:
                if pool[i][0] == 'ann':
                    want.update(dict(pool[i][1][1]))
                    wret = pool[i][1][0] if pool[i][1][0] is not None else wret
            s = c['sig']
            got = dict((s[j], s[j + 3] - 1) for j in range(0, len(s) - 2, 4))
            if any(got.get(k) != v for k, v in want.items()) or (wret is not None and s[-1] != wret + 1):
                out.append('annotation not advertised after %s: %s' % (describe_order(fi, [pool[i] for i in p]), c['str']))
    if len(res) == 2 and res[0]['adm'] and res[1]['adm'] and (
            res[0]['sig'] != res[1]['sig'] or res[0]['real'] != res[1]['real']):
        out.append('%s gives %s but %s gives %s' % (
            describe_order(fi, [pool[i] for i in r['perms'][0]]), res[0]['str'],
            describe_order(fi, [pool[i] for i in r['perms'][1]]), res[1]['str']))
    return '; '.join(out) or None


def _tuplify(x):
    if isinstance(x, list):
        return tuple(_tuplify(y) for y in x)
    return x


def _replay_history(r):
    codes, finds = run_history(r['kind'], list(r['history']))
    want = r.get('key')
    for key, what in finds:
        if want is None or key == want:
            return '%s: %s class, history %s: %s' % (key, r['kind'], [OPS[o] for o in r['history']], what)
    return None


def replay(ctx, data):
    r = data['replay']
    if r.get('part') == 'order':
        return _replay_order(r)
    if r.get('part') == 'history':
        return _replay_history(r)
    if r.get('part') == 'sibling':
        return _replay_sibling(r)
    if r.get('part') == 'transient':
        return _replay_transient(r)
    if r.get('part') == 'falsy':
        return _replay_falsy(r)
    if r.get('part') == 'reuse':
        return _replay_reuse(r)
    if r.get('part') == 'special':
        return _replay_special(r)
    if r.get('part') == 'posoargs-self':
        return posoargs_self_scenario()
    return None


def replay_known(ctx, k):
    w = k.get('witness') or {}
    if w.get('part') == 'posoargs-self':
        return posoargs_self_scenario() is not None
    if 'history' not in w:
        return True
    hist = [OPS.index(o) if isinstance(o, str) else o for o in w['history']]
    codes, finds = run_history(w.get('kind', 'pok'), hist)
    return any(key == k.get('key') for key, what in finds)
